import Rare.Model.C02Rx
/-!
Parser for the fragment of Go's regexp syntax that `Model/C02Rx` gives a meaning to, in both of the
wrapper's modes: Perl (`regexp.Compile`: `syntax.Perl` = `ClassNL | OneLine | PerlX | UnicodeGroups`) and
POSIX (`regexp.CompilePOSIX`: no flag at all – no `(?…)` groups, no lazy operators, no `\d \w \s \b \A \z`,
`^` `$` are line-wise, a negated class does not contain the line feed, `-` inside a class only first or last).
Counted repetition `{n}` `{n,}` `{n,m}` is unfolded the way `syntax.Simplify` does and limited as
`repeatIsValid` does (`need`); a `{` that does not start a repetition, `}` and `]` are literals.
Flag groups `(?flags)` / `(?flags:…)` with `i m s U` and `-` (valid until the enclosing group closes, as in
`parsePerlFlags`), `\Q…\E`, `\xHH` `\x{H…}` and octal escapes, `\a \v`, POSIX classes `[[:alpha:]]` /
`[[:^alpha:]]` and negated Perl classes inside brackets, `]` first in a class.
Everything else (`\pL`, `\C`, non-ASCII, `*` `+` `{n,}` over bodies that can match the empty text, doubled repetition
operators, …) is refused (`none` → the driver answers `unmodelled`).  The parser is compared with the real engine
by the `rx` cases.

Group numbering is Go's: every capturing `(` takes the next number in the order of the opening
parentheses, named or not; `(?:` does not count.
-/
namespace Rare.C02.Rx

structure PSt where
  ng : Nat := 0
  /-- names of groups `1 … ng`, most recent first (`[]` = unnamed) -/
  names : List Bytes := []
  /-- synthesized: the smallest `n` for which `repeatIsValid(e, n)` holds, `e` = the expression just parsed -/
  need : Nat := 0
  /-- the parser's current flags: `i` (FoldCase), `s` (DotNL), `m` (OneLine off), `U` (NonGreedy) -/
  fold : Bool := false
  dotNL : Bool := false
  multi : Bool := false
  swap : Bool := false

abbrev PR := Option (Re × Bytes × PSt)
abbrev Rg := UInt8 × UInt8

def digitR : List Rg := [(48, 57)]
def wordR : List Rg := [(48, 57), (65, 90), (95, 95), (97, 122)]
def spaceR : List Rg := [(9, 10), (12, 13), (32, 32)]

/-- `(?i)`: a range also matches the other case of its letters -/
def foldRange (r : Rg) : List Rg :=
  let lo := if r.1 ≤ 97 then 97 else r.1
  let hi := if r.2 ≤ 122 then r.2 else 122
  let lo2 := if r.1 ≤ 65 then 65 else r.1
  let hi2 := if r.2 ≤ 90 then r.2 else 90
  r :: (if lo ≤ hi then [(lo - 32, hi - 32)] else []) ++ (if lo2 ≤ hi2 then [(lo2 + 32, hi2 + 32)] else [])

def foldAll (fold : Bool) (rs : List Rg) : List Rg := if fold then rs.flatMap foldRange else rs

def mkCls (fold neg : Bool) (rs : List Rg) : Re := .cls neg (foldAll fold rs)

/-- the bytes outside a set of ranges (a negated item INSIDE a bracket expression) -/
def compl (rs : List Rg) : List Rg :=
  ((List.range 256).filter fun n => !(rs.any fun r => r.1.toNat ≤ n && n ≤ r.2.toNat)).map fun n => (n.toUInt8, n.toUInt8)

def isAlnum (b : UInt8) : Bool := (48 ≤ b && b ≤ 57) || (65 ≤ b && b ≤ 90) || (97 ≤ b && b ≤ 122)
def isOct (b : UInt8) : Bool := 48 ≤ b && b ≤ 55
def hexVal (b : UInt8) : Option Nat :=
  if 48 ≤ b && b ≤ 57 then some (b.toNat - 48)
  else if 97 ≤ b && b ≤ 102 then some (b.toNat - 87)
  else if 65 ≤ b && b ≤ 70 then some (b.toNat - 55)
  else none

def litOf (v : Nat) (rest : Bytes) : Option (Bool × List Rg × Bytes) :=
  if v < 0x80 then some (false, [(v.toUInt8, v.toUInt8)], rest) else none

/-- what follows a backslash, outside and inside a class: a Perl class (`perl` only) or one literal byte
(`parsePerlClassEscape` / `parseEscape`); `(negated, ranges, rest)` -/
def escTok (perl : Bool) : Bytes → Option (Bool × List Rg × Bytes)
  | [] => none
  | b :: rest =>
    if b = 0x78 then                                   -- \xHH  \x{H…}
      match rest with
      | 0x7b :: r =>
        let ds := r.takeWhile fun c => (hexVal c).isSome
        match r.drop ds.length with
        | 0x7d :: r2 =>
          if ds.isEmpty || ds.length > 6 then none
          else litOf (ds.foldl (fun acc d => acc * 16 + (hexVal d).getD 0) 0) r2
        | _ => none
      | h1 :: h2 :: r =>
        match hexVal h1, hexVal h2 with
        | some x, some y => litOf (x * 16 + y) r
        | _, _ => none
      | _ => none
    else if isOct b then                               -- \0 \012 \101 (a single 1-7 is a back reference: refused)
      let more := (rest.take 2).takeWhile isOct
      if b != 48 && more.isEmpty then none
      else litOf ((b :: more).foldl (fun acc d => acc * 8 + (d.toNat - 48)) 0) (rest.drop more.length)
    else if b = 0x64 then (if perl then some (false, digitR, rest) else none)        -- \d   (PerlX only)
    else if b = 0x44 then (if perl then some (true, digitR, rest) else none)    -- \D
    else if b = 0x77 then (if perl then some (false, wordR, rest) else none)    -- \w
    else if b = 0x57 then (if perl then some (true, wordR, rest) else none)     -- \W
    else if b = 0x73 then (if perl then some (false, spaceR, rest) else none)   -- \s
    else if b = 0x53 then (if perl then some (true, spaceR, rest) else none)    -- \S
    else if b = 0x61 then some (false, [(7, 7)], rest)    -- \a
    else if b = 0x66 then some (false, [(12, 12)], rest)  -- \f
    else if b = 0x6e then some (false, [(10, 10)], rest)  -- \n
    else if b = 0x72 then some (false, [(13, 13)], rest)  -- \r
    else if b = 0x74 then some (false, [(9, 9)], rest)    -- \t
    else if b = 0x76 then some (false, [(11, 11)], rest)  -- \v
    else if b < 0x80 && !isAlnum b then some (false, [(b, b)], rest)
    else none

/-- `[:name:]` -/
def namedClass (name : Bytes) : Option (List Rg) :=
  if name = "alnum".toUTF8.toList then some [(48, 57), (65, 90), (97, 122)]
  else if name = "alpha".toUTF8.toList then some [(65, 90), (97, 122)]
  else if name = "ascii".toUTF8.toList then some [(0, 127)]
  else if name = "blank".toUTF8.toList then some [(9, 9), (32, 32)]
  else if name = "cntrl".toUTF8.toList then some [(0, 31), (127, 127)]
  else if name = "digit".toUTF8.toList then some [(48, 57)]
  else if name = "graph".toUTF8.toList then some [(33, 126)]
  else if name = "lower".toUTF8.toList then some [(97, 122)]
  else if name = "print".toUTF8.toList then some [(32, 126)]
  else if name = "punct".toUTF8.toList then some [(33, 47), (58, 64), (91, 96), (123, 126)]
  else if name = "space".toUTF8.toList then some [(9, 13), (32, 32)]
  else if name = "upper".toUTF8.toList then some [(65, 90)]
  else if name = "word".toUTF8.toList then some [(48, 57), (65, 90), (95, 95), (97, 122)]
  else if name = "xdigit".toUTF8.toList then some [(48, 57), (65, 70), (97, 102)]
  else none

/-- the text up to the first `:]` -/
def takeClassName : Bytes → Bytes → Option (Bytes × Bytes)
  | 0x3a :: 0x5d :: rest, acc => some (acc.reverse, rest)
  | b :: rest, acc => takeClassName rest (b :: acc)
  | [], _ => none

/-- one literal end point inside a class (`parseClassChar`: an escape here is never a Perl class) -/
def clsChar : Bytes → Option (UInt8 × Bytes)
  | 0x5c :: rest =>
    match escTok false rest with
    | some (false, [(x, _)], r) => some (x, r)
    | _ => none
  | 0x5b :: 0x3a :: _ => none          -- `[:` without a closing `:]` would be a literal `[`: left out
  | b :: rest => if b < 0x80 then some (b, rest) else none
  | [] => none

/-- the items of a class up to the closing `]` (`parseClass`); fuel = remaining length -/
def clsItems (perl fold : Bool) : Nat → Bytes → List Rg → Option (List Rg × Bytes)
  | 0, _, _ => none
  | f + 1, inp, acc =>
    let first := acc.isEmpty
    match inp with
    | [] => none
    | b0 :: rest0 =>
      if b0 = 0x5d && !first then some (acc.reverse, rest0)
      -- POSIX: `-` is only okay unescaped as first or last in class
      else if b0 = 0x2d && !perl && !first && (match rest0 with | 0x5d :: _ => false | _ => true) then none
      else
        let named : Option (Option (List Rg × Bytes)) :=
          match inp with
          | 0x5b :: 0x3a :: r =>
            match takeClassName r [] with
            | some (nm, r2) =>
              let (neg, nm) := match nm with
                | 0x5e :: t => (true, t)
                | _ => (false, nm)
              match namedClass nm with
              | some rs => some (some (if neg then compl (foldAll fold rs) else rs, r2))
              | none => some none
            | none => none
          | 0x5c :: r =>
            if !perl then none else
            match escTok true r with
            | some (neg, rs, r2) =>
              if rs.length > 1 || neg || rs == digitR then some (some (if neg then compl (foldAll fold rs) else rs, r2)) else none
            | none => none
          | _ => none
        match named with
        | some none => none
        | some (some (rs, r2)) => clsItems perl fold f r2 (rs.reverse ++ acc)
        | none =>
          match clsChar inp with
          | none => none
          | some (lo, r1) =>
            match r1 with
            | 0x2d :: 0x5d :: _ => clsItems perl fold f r1 ((lo, lo) :: acc)
            | 0x2d :: r2 =>
              match clsChar r2 with
              | some (hi, r3) => if lo ≤ hi then clsItems perl fold f r3 ((lo, hi) :: acc) else none
              | none => none
            | _ => clsItems perl fold f r1 ((lo, lo) :: acc)

def isRepOp (b : UInt8) : Bool := b = 0x2a || b = 0x2b || b = 0x3f

/-- group name: `[A-Za-z0-9_]+` up to `>` -/
def takeName : Bytes → Bytes → Option (Bytes × Bytes)
  | 0x3e :: rest, acc => if acc.isEmpty then none else some (acc.reverse, rest)
  | b :: rest, acc =>
    if isAlnum b || b = 95 then takeName rest (b :: acc) else none
  | [], _ => none

def catS (a b : Re) : Re :=
  match b with
  | .eps => a
  | _ => .cat a b

/-- decimal number as `parseInt` reads it: digits, no leading zero -/
def takeNum (inp : Bytes) : Option (Nat × Bytes) :=
  let ds := inp.takeWhile fun b => 48 ≤ b && b ≤ 57
  if ds.isEmpty || (ds.length ≥ 2 && ds.head? = some 48) then none
  else some (ds.foldl (fun acc d => acc * 10 + (d.toNat - 48)) 0, inp.drop ds.length)

/-- what stands after a `{`: not a repetition (the `{` is a literal), a repetition whose size Go refuses, or bounds -/
inductive Rep
  | lit
  | err
  | ok (min : Nat) (max : Option Nat) (rest : Bytes)

def repCheck (n : Nat) (m : Option Nat) (r : Bytes) : Rep :=
  if n > 1000 || m.any (· > 1000) || m.any (· < n) then .err else .ok n m r

/-- `{n}` `{n,}` `{n,m}` after the `{` (`parseRepeat` + the size checks of the parse loop) -/
def takeRepeat (inp : Bytes) : Rep :=
  match takeNum inp with
  | none => .lit
  | some (n, rest) =>
    match rest with
    | 0x7d :: r => repCheck n (some n) r
    | 0x2c :: 0x7d :: r => repCheck n none r
    | 0x2c :: r =>
      match takeNum r with
      | some (m, 0x7d :: r2) => repCheck n (some m) r2
      | _ => .lit
    | _ => .lit

def isRepStart (inp : Bytes) : Bool :=
  match inp with
  | b :: rest => isRepOp b || (b = 0x7b && (match takeRepeat rest with | .lit => false | _ => true))
  | [] => false

/-- `repeatIsValid`: the smallest budget a repetition with these bounds over a body needing `sub` needs -/
def repeatNeed (min : Nat) (max : Option Nat) (sub : Nat) : Nat :=
  match max with
  | some 0 => 0
  | _ =>
    let m := max.getD min
    if m = 0 then sub else Nat.max m (m * sub)

/-- postfix operators after an atom (`need` = the atom's; `swap` = flag `U`).  Perl mode: a second operator is an
error (refused).  POSIX mode: `a+*`, `a{2}{3}` are repetitions of repetitions (`fuel` bounds their number). -/
def postOp (perl swap : Bool) : Nat → Re → Nat → Bytes → Option (Re × Bytes × Nat)
  | 0, _, _, _ => none
  | fuel + 1, a, need, inp =>
  match inp with
  | op :: rest =>
    if isRepOp op || op = 0x7b then
      let bounds : Option (Option (Nat × Option Nat × Bytes)) :=
        if op = 0x7b then
          match takeRepeat rest with
          | .lit => some none
          | .err => none
          | .ok n m r => some (some (n, m, r))
        else if op = 0x3f then some (some (0, some 1, rest))
        else if op = 0x2a then some (some (0, none, rest))
        else some (some (1, none, rest))
      match bounds with
      | none => none
      | some none => some (a, inp, need)          -- a literal `{`: no operator here
      | some (some (min, max, rest)) =>
        let (lazy, rest) := match rest with
          | 0x3f :: r => if perl then (true, r) else (false, rest)
          | _ => (false, rest)
        let nd := repeatNeed min max need
        if perl && isRepStart rest then none
        else if max.isNone && nullable a then none
        else if nd > 1000 then none
        else if isRepStart rest then postOp perl swap fuel (repeatRe (lazy == swap) a min max) nd rest
        else some (repeatRe (lazy == swap) a min max, rest, nd)
    else some (a, inp, need)
  | [] => some (a, inp, need)

/-- the flags of `(?flags)` / `(?flags:` after the `(?` (`parsePerlFlags`): the new state, whether a group was
opened (`:`), the rest -/
def flagLoop : Nat → Bytes → PSt → Bool → Bool → Option (PSt × Bool × Bytes)
  | 0, _, _, _, _ => none
  | f + 1, inp, st, neg, saw =>
    match inp with
    | [] => none
    | c :: rest =>
      if c = 0x69 then flagLoop f rest { st with fold := !neg } neg true
      else if c = 0x6d then flagLoop f rest { st with multi := !neg } neg true
      else if c = 0x73 then flagLoop f rest { st with dotNL := !neg } neg true
      else if c = 0x55 then flagLoop f rest { st with swap := !neg } neg true
      else if c = 0x2d then (if neg then none else flagLoop f rest st true false)
      else if c = 0x3a || c = 0x29 then (if neg && !saw then none else some (st, c = 0x3a, rest))
      else none

/-- `\Q…\E` rewritten as escaped literals -/
def quoteLit : Bytes → Bytes × Bytes
  | 0x5c :: 0x45 :: rest => ([], rest)
  | b :: rest =>
    let (q, r) := quoteLit rest
    ((if isAlnum b then [b] else [0x5c, b]) ++ q, r)
  | [] => ([], [])

def restoreFlags (outer st : PSt) : PSt :=
  { st with fold := outer.fold, dotNL := outer.dotNL, multi := outer.multi, swap := outer.swap }

mutual
def pAlt : Nat → Bool → Bytes → PSt → PR
  | 0, _, _, _ => none
  | f + 1, perl, inp, st =>
    match pCat f perl inp st with
    | none => none
    | some (a, rest, st) =>
      match rest with
      | 0x7c :: rest' =>
        match pAlt f perl rest' st with
        | some (b, r2, st2) => some (.alt a b, r2, { st2 with need := Nat.max st.need st2.need })
        | none => none
      | _ => some (a, rest, st)

def pCat : Nat → Bool → Bytes → PSt → PR
  | 0, _, _, _ => none
  | f + 1, perl, inp, st =>
    match inp with
    | [] => some (.eps, [], { st with need := 0 })
    | 0x7c :: _ => some (.eps, inp, { st with need := 0 })
    | 0x29 :: _ => some (.eps, inp, { st with need := 0 })
    | _ =>
      -- `(?flags)` changes the parser's flags for the rest of the enclosing group; `\Q…\E`
      let special : Option (Option (Bytes × PSt)) :=
        if !perl then none else
        match inp with
        | 0x28 :: 0x3f :: r =>
          (match r with
           | 0x50 :: _ => none
           | 0x3c :: _ => none
           | _ =>
             match flagLoop (r.length + 1) r st false false with
             | some (st', false, rest) => some (some (rest, st'))
             | some (_, true, _) => none
             | none => some none)
        | 0x5c :: 0x51 :: r =>
          let (q, rest) := quoteLit r
          some (some (q ++ rest, st))
        | _ => none
      match special with
      | some none => none
      | some (some (rest, st')) =>
        if isRepStart rest && (match inp with | 0x28 :: _ => true | _ => (quoteLit (inp.drop 2)).1.isEmpty) then none
        else pCat f perl rest st'
      | none =>
        match pAtom f perl inp st with
        | none => none
        | some (a, rest, st) =>
          match postOp perl st.swap (rest.length + 1) a st.need rest with
          | none => none
          | some (a, rest, nd) =>
            match pCat f perl rest st with
            | none => none
            | some (b, r2, st2) => some (catS a b, r2, { st2 with need := Nat.max nd st2.need })

def pAtom : Nat → Bool → Bytes → PSt → PR
  | 0, _, _, _ => none
  | f + 1, perl, inp, st =>
    match inp with
    | [] => none
    | 0x28 :: 0x3f :: rest =>
      if !perl then none else                    -- POSIX mode has no `(?`
      let named : Option Bytes := match rest with
        | 0x50 :: 0x3c :: r => some r
        | 0x3c :: r => some r
        | _ => none
      match named with
      | some rest =>                             -- (?P<name> / (?<name>
        match takeName rest [] with
        | some (name, rest) =>
          if st.names.contains name then none else
          let n := st.ng + 1
          match pAlt f perl rest { st with ng := n, names := name :: st.names } with
          | some (a, 0x29 :: r2, st2) => some (.grp n a, r2, restoreFlags st st2)
          | _ => none
        | none => none
      | none =>                                  -- (?flags:
        match flagLoop (rest.length + 1) rest st false false with
        | some (st', true, rest) =>
          match pAlt f perl rest st' with
          | some (a, 0x29 :: r2, st2) => some (a, r2, restoreFlags st st2)
          | _ => none
        | _ => none
    | 0x28 :: rest =>
      let n := st.ng + 1
      match pAlt f perl rest { st with ng := n, names := [] :: st.names } with
      | some (a, 0x29 :: r2, st2) => some (.grp n a, r2, restoreFlags st st2)
      | _ => none
    | 0x5b :: 0x5e :: rest =>
      match clsItems perl st.fold (rest.length + 1) rest [] with
      -- without `ClassNL` (POSIX mode) the line feed is added before the negation
      | some (rs, r2) => some (mkCls st.fold true (if perl then rs else (10, 10) :: rs), r2, { st with need := 0 })
      | none => none
    | 0x5b :: rest =>
      match clsItems perl st.fold (rest.length + 1) rest [] with
      | some (rs, r2) => some (mkCls st.fold false rs, r2, { st with need := 0 })
      | none => none
    | 0x2e :: rest => some (.cls true (if st.dotNL then [] else [(10, 10)]), rest, { st with need := 0 })
    | 0x5e :: rest => some (.look (if perl && !st.multi then .bot else .bol), rest, { st with need := 0 })
    | 0x24 :: rest => some (.look (if perl && !st.multi then .eot else .eol), rest, { st with need := 0 })
    | 0x5c :: b :: rest =>
      let lk : Option Look :=
        if !perl then none
        else if b = 0x41 then some .bot          -- \A
        else if b = 0x7a then some .eot          -- \z
        else if b = 0x62 then some .wb           -- \b
        else if b = 0x42 then some .nwb          -- \B
        else none
      match lk with
      | some k => some (.look k, rest, { st with need := 0 })
      | none =>
        match escTok perl (b :: rest) with
        | some (neg, rs, r2) => some (mkCls st.fold neg rs, r2, { st with need := 0 })
        | none => none
    | b :: rest =>
      if b ≥ 0x80 || isRepOp b || b = 0x29 || b = 0x7c || b = 0x5c then none
      else if b = 0x7b && (match takeRepeat rest with | .lit => false | _ => true) then none
      else some (mkCls st.fold false [(b, b)], rest, { st with need := 0 })
end

structure Parsed where
  re : Re
  ng : Nat
  /-- `regexp.SubexpNames()`: entry 0 is the whole match (empty name) -/
  subexpNames : List Bytes

/-- `posix = false`: `regexp.Compile`; `posix = true`: `regexp.CompilePOSIX` -/
def parseEx (posix : Bool) (pat : Bytes) : Option Parsed :=
  match pAlt (4 * pat.length + 8) (!posix) pat {} with
  | some (r, [], st) => some ⟨r, st.ng, [] :: st.names.reverse⟩
  | _ => none

def parse (pat : Bytes) : Option Parsed := parseEx false pat

end Rare.C02.Rx
