import Rare.Model.C02Rx
/-!
Parser for the fragment of Go's regexp syntax that `Model/C02Rx` gives a meaning to.  Everything else
(`{n,m}`, `\b`, flags other than a leading `(?i)`, POSIX classes, non-ASCII, loops over bodies that can
match the empty text, doubled repetition operators, …) is refused (`none` → the driver answers
`unmodelled`).  The parser is *not* proved; it is compared with the real engine by the `rx` cases.

Group numbering is Go's: every capturing `(` takes the next number in the order of the opening
parentheses, named or not; `(?:` does not count.
-/
namespace Rare.C02.Rx

structure PSt where
  ng : Nat := 0
  /-- names of groups `1 … ng`, most recent first (`[]` = unnamed) -/
  names : List Bytes := []

abbrev PR := Option (Re × Bytes × PSt)

def digitR : List (UInt8 × UInt8) := [(48, 57)]
def wordR : List (UInt8 × UInt8) := [(48, 57), (65, 90), (95, 95), (97, 122)]
def spaceR : List (UInt8 × UInt8) := [(9, 10), (12, 13), (32, 32)]

/-- `(?i)`: a range also matches the other case of its letters -/
def foldRange (r : UInt8 × UInt8) : List (UInt8 × UInt8) :=
  let lo := if r.1 ≤ 97 then 97 else r.1
  let hi := if r.2 ≤ 122 then r.2 else 122
  let lo2 := if r.1 ≤ 65 then 65 else r.1
  let hi2 := if r.2 ≤ 90 then r.2 else 90
  r :: (if lo ≤ hi then [(lo - 32, hi - 32)] else []) ++ (if lo2 ≤ hi2 then [(lo2 + 32, hi2 + 32)] else [])

def mkCls (fold neg : Bool) (rs : List (UInt8 × UInt8)) : Re :=
  .cls neg (if fold then rs.flatMap foldRange else rs)

def isPunct (b : UInt8) : Bool :=
  b < 0x80 && b > 0x20 && b != 0x7f && !((48 ≤ b && b ≤ 57) || (65 ≤ b && b ≤ 90) || (97 ≤ b && b ≤ 122))

/-- `\x` outside and inside a class: a perl class or one literal byte -/
def escape (b : UInt8) : Option (Bool × List (UInt8 × UInt8)) :=
  if b = 0x64 then some (false, digitR)        -- \d
  else if b = 0x44 then some (true, digitR)    -- \D
  else if b = 0x77 then some (false, wordR)    -- \w
  else if b = 0x57 then some (true, wordR)     -- \W
  else if b = 0x73 then some (false, spaceR)   -- \s
  else if b = 0x53 then some (true, spaceR)    -- \S
  else if b = 0x6e then some (false, [(10, 10)])  -- \n
  else if b = 0x74 then some (false, [(9, 9)])    -- \t
  else if b = 0x72 then some (false, [(13, 13)])  -- \r
  else if b = 0x66 then some (false, [(12, 12)])  -- \f
  else if isPunct b then some (false, [(b, b)])
  else none

/-- one literal end point inside a class -/
def clsChar : Bytes → Option (UInt8 × Bytes)
  | 0x5c :: b :: rest =>
    match escape b with
    | some (false, [(x, y)]) => if x = y then some (x, rest) else none
    | _ => none
  | b :: rest => if b < 0x80 && b != 0x5b && b != 0x5d && b != 0x5c then some (b, rest) else none
  | [] => none

/-- the items of a class up to the closing `]`; fuel = remaining length -/
def clsItems : Nat → Bytes → List (UInt8 × UInt8) → Option (List (UInt8 × UInt8) × Bytes)
  | 0, _, _ => none
  | f + 1, inp, acc =>
    match inp with
    | [] => none
    | 0x5d :: rest => if acc.isEmpty then none else some (acc.reverse, rest)
    | 0x5c :: b :: rest =>
      match escape b with
      | some (false, [(x, y)]) =>
        if x = y then
          -- a literal: possibly the start of a range
          match rest with
          | 0x2d :: 0x5d :: _ => clsItems f rest ((x, x) :: acc)
          | 0x2d :: rest' =>
            match clsChar rest' with
            | some (hi, rest'') => if x ≤ hi then clsItems f rest'' ((x, hi) :: acc) else none
            | none => none
          | _ => clsItems f rest ((x, x) :: acc)
        else clsItems f rest ((x, y) :: acc)
      | some (false, rs) => clsItems f rest (rs.reverse ++ acc)
      | _ => none
    | b :: rest =>
      if b ≥ 0x80 || b = 0x5b then none
      else
        match rest with
        | 0x2d :: 0x5d :: _ => clsItems f rest ((b, b) :: acc)
        | 0x2d :: rest' =>
          if b = 0x2d then none else
          match clsChar rest' with
          | some (hi, rest'') => if b ≤ hi then clsItems f rest'' ((b, hi) :: acc) else none
          | none => none
        | _ => clsItems f rest ((b, b) :: acc)

def isRepOp (b : UInt8) : Bool := b = 0x2a || b = 0x2b || b = 0x3f

/-- group name: `[A-Za-z0-9_]+` up to `>` -/
def takeName : Bytes → Bytes → Option (Bytes × Bytes)
  | 0x3e :: rest, acc => if acc.isEmpty then none else some (acc.reverse, rest)
  | b :: rest, acc =>
    if (48 ≤ b && b ≤ 57) || (65 ≤ b && b ≤ 90) || (97 ≤ b && b ≤ 122) || b = 95 then takeName rest (b :: acc) else none
  | [], _ => none

def catS (a b : Re) : Re :=
  match b with
  | .eps => a
  | _ => .cat a b

/-- postfix operators after an atom -/
def postOp (a : Re) (inp : Bytes) : Option (Re × Bytes) :=
  match inp with
  | op :: rest =>
    if isRepOp op then
      let (lazy, rest) := match rest with
        | 0x3f :: r => (true, r)
        | _ => (false, rest)
      -- a second repetition operator is an error in Go (`a**`)
      match rest with
      | b :: _ => if isRepOp b || b = 0x7b then none else
        if op = 0x3f then some (if lazy then .alt .eps a else .alt a .eps, rest)
        else if nullable a then none
        else if op = 0x2a then some (.star (!lazy) a, rest)
        else some (.cat a (.star (!lazy) a), rest)
      | [] =>
        if op = 0x3f then some (if lazy then .alt .eps a else .alt a .eps, rest)
        else if nullable a then none
        else if op = 0x2a then some (.star (!lazy) a, rest)
        else some (.cat a (.star (!lazy) a), rest)
    else if op = 0x7b then none
    else some (a, inp)
  | [] => some (a, inp)

mutual
def pAlt : Nat → Bool → Bytes → PSt → PR
  | 0, _, _, _ => none
  | f + 1, fold, inp, st =>
    match pCat f fold inp st with
    | none => none
    | some (a, rest, st) =>
      match rest with
      | 0x7c :: rest' =>
        match pAlt f fold rest' st with
        | some (b, r2, st2) => some (.alt a b, r2, st2)
        | none => none
      | _ => some (a, rest, st)

def pCat : Nat → Bool → Bytes → PSt → PR
  | 0, _, _, _ => none
  | f + 1, fold, inp, st =>
    match inp with
    | [] => some (.eps, [], st)
    | 0x7c :: _ => some (.eps, inp, st)
    | 0x29 :: _ => some (.eps, inp, st)
    | _ =>
      match pAtom f fold inp st with
      | none => none
      | some (a, rest, st) =>
        match postOp a rest with
        | none => none
        | some (a, rest) =>
          match pCat f fold rest st with
          | none => none
          | some (b, r2, st2) => some (catS a b, r2, st2)

def pAtom : Nat → Bool → Bytes → PSt → PR
  | 0, _, _, _ => none
  | f + 1, fold, inp, st =>
    match inp with
    | [] => none
    | 0x28 :: 0x3f :: 0x3a :: rest =>            -- (?:
      match pAlt f fold rest st with
      | some (a, 0x29 :: r2, st2) => some (a, r2, st2)
      | _ => none
    | 0x28 :: 0x3f :: rest =>                    -- (?P<name> / (?<name>
      let rest := match rest with
        | 0x50 :: r => r
        | _ => rest
      match rest with
      | 0x3c :: rest =>
        match takeName rest [] with
        | some (name, rest) =>
          if st.names.contains name then none else
          let n := st.ng + 1
          match pAlt f fold rest { ng := n, names := name :: st.names } with
          | some (a, 0x29 :: r2, st2) => some (.grp n a, r2, st2)
          | _ => none
        | none => none
      | _ => none
    | 0x28 :: rest =>
      let n := st.ng + 1
      match pAlt f fold rest { ng := n, names := [] :: st.names } with
      | some (a, 0x29 :: r2, st2) => some (.grp n a, r2, st2)
      | _ => none
    | 0x5b :: 0x5e :: rest =>
      match clsItems (rest.length + 1) rest [] with
      | some (rs, r2) => some (mkCls fold true rs, r2, st)
      | none => none
    | 0x5b :: rest =>
      match clsItems (rest.length + 1) rest [] with
      | some (rs, r2) => some (mkCls fold false rs, r2, st)
      | none => none
    | 0x2e :: rest => some (.cls true [(10, 10)], rest, st)
    | 0x5e :: rest => some (.bol, rest, st)
    | 0x24 :: rest => some (.eol, rest, st)
    | 0x5c :: b :: rest =>
      match escape b with
      | some (neg, rs) => some (mkCls fold neg rs, rest, st)
      | none => none
    | b :: rest =>
      if b ≥ 0x80 || isRepOp b || b = 0x7b || b = 0x7d || b = 0x5d || b = 0x29 || b = 0x7c || b = 0x5c then none
      else some (mkCls fold false [(b, b)], rest, st)
end

structure Parsed where
  re : Re
  ng : Nat
  /-- `regexp.SubexpNames()`: entry 0 is the whole match (empty name) -/
  subexpNames : List Bytes

/-- the literal `(?i)` -/
def icFlag : Bytes := [0x28, 0x3f, 0x69, 0x29]

def parse (pat : Bytes) : Option Parsed :=
  let (fold, body) := if icFlag.isPrefixOf pat then (true, pat.drop 4) else (false, pat)
  match pAlt (4 * body.length + 8) fold body {} with
  | some (r, [], st) => some ⟨r, st.ng, [] :: st.names.reverse⟩
  | _ => none

end Rare.C02.Rx
