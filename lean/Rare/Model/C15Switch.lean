import Rare.Model.C15Rename
/-!
# C15 — the watcher goroutine's `switch`, read from the source as data

The translator emits the cases of the `switch` in `startWatcher` that test `event.Op` as a table
(`Rare.Gen.C15.watcherSignals`): (bit of the fsnotify `Op`, the case also requires `s.ReOpen`, the signals its
body raises: (only under `if s.ReOpen`, channel 0 = `eventWrite` / 1 = `eventDelete`)).  `switchSignals` is what
such a table does with an event of the followed name, `applySignals` performs the non-blocking sends;
`Rare.Props.C15.dispatch_matches_source` states that this is `dispatch1` (and `renameEv`) for every event kind –
so a changed case order, guard, channel or a dropped `if s.ReOpen` in /repo breaks a theorem by MEANING, not only
by the text comparison of `skeleton_matches_source`.
-/
namespace Rare.Follow

variable {β : Type}

/-- What the `switch` does with an event whose `Op` is the single bit `op`: the first case whose bit is set and
    whose `s.ReOpen` requirement is met is taken; of its signals those outside an `if s.ReOpen` and – with
    re-open – those inside are raised, in source order. -/
def switchSignals (tbl : List (Nat × Bool × List (Bool × Nat))) (reopen : Bool) (op : Nat) : List Nat :=
  match tbl.find? (fun r => r.1 == op && (!r.2.1 || reopen)) with
  | some r => (r.2.2.filter (fun g => !g.1 || reopen)).map (·.2)
  | none => []

/-- non-blocking sends on the channels named by `sig` (0 = `eventWrite`, otherwise `eventDelete`), in order -/
def applySignals (cfg : NCfg) (s : NSt β) (sig : List Nat) : NSt β :=
  sig.foldl (fun s c => if c = 0 then { s with pw := sendNB cfg.capW s.pw } else { s with pd := sendNB cfg.capD s.pd }) s

/-- bits of `fsnotify.Op` -/
def opCreate : Nat := 1
def opWrite : Nat := 2
def opRemove : Nat := 4
def opRename : Nat := 8
def opChmod : Nat := 16

end Rare.Follow
