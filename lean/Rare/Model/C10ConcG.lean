import Rare.Model.C10Conc
/-!
# One pool, many workers, each with its OWN stage, values and context (C10, round 4c)

`Model/C10Conc.lean` part 1 generalised: the object a worker checks out is overwritten with the worker's context AND
the argument stages it answers indices with, and every worker evaluates its own body.  Instances:

* the call-site pool of a funcs-file function (`argsOf`, `bodyOf` constant: `lazySubContext{args, sub}`);
* the process-wide `subContextPool` of the binders (`@map`, `@filter`, `@reduce`, `@for`): all binder stages of all
  compiled expressions share it; a worker's object is `subContext{parent: ctxs w, vals: [a, b]}` – the lazy object
  with the two CONSTANT argument stages `[.ret a, .ret b]` (`withSub_eq_withArgs`) – and its body is the binder's inner
  stage.  (`*sub = subContext{parent: context}` followed by `sub.Eval`'s stores is one `install` action here; C17's
  heap model splits it further.)
-/
namespace Rare.C10.ConcG
open Rare.Expr Rare.C10
open Rare.C10.Conc (Pc resolve stepsLeft)

/-- The shared memory and the workers. -/
structure St where
  /-- `ObjectPool.pool` -/
  free : List Nat
  /-- objects allocated so far (`newer()` makes object `next`) -/
  next : Nat
  /-- the fields of every object: the wrapped context and the values / argument stages it answers indices with -/
  obj : Nat → Ctx × List Stage
  pcs : Nat → Pc

def St.setPc (st : St) (w : Nat) (pc : Pc) : St :=
  { st with pcs := fun v => if v = w then pc else st.pcs v }

/-- One atomic action of worker `w`, called with the context `ctxs w`.  `install = false` is the closure WITHOUT the
    line `subCtx.sub = kbc`. -/
def step (install : Bool) (argsOf : Nat → List Stage) (bodyOf : Nat → Stage) (ctxs : Nat → Ctx) (w : Nat) (st : St) : St :=
  match st.pcs w with
  | .idle =>
    match st.free.getLast? with
    | none => { st with next := st.next + 1 }.setPc w (.got st.next)
    | some o => { st with free := st.free.dropLast }.setPc w (.got o)
  | .got o =>
    (if install then { st with obj := fun p => if p = o then (ctxs w, argsOf w) else st.obj p } else st).setPc w (.run o (bodyOf w))
  | .run o c => st.setPc w (resolve (st.obj o).2 (st.obj o).1 o c)
  | .fin o r => { st with free := st.free ++ [o] }.setPc w (.done r)
  | .done _ => st

/-- A schedule: which worker acts next. -/
def exec (install : Bool) (argsOf : Nat → List Stage) (bodyOf : Nat → Stage) (ctxs : Nat → Ctx) (sched : List Nat) (st : St) : St :=
  sched.foldl (fun s w => step install argsOf bodyOf ctxs w s) st

/-- A start: nobody has begun, the pool holds distinct allocated objects with whatever `sub` fields. -/
structure Start (st : St) : Prop where
  idle : ∀ w, st.pcs w = .idle
  nodup : st.free.Nodup
  lt : ∀ o ∈ st.free, o < st.next

/-- What holds after every schedule. -/
structure Inv (argsOf : Nat → List Stage) (bodyOf : Nat → Stage) (ctxs : Nat → Ctx) (st : St) : Prop where
  nodup : st.free.Nodup
  lt : ∀ o ∈ st.free, o < st.next
  /-- a checked-out object is allocated and NOT in the free list … -/
  held : ∀ w o, (st.pcs w).holds = some o → o < st.next ∧ o ∉ st.free
  /-- … and checked out by nobody else -/
  excl : ∀ w w' o, (st.pcs w).holds = some o → (st.pcs w').holds = some o → w = w'
  /-- the object a worker evaluates against carries ITS context, and what is left of the body answers what the whole
      body answers in the stateless model -/
  run : ∀ w o c, st.pcs w = .run o c →
    st.obj o = (ctxs w, argsOf w) ∧ (withArgs (argsOf w) c).run (ctxs w) = (withArgs (argsOf w) (bodyOf w)).run (ctxs w)
  fin : ∀ w o r, st.pcs w = .fin o r → r = (withArgs (argsOf w) (bodyOf w)).run (ctxs w)
  done : ∀ w r, st.pcs w = .done r → r = (withArgs (argsOf w) (bodyOf w)).run (ctxs w)

end Rare.C10.ConcG
