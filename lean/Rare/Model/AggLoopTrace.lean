import Rare.Model.AggLoop
import Rare.Model.C01C05TraceOrder
/-!
# Trace inclusion for the aggregation loop (C05)

The event log of a REAL run of `helpers.RunAggregationLoop` (hooks `verifTrace`, build tag `verif`; the
harness' aggregator and render callback log `sa` / `rb` / `rn` themselves) is checked to be a path of the
transition system `Rare.AggLoop.Step` (Model/AggLoop.lean) from `init stream` to `main = finished`.

* `Label` / `apply`: the transition system with its transitions named (`apply` is exactly `Step`:
  `apply_sound`, `apply_complete` in Proofs/AggLoopTrace.lean).
* `evLabels`: the transitions a logged event stands for.  The environment transitions (`arrive`: the
  extractor puts a batch into `readChan`; `close`: it closes the channel) are not logged on this side —
  the pipeline machine of C01 checks that half of the same log — and are inserted just in time before
  the receive / end-of-stream that observes them.  `stream` is the sequence of batches main received,
  each identified by the keys it then sampled.
* Events that are not transitions (`md mt mf rb rn`) are stuttering steps with a guard; `rb` carries
  what the render displayed: the sum of the displayed counts must be the number of samples of the model's
  aggregator at that point, and must not exceed the extractor's matched total read inside the render.
  A periodic or final `writeOutput()` that did not call the render callback is rejected (`cb`).

Event codes: `mr n` main received a batch of n matches · `ml` main holds the mutex · `sa key` Sample(key) ·
`mu` main about to unlock · `me` main saw the closed channel · `md` about to send on outputDone · `td` ticker
received outputDone · `mt` that send returned · `mf`/`mg` final writeOutput begins/ended · `tt` ticker timer
fired · `tl` ticker holds the mutex · `tr` ticker's writeOutput returned, about to unlock · `rb m d`/`rn`
render callback begins (matched total m, displayed sum d) / ends · `ms` interrupt signal (not modelled).
-/
namespace Rare.AggLoop

inductive Label
  | arrive | close | recv | mlock | sample | munlock | eof | handshake | final | fire | tlock | tunlock
  deriving Repr, DecidableEq

/-- The transition system as a deterministic function of the transition's name. -/
def apply {κ : Type} (s : St κ) : Label → Option (St κ)
  | .arrive =>
    match s.future with
    | b :: rest => some { s with future := rest, rc := s.rc ++ [b] }
    | [] => none
  | .close =>
    match s.future with
    | [] => if s.rcClosed = false then some { s with rcClosed := true } else none
    | _ => none
  | .recv =>
    match s.main, s.rc with
    | .loop, b :: rest => some { s with main := .wantLock b, rc := rest, received := s.received ++ b }
    | _, _ => none
  | .mlock =>
    match s.main, s.mutex with
    | .wantLock b, .none => some { s with main := .sampling b, mutex := .main }
    | _, _ => none
  | .sample =>
    match s.main with
    | .sampling (x :: xs) => some { s with main := .sampling xs, sampled := s.sampled ++ [x] }
    | _ => none
  | .munlock =>
    match s.main with
    | .sampling [] => some { s with main := .loop, mutex := .none }
    | _ => none
  | .eof =>
    match s.main, s.rc with
    | .loop, [] => if s.rcClosed = true then some { s with main := .sendDone } else none
    | _, _ => none
  | .handshake =>
    match s.main, s.ticker with
    | .sendDone, .idle => some { s with main := .finalRender, ticker := .stopped }
    | _, _ => none
  | .final =>
    match s.main with
    | .finalRender => some { s with main := .finished, renders := s.renders ++ [s.sampled] }
    | _ => none
  | .fire =>
    match s.ticker with
    | .idle => some { s with ticker := .wantLock }
    | _ => none
  | .tlock =>
    match s.ticker, s.mutex with
    | .wantLock, .none => some { s with ticker := .rendering, mutex := .ticker, snap := s.sampled }
    | _, _ => none
  | .tunlock =>
    match s.ticker with
    | .rendering => some { s with ticker := .idle, mutex := .none, renders := s.renders ++ [s.sampled] }
    | _ => none

def applyAll {κ : Type} : St κ → List Label → Option (St κ)
  | s, [] => some s
  | s, l :: ls => (apply s l).bind fun s' => applyAll s' ls

inductive LPath {κ : Type} : St κ → List Label → St κ → Prop
  | nil (s) : LPath s [] s
  | cons {s s' s'' l ls} : apply s l = some s' → LPath s' ls s'' → LPath s (l :: ls) s''

end Rare.AggLoop

namespace Rare.AggLoopTrace
open Rare.AggLoop Rare.TraceOrder

structure ASt where
  lts : St Bytes
  /-- the render callback ran inside the current `writeOutput()` -/
  cb : Bool

def aggKinds : List String :=
  ["mr", "ml", "sa", "mu", "me", "md", "td", "mt", "mf", "mg", "tt", "tl", "tr", "rb", "rn", "ms"]

/-- The batches main received, each identified by the keys sampled after it (log order of main). -/
def streamOf : List Ev → List (List Bytes)
  | [] => []
  | e :: r =>
    if e.kind = "mr" then
      ((r.filter fun x => x.kind = "sa" ∨ x.kind = "mr" ∨ x.kind = "me").takeWhile fun x => x.kind = "sa").map (·.key)
        :: streamOf r
    else streamOf r

def mainIs (s : St Bytes) (p : Main Bytes → Bool) : Bool := p s.main

def inRender (s : St Bytes) : Bool :=
  (match s.ticker with | .rendering => true | _ => false) || (match s.main with | .finalRender => true | _ => false)

/-- The transitions event `e` stands for in state `s` (`none`: the event is impossible here). -/
def evLabels (as : ASt) (e : Ev) : Option (List Label) :=
  let s := as.lts
  match e.kind with
  | "mr" =>
    match s.future with
    | b :: _ => if b.length == e.a then some [.arrive, .recv] else none
    | [] => none
  | "ml" => some [.mlock]
  | "sa" =>
    match s.main with
    | .sampling (x :: _) => if x == e.key then some [.sample] else none
    | _ => none
  | "mu" => some [.munlock]
  | "me" => some [.close, .eof]
  | "md" => (match s.main with | .sendDone => some [] | _ => none)
  | "td" => some [.handshake]
  | "mt" => (match s.main with | .finalRender => some [] | _ => none)
  | "mf" => (match s.main with | .finalRender => some [] | _ => none)
  | "mg" => if as.cb then some [.final] else none
  | "tt" => some [.fire]
  | "tl" => some [.tlock]
  | "tr" => if as.cb then some [.tunlock] else none
  | "rb" => if inRender s && e.b == s.sampled.length && decide (e.b ≤ e.a) then some [] else none
  | "rn" => if inRender s then some [] else none
  | _ => none

def astep (as : ASt) (e : Ev) : Option ASt :=
  match evLabels as e with
  | none => none
  | some ls =>
    match applyAll as.lts ls with
    | none => none
    | some s' =>
      let cb := if e.kind = "tl" ∨ e.kind = "mf" ∨ e.kind = "tr" ∨ e.kind = "mg" then false
                else if e.kind = "rn" then true else as.cb
      some { lts := s', cb := cb }

def isFinished : Main Bytes → Bool
  | .finished => true
  | _ => false

def machine : Machine ASt := { step := astep, final := fun as => isFinished as.lts.main }

def initSt (stream : List (List Bytes)) : ASt := { lts := init stream, cb := false }

/-- No send into a multi-sender channel on this side: nothing to choose. -/
def lin : Lin ASt := { isChoice := fun _ => false, rank := fun _ _ p => some p.1 }

/-! ### A small log for the non-vacuity examples of Props/C05 (goroutine 0 = main, 1 = ticker) -/

def exampleLog : List Ev :=
  let mk (g : Nat) (k : String) (a b : Nat) (key : Bytes) : Ev := ⟨g, k, noSrc, a, b, key⟩
  [mk 0 "mr" 2 0 [], mk 0 "ml" 0 0 [], mk 1 "tt" 0 0 [], mk 0 "sa" 0 0 [97], mk 0 "sa" 0 0 [98], mk 0 "mu" 0 0 [],
   mk 1 "tl" 0 0 [], mk 1 "rb" 2 2 [], mk 1 "rn" 0 0 [], mk 1 "tr" 0 0 [], mk 0 "me" 0 0 [], mk 0 "md" 0 0 [],
   mk 0 "mt" 0 0 [], mk 0 "mf" 0 0 [], mk 0 "rb" 2 2 [], mk 0 "rn" 0 0 [], mk 0 "mg" 0 0 [], mk 1 "td" 0 0 []]

end Rare.AggLoopTrace
