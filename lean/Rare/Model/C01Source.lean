/-!
The statements, constants and tables of the source that the C01 models of classification
(`Model/C01Classify.lean`), of the summary line (`Model/C01Summary.lean`) and of the command-line plumbing
(`Model/C01Flags.lean`) were written against, as literal data.  `harness/extract/c01.go` regenerates the same
definitions from /repo on every run (`Rare.Gen.C01`); `Props/C01.lean` proves them equal, so a changed
statement, condition, constant, default, argument order or format string in /repo breaks a proof obligation.

Reading guide (token -> model):
* `stmts_processLineSync`: the four context assignments (`linePtr`, `indices`, `source`, `lineNum`) come BEFORE
  `s.ignore.IgnoreMatch(expContext)`, which comes before `s.keyBuilder.BuildKey(expContext)` = `ctxOf` /
  `processLine`: ignore first, on the line's own context; the key only when not ignored; `len(extractedKey)>0`
  = matched, else ignored; `len(matches)>0` false = unmatched.
* `stmts_ignoreMatch`: `ignoreMatch` / `ignoreLoop` (empty set = false; first truthy result returns).
* `stmts_truthy`: `Truthy(s) = strings.TrimSpace(s) != ""` (`Model/C01Trim.lean`).
* `stmts_buildBatcherFromArguments`, `flagReads`, `constructorCalls`, `params_*`, `uses_*`: `configure`.
* `stmts_getWorkerCount`, `workersBound`, `workersFallback`: `getWorkerCount`.
* `stmts_fWrite*Summary`, `lits_*`, `color*`, `stmts_hui`, `stmts_humanizeInt`, `huiSmall`, `huiGroup`,
  `baseSeparator`, `stmts_colorWrap*`: `extractorSummary`, `matchSummary`, `hui`, `huiLoop`, `wrap`.
* `stmts_filterFunction`: `filterLoop`, `filterSummary`.
-/
namespace Rare.C01.Source

/-- statements of `extractorInstance.processLineSync` (pkg/extractor/extractor.go), source order -/
def stmts_processLineSync : List String := ["do:atomic.AddUint64(&s.readLines,1)", "stmt:matches:=s.matcher.FindSubmatchIndex(line)", "if:len(matches)==0{", "}", "if:len(matches)>0{", "stmt:lineStringPtr:=*(*string)(unsafe.Pointer(&line))", "stmt:expContext:=s.context", "stmt:expContext.linePtr=lineStringPtr", "stmt:expContext.indices=matches", "stmt:expContext.source=source", "stmt:expContext.lineNum=lineNum", "if:s.ignore==nil||!s.ignore.IgnoreMatch(expContext){", "stmt:extractedKey:=s.keyBuilder.BuildKey(expContext)", "if:len(extractedKey)>0{", "do:atomic.AddUint64(&s.matchedLines,1)", "return:Match{bLine:line,Line:lineStringPtr,Indices:matches,Extracted:extractedKey,LineNumber:lineNum,Source:source,},true", "}", "do:atomic.AddUint64(&s.ignoredLines,1)", "}else{", "do:atomic.AddUint64(&s.ignoredLines,1)", "}", "}", "return:Match{},false"]

/-- statements of `Config.getWorkerCount` (pkg/extractor/extractor.go), source order -/
def stmts_getWorkerCount : List String := ["if:s.Workers<=0{", "return:2", "}", "return:s.Workers"]

/-- statements of `ExpressionIgnoreSet.IgnoreMatch` (pkg/extractor/ignoreset.go), source order -/
def stmts_ignoreMatch : List String := ["if:len(s.expressions)==0{", "return:false", "}", "range:s.expressions{", "stmt:result:=exp.BuildKey(context)", "if:expressions.Truthy(result){", "return:true", "}", "}", "return:false"]

/-- statements of `NewIgnoreExpressions` (pkg/extractor/ignoreset.go), source order -/
def stmts_newIgnoreExpressions : List String := ["if:expSet==nil{", "return:nil,nil", "}", "stmt:igSet:=&ExpressionIgnoreSet{expressions:make([]*expressions.CompiledKeyBuilder,0),}", "range:expSet{", "stmt:compiled,err:=funclib.NewKeyBuilder().Compile(exp)", "if:err!=nil{", "return:nil,err", "}", "stmt:igSet.expressions=append(igSet.expressions,compiled)", "}", "return:igSet,nil"]

/-- statements of `Truthy` (pkg/expressions/truthy.go), source order -/
def stmts_truthy : List String := ["return:strings.TrimSpace(s)!=FalsyVal"]

/-- statements of `BuildBatcherFromArguments` (cmd/helpers/extractorBuilder.go), source order -/
def stmts_buildBatcherFromArguments : List String := ["stmt:var(follow=c.Bool(\"follow\")||c.Bool(\"reopen\")followTail=c.Bool(\"tail\")followReopen=c.Bool(\"reopen\")followPoll=c.Bool(\"poll\")concurrentReaders=c.Int(\"readers\")gunzip=c.Bool(\"gunzip\")batchSize=c.Int(\"batch\")batchBuffer=c.Int(\"batch-buffer\")recursive=c.Bool(\"recursive\"))", "if:batchSize<1{", "do:logger.Fatalf(ExitCodeInvalidUsage,\"Batchsizemustbe>=1,is%d\",batchSize)", "}", "if:batchBuffer<0{", "do:logger.Fatalf(ExitCodeInvalidUsage,\"Batchbuffermustbe>=0,is%d\",batchBuffer)", "}", "if:concurrentReaders<1{", "do:logger.Fatalf(ExitCodeInvalidUsage,\"Musthaveatleast1reader\")", "}", "if:followPoll&&!follow{", "do:logger.Fatalf(ExitCodeInvalidUsage,\"Follow(-f)mustbeenabledfor--poll\")", "}", "if:followTail&&!follow{", "do:logger.Fatalf(ExitCodeInvalidUsage,\"Follow(-f)mustbeenabledfor--tail\")", "}", "stmt:fileglobs:=c.Args().Slice()", "if:len(fileglobs)==0||fileglobs[0]==\"-\"{", "if:gunzip{", "do:logger.Fatalln(ExitCodeInvalidUsage,\"Cannotdecompress(-z)withstdin\")", "}", "if:follow{", "do:logger.Println(\"Cannotfollowastdinstream,notafile\")", "}", "return:batchers.OpenReaderToChan(\"<stdin>\",os.Stdin,batchSize,batchBuffer)", "}else{", "if:follow{", "if:gunzip{", "do:logger.Println(\"Cannotcombine-fand-z\")", "}", "return:batchers.TailFilesToChan(dirwalk.GlobExpand(fileglobs,recursive),batchSize,batchBuffer,followReopen,followPoll,followTail)", "}else{", "return:batchers.OpenFilesToChan(dirwalk.GlobExpand(fileglobs,recursive),gunzip,concurrentReaders,batchSize,batchBuffer)", "}", "}"]

/-- statements of `BuildExtractorFromArgumentsEx` (cmd/helpers/extractorBuilder.go), source order -/
def stmts_buildExtractorFromArgumentsEx : List String := ["stmt:config:=extractor.Config{Extract:strings.Join(c.StringSlice(\"extract\"),sep),Workers:c.Int(\"workers\"),}", "stmt:matcher,err:=BuildMatcherFromArguments(c)", "if:err!=nil{", "do:logger.Fatalln(ExitCodeInvalidUsage,err)", "}", "stmt:config.Matcher=matcher", "stmt:ignoreSlice:=c.StringSlice(\"ignore\")", "if:len(ignoreSlice)>0{", "stmt:ignoreExp,err:=extractor.NewIgnoreExpressions(ignoreSlice...)", "if:err!=nil{", "do:logger.Fatalln(ExitCodeInvalidUsage,err)", "}", "stmt:config.Ignore=ignoreExp", "}", "stmt:ret,err:=extractor.New(batcher.BatchChan(),&config)", "if:err!=nil{", "do:logger.Fatalln(ExitCodeInvalidUsage,err)", "}", "return:ret"]

/-- statements of `newBatcher` (pkg/extractor/batchers/batcher.go), source order -/
def stmts_newBatcher : List String := ["return:&Batcher{c:make(chanextractor.InputBatch,bufferSize),lastRateUpdate:time.Now(),}"]

/-- statements of `FWriteMatchSummary` (cmd/helpers/summary.go), source order -/
def stmts_fWriteMatchSummary : List String := ["do:fmt.Fprintf(w,\"Matched:%s/%s\",color.Wrapi(color.BrightGreen,humanize.Hui(matched)),color.Wrapi(color.BrightWhite,humanize.Hui(total)))"]

/-- statements of `FWriteExtractorSummary` (cmd/helpers/summary.go), source order -/
def stmts_fWriteExtractorSummary : List String := ["stmt:varwbytes.Buffer", "do:FWriteMatchSummary(&w,extractor.MatchedLines(),extractor.ReadLines())", "range:additionalParts{", "do:w.WriteRune('')", "do:w.WriteString(p)", "}", "if:extractor.IgnoredLines()>0{", "do:fmt.Fprintf(&w,\"(Ignored:%s)\",color.Wrapi(color.Red,humanize.Hui(extractor.IgnoredLines())))", "}", "if:errors>0{", "do:fmt.Fprintf(&w,\"%s\",color.Wrapf(color.Red,\"(Errors:%v)\",humanize.Hui(errors)))", "}", "return:w.String()"]

/-- statements of `WriteExtractorSummary` (cmd/helpers/summary.go), source order -/
def stmts_writeExtractorSummary : List String := ["do:os.Stderr.WriteString(FWriteExtractorSummary(extractor,0))", "do:os.Stderr.WriteString(\"\\n\")"]

/-- statements of `Hui` (pkg/humanize/humanize.go), source order -/
def stmts_hui : List String := ["if:!Enabled{", "return:strconv.FormatUint(arg,10)", "}", "return:humanizeInt(arg)"]

/-- statements of `humanizeInt` (pkg/humanize/numeric.go), source order -/
def stmts_humanizeInt : List String := ["stmt:varbuf[32]byte//stackalloc", "if:v>=0&&v<100{", "return:strconv.FormatInt(int64(v),10)", "}", "stmt:negative:=v<0", "stmt:ci:=0", "stmt:idx:=len(buf)-1", "for:v!=0{", "if:ci==3{", "stmt:buf[idx]=baseSeparator", "stmt:ci=0", "stmt:idx--", "}", "stmt:digit:=v%10", "if:digit<0{", "stmt:digit=-digit", "}", "stmt:buf[idx]=byte('0'+digit)", "stmt:idx--", "stmt:ci++", "stmt:v/=10", "}", "if:negative{", "stmt:buf[idx]='-'", "stmt:idx--", "}", "return:string(buf[idx+1:])"]

/-- statements of `Wrap` (pkg/color/coloring.go), source order -/
def stmts_colorWrap : List String := ["if:!Enabled{", "return:s", "}", "stmt:varsbstrings.Builder", "do:sb.Grow(len(s)+8)", "do:sb.WriteString(string(color))", "do:sb.WriteString(s)", "if:len(s)<len(Reset)||s[len(s)-len(Reset):]!=string(Reset){", "do:sb.WriteString(string(Reset))", "}", "return:sb.String()"]

/-- statements of `Wrapi` (pkg/color/coloring.go), source order -/
def stmts_colorWrapi : List String := ["return:Wrap(color,fmt.Sprintf(\"%v\",s))"]

/-- statements of `Wrapf` (pkg/color/coloring.go), source order -/
def stmts_colorWrapf : List String := ["return:Wrap(color,fmt.Sprintf(s,args...))"]

/-- statements of `filterFunction` (cmd/filter.go), source order -/
def stmts_filterFunction : List String := ["stmt:var(writeLines=c.Bool(\"line\")customExtractor=c.IsSet(\"extract\")numLineLimit=uint64(c.Int64(\"num\"))readLines=uint64(0))", "stmt:batcher:=helpers.BuildBatcherFromArguments(c)", "stmt:extractor:=helpers.BuildExtractorFromArgumentsEx(c,batcher,\"\\t\")", "stmt:readChan:=extractor.ReadChan()", "stmt:OUTER_LOOP:for{matchBatch,more:=<-readChanif!more{break}for_,match:=rangematchBatch{ifwriteLines{fmt.Printf(\"%s%s:\",color.Wrap(color.BrightGreen,match.Source),color.Wrapi(color.BrightYellow,match.LineNumber))}if!customExtractor{iflen(match.Indices)==2{fmt.Println(color.WrapIndices(match.Line,match.Indices))}else{fmt.Println(color.WrapIndices(match.Line,match.Indices[2:]))}}else{fmt.Println(match.Extracted)}readLines++ifnumLineLimit>0&&readLines>=numLineLimit{breakOUTER_LOOP}}}", "if:numLineLimit>0{", "do:helpers.FWriteMatchSummary(os.Stderr,readLines,numLineLimit)", "do:os.Stderr.WriteString(\"\\n\")", "}else{", "do:helpers.WriteExtractorSummary(extractor)", "}", "return:helpers.DetermineErrorState(batcher,extractor,nil)"]

/-- `var ( name = c.Kind("flag") … )` of BuildBatcherFromArguments -/
def flagReads : List (String × List String) := [("follow", ["c.Bool:follow", "c.Bool:reopen"]),
  ("followTail", ["c.Bool:tail"]),
  ("followReopen", ["c.Bool:reopen"]),
  ("followPoll", ["c.Bool:poll"]),
  ("concurrentReaders", ["c.Int:readers"]),
  ("gunzip", ["c.Bool:gunzip"]),
  ("batchSize", ["c.Int:batch"]),
  ("batchBuffer", ["c.Int:batch-buffer"]),
  ("recursive", ["c.Bool:recursive"])]

/-- numeric usage guards of BuildBatcherFromArguments: (variable, comparison, bound, exit code, message), source order -/
def usageGuards : List (String × String × Int × String × String) := [("batchSize", "<", 1, "ExitCodeInvalidUsage", "Batch size must be >= 1, is %d"),
  ("batchBuffer", "<", 0, "ExitCodeInvalidUsage", "Batch buffer must be >= 0, is %d"),
  ("concurrentReaders", "<", 1, "ExitCodeInvalidUsage", "Must have at least 1 reader")]

/-- the batcher constructor calls of BuildBatcherFromArguments (stdin, follow, files) with their arguments -/
def constructorCalls : List (String × List String) := [("batchers.OpenReaderToChan", ["\"<stdin>\"", "os.Stdin", "batchSize", "batchBuffer"]),
  ("batchers.TailFilesToChan", ["dirwalk.GlobExpand(fileglobs,recursive)", "batchSize", "batchBuffer", "followReopen", "followPoll", "followTail"]),
  ("batchers.OpenFilesToChan", ["dirwalk.GlobExpand(fileglobs,recursive)", "gunzip", "concurrentReaders", "batchSize", "batchBuffer"])]

/-- parameters of `OpenFilesToChan` -/
def params_openFilesToChan : List String := ["filenames:<-chanstring", "gunzip:bool", "concurrency:int", "batchSize:int", "batchBuffer:int"]

/-- parameters of `OpenReaderToChan` -/
def params_openReaderToChan : List String := ["sourceName:string", "reader:io.ReadCloser", "batchSize:int", "batchBuffer:int"]

/-- parameters of `TailFilesToChan` -/
def params_tailFilesToChan : List String := ["filenames:<-chanstring", "batchSize:int", "batchBuffer:int", "reopen:bool", "poll:bool", "tail:bool"]

/-- parameters of `newBatcher` -/
def params_newBatcher : List String := ["bufferSize:int"]

/-- parameters of `Batcher.syncReaderToBatcher` -/
def params_syncReaderToBatcher : List String := ["sourceName:string", "reader:io.Reader", "batchSize:int"]

/-- parameters of `Batcher.syncReaderToBatcherWithTimeFlush` -/
def params_syncReaderToBatcherWithTimeFlush : List String := ["sourceName:string", "reader:io.Reader", "batchSize:int", "autoFlush:time.Duration"]

/-- `make`, `newBatcher` and batching-loop calls inside `OpenFilesToChan` -/
def uses_openFilesToChan : List String := ["newBatcher(batchBuffer)", "make(chanstruct{},concurrency)", "out.syncReaderToBatcher(goFilename,file,batchSize)"]

/-- `make`, `newBatcher` and batching-loop calls inside `OpenReaderToChan` -/
def uses_openReaderToChan : List String := ["newBatcher(batchBuffer)", "out.syncReaderToBatcherWithTimeFlush(sourceName,reader,batchSize,AutoFlushTimeout)"]

/-- `make`, `newBatcher` and batching-loop calls inside `newBatcher` -/
def uses_newBatcher : List String := ["make(chanextractor.InputBatch,bufferSize)"]

/-- `make`, `newBatcher` and batching-loop calls inside `Batcher.syncReaderToBatcher` -/
def uses_syncReaderToBatcher : List String := ["make([]extractor.BString,0,batchSize)", "make([]extractor.BString,0,batchSize)"]

/-- `make`, `newBatcher` and batching-loop calls inside `Batcher.syncReaderToBatcherWithTimeFlush` -/
def uses_syncReaderToBatcherWithTimeFlush : List String := ["make([]extractor.BString,0,batchSize)", "make([]extractor.BString,0,batchSize)"]

/-- `make`, `newBatcher` and batching-loop calls inside `New` -/
def uses_extractorNew : List String := ["make(chan[]Match,5)"]

/-- flags of getExtractorFlags: (name, type, aliases, default expression) -/
def extractorFlags : List (String × String × String × String) := [("follow", "cli.BoolFlag", "[]string{\"f\"}", ""),
  ("reopen", "cli.BoolFlag", "[]string{\"F\"}", ""),
  ("poll", "cli.BoolFlag", "", ""),
  ("tail", "cli.BoolFlag", "[]string{\"t\"}", ""),
  ("gunzip", "cli.BoolFlag", "[]string{\"z\"}", ""),
  ("recursive", "cli.BoolFlag", "[]string{\"R\"}", ""),
  ("posix", "cli.BoolFlag", "[]string{\"p\"}", ""),
  ("match", "cli.StringFlag", "[]string{\"m\"}", "\".*\""),
  ("dissect", "cli.StringFlag", "[]string{\"d\"}", ""),
  ("extract", "cli.StringSliceFlag", "[]string{\"e\"}", "cli.NewStringSlice(\"{0}\")"),
  ("ignore", "cli.StringSliceFlag", "[]string{\"i\"}", ""),
  ("ignore-case", "cli.BoolFlag", "[]string{\"I\"}", ""),
  ("batch", "cli.IntFlag", "", "1000"),
  ("batch-buffer", "cli.IntFlag", "", "workerCount*2"),
  ("workers", "cli.IntFlag", "[]string{\"w\"}", "workerCount"),
  ("readers", "cli.IntFlag", "[]string{\"wr\"}", "3")]

/-- `workerCount :=` of getExtractorFlags -/
def workerCountExpr : String := "runtime.NumCPU()/2+1"

/-- `ExitCodeInvalidUsage` -/
def exitCodeInvalidUsage : Int := 2

/-- `ExitCodeNoData` -/
def exitCodeNoData : Int := 1

/-- `getWorkerCount`: `if s.Workers <= workersBound { return workersFallback }; return s.Workers` -/
def workersBound : Int := 0
def workersFallback : Int := 2

/-- string literals, colours and number formatters of `FWriteMatchSummary`, source order -/
def lits_fWriteMatchSummary : List String := ["Matched: %s / %s", "color.Wrapi", "color.BrightGreen", "humanize.Hui", "color.Wrapi", "color.BrightWhite", "humanize.Hui"]

/-- string literals, colours and number formatters of `FWriteExtractorSummary`, source order -/
def lits_fWriteExtractorSummary : List String := [" ", " (Ignored: %s)", "color.Wrapi", "color.Red", "humanize.Hui", " %s", "color.Wrapf", "color.Red", "(Errors: %v)", "humanize.Hui"]

/-- `color.Reset` -/
def colorReset : List UInt8 := [27, 91, 48, 109]

/-- `color.BrightGreen` -/
def colorBrightGreen : List UInt8 := [27, 91, 51, 50, 59, 49, 109]

/-- `color.BrightWhite` -/
def colorBrightWhite : List UInt8 := [27, 91, 51, 55, 59, 49, 109]

/-- `color.Red` -/
def colorRed : List UInt8 := [27, 91, 51, 49, 109]

/-- `baseSeparator` of pkg/humanize -/
def baseSeparator : Int := 44

/-- `humanizeInt`: values below `huiSmall` take the FormatInt shortcut; a separator after every `huiGroup` digits -/
def huiSmall : Nat := 100
def huiGroup : Nat := 3

/-! round 4b: the exit code and the read path (Model/C01Chunk.lean) -/

/-- statements of `DetermineErrorState` (cmd/helpers/exitCodes.go), source order -/
def stmts_determineErrorState : List String := ["if:b.ReadErrors()>0{", "return:cli.Exit(\"Readerrors\",ExitCodeInvalidUsage)", "}", "if:agg!=nil&&agg.ParseErrors()>0{", "return:cli.Exit(\"Parseerrors\",ExitCodeInvalidUsage)", "}", "if:e.MatchedLines()==0{", "return:cli.Exit(\"\",ExitCodeNoData)", "}", "return:nil"]

/-- how `Batcher.syncReaderToBatcher` reads its source: reader wrapper, scanner constructor, error callback, scan calls (source order) -/
def scanner_syncReaderToBatcher : List String := ["newReaderMetrics(reader)", "readahead.NewImmediate(readerMetrics,ReadAheadBufferSize)", "OnError{", "do:s.incErrors()", "do:logger.Printf(\"Errorreading%s:%v\",sourceName,e)", "}", "readahead.Scan()", "readahead.Bytes()"]

/-- how `Batcher.syncReaderToBatcherWithTimeFlush` reads its source: reader wrapper, scanner constructor, error callback, scan calls (source order) -/
def scanner_syncReaderToBatcherWithTimeFlush : List String := ["newReaderMetrics(reader)", "readahead.NewImmediate(readerMetrics,ReadAheadBufferSize)", "OnError{", "do:s.incErrors()", "do:logger.Printf(\"Errorreading%s:%v\",sourceName,e)", "}", "readahead.Scan()", "readahead.Bytes()"]

/-- `OpenFilesToChan`: opening a file and the branch taken when that fails -/
def openError_openFilesToChan : List String := ["file,err:=openFileToReader(goFilename,gunzip)", "if err!=nil{", "do:logger.Printf(\"Erroropeningfile%s:%v\",goFilename,err)", "do:out.incErrors()", "return:", "}"]

/-- `Extractor.asyncWorker` (pkg/extractor/extractor.go): one context per worker; receive until the batch channel is
    closed; every line of the batch through `processLineSync(batch.Source, batch.BatchStart + idx, str)` in order;
    the matches of ONE input batch collected in order and sent as one batch on `readChan` iff there is at least
    one; nothing else happens between two batches (no per-worker tallies to publish: the counters are updated in
    `processLineSync`, line by line). -/
def stmts_asyncWorker : List String := ["defer:wg.Done()", "stmt:matcher:=s.matcherFactory.CreateInstance()", "stmt:si:=extractorInstance{Extractor:s,matcher:matcher,context:&SliceSpaceExpressionContext{nameTable:matcher.SubexpNameTable(),},}", "for:{", "stmt:batch,more:=<-inputBatch", "if:!more{", "stmt:break", "}", "stmt:varmatchBatch[]Match", "range:batch.Batch{", "if:match,ok:=si.processLineSync(batch.Source,batch.BatchStart+uint64(idx),str);ok{", "if:matchBatch==nil{", "stmt:matchBatch=make([]Match,0,len(batch.Batch))", "}", "stmt:matchBatch=append(matchBatch,match)", "}", "}", "if:len(matchBatch)>0{", "send:s.readChan<-matchBatch", "}", "}"]

/-- `extractor.New`: `readChan` of capacity 5 (the model's `K`), `getWorkerCount()` workers on the SAME input channel,
    `close(readChan)` after all workers are done. -/
def stmts_extractorNew : List String := ["stmt:compiledExpression,compErr:=funclib.NewKeyBuilder().Compile(config.Extract)", "if:compErr!=nil{", "return:nil,compErr", "}", "stmt:extractor:=Extractor{readChan:make(chan[]Match,5),matcherFactory:config.Matcher,keyBuilder:compiledExpression,config:*config,ignore:config.Ignore,}", "stmt:varwgsync.WaitGroup", "for:i<config.getWorkerCount(){", "do:wg.Add(1)", "go:extractor.asyncWorker(&wg,inputBatch)", "}", "go{", "do:wg.Wait()", "do:close(extractor.readChan)", "}", "return:&extractor,nil"]

end Rare.C01.Source
