import Rare.Base.Bytes
/-!
Model of the two batching loops of `pkg/extractor/batchers/batcher.go`
(`syncReaderToBatcher`, `syncReaderToBatcherWithTimeFlush`).

The scanned lines arrive one by one.  After appending a line the loop flushes when
`len(batch) >= batchSize` or — timed variant only — when the flush timer has expired; the
timer is an oracle: one Boolean per line (`true` = "time.Since(lastBatchFlush) >= autoFlush" held
when that line was appended).  `syncReaderToBatcher` is the all-`false` oracle.
After the last line a non-empty remainder is flushed.
-/
namespace Rare.Batcher

structure Batch (α : Type) where
  lines : List α
  start : Nat          -- BatchStart
  deriving Repr

structure LoopSt (α : Type) where
  out : List (Batch α)     -- batches sent so far, in order
  cur : List α             -- batch under construction
  start : Nat              -- batchStart

def step {α : Type} (batchSize : Nat) (s : LoopSt α) (x : α × Bool) : LoopSt α :=
  let cur := s.cur ++ [x.1]
  if cur.length ≥ batchSize || x.2 then
    { out := s.out ++ [⟨cur, s.start⟩], cur := [], start := s.start + cur.length }
  else { s with cur := cur }

def finish {α : Type} (s : LoopSt α) : List (Batch α) :=
  if s.cur.length > 0 then s.out ++ [⟨s.cur, s.start⟩] else s.out

/-- All batches sent for a stream of lines paired with the flush oracle's answers. -/
def run {α : Type} (batchSize : Nat) (ls : List (α × Bool)) : List (Batch α) :=
  finish (ls.foldl (step batchSize) ⟨[], [], 1⟩)

/-- The line number the extractor attaches to the `idx`-th line of a batch. -/
def lineNumbers {α : Type} (b : Batch α) : List (α × Nat) := b.lines.zipIdx b.start

end Rare.Batcher
