import Rare.Model.Expr.Build
import Rare.Model.C18
/-!
`funcsTime.go` as builders of the shared expression model: `time`, `timeformat`, `timeattr`, `buckettime`,
`duration`, `durationformat`, relative to a **time world** (`TimeWorld`).

rare's own code is mirrored branch by branch (argument counts and the order of the checks, which
arguments must be constants and what a non-constant one silently becomes, the `now` / `live` / `delta`
key words, `auto` / `cache` / explicit formats, the marker of every failure).  The part of Go's `time`
package underneath is the reference of `Rare/Model/C18.lean` (layout tokenizer, formatter, parser,
durations, proleptic calendar), plus – here – the zone resolution of `time.Date` and of
`time.ParseInLocation` (`Location.lookupName`, the `GMT±h` fall-back), written against the world's
`lookup`.  What the model cannot know is a parameter:

* `loadOk` – whether `time.LoadLocation(name)` succeeds (`none`: the world does not say);
* `zones`, `lookup` – a `*time.Location`: its zone list and `Location.lookup(sec)`;
* `detect` – `dateparse.ParseFormat`, as the `cache` stage consults it (its cell is the world's: on the first
  evaluation of a stage the answer is `dateparse.ParseFormat(str)`);
* `parseAny` – `dateparse.ParseIn(str, loc)`: instant, nanoseconds, offset of the returned time's zone;
* `nowBuild`, `nowLive`, `nowDelta` – the wall clock (`time.Now()`), when the builder runs and when the stage runs;
* `lib` – where this model stops (`__2` day-of-year layouts in a parse, instants beyond Go's absolute
  time range, non-ASCII format / zone / attribute names, fractional durations …) the question is handed
  to the world; the only assumption of the panic-freedom theorem is that such a call returns.

Every oracle is a `Comp` so that the correspondence driver can answer from a finite table and decline
(`unmodelled …`) beside it.
-/
namespace Rare.Expr.Funcs.TimeW
open Rare Rare.Expr

/-- What `Location.lookup(sec)` returns (without `isDST`). -/
structure ZoneInfo where
  name : Bytes
  off : Int
  start : Int
  stop : Int
  deriving Repr

/-- `alpha` / `omega` of `zoneinfo.go`. -/
def alpha : Int := minInt64
def omega : Int := maxInt64

/-- `dateparse.ParseIn`: unix seconds, nanoseconds, offset of the returned time's zone. -/
structure AnyTime where
  unix : Int
  nsec : Int
  off : Int
  deriving Repr

structure TimeWorld where
  loadOk : Bytes → Option Bool
  zones : C18.Loc → List (Bytes × Int)
  lookup : C18.Loc → Int → Comp ZoneInfo
  detect : Bytes → Comp (Option Bytes)
  parseAny : C18.Loc → Bytes → Comp (Option AnyTime)
  nowBuild : Comp Bytes
  nowLive : Comp Bytes
  nowDelta : Comp Bytes
  lib : String → Comp Bytes

/-! ### zones -/

/-- `loc.lookup(sec)`; rare's `time.UTC` has no zones: `("UTC", 0, alpha, omega)`. -/
def lookupL (w : TimeWorld) (loc : C18.Loc) (sec : Int) : Comp ZoneInfo :=
  match loc with
  | .utc => .ret ⟨C18.asc "UTC", 0, alpha, omega⟩
  | _ => w.lookup loc sec

def zonesL (w : TimeWorld) (loc : C18.Loc) : List (Bytes × Int) :=
  match loc with
  | .utc => []
  | _ => w.zones loc

/-- First loop of `Location.lookupName`: a zone of that name that was in effect at the given time. -/
def lookupNameFirst (w : TimeWorld) (loc : C18.Loc) (name : Bytes) (unix : Int) : List (Bytes × Int) → Comp (Option Int)
  | [] => .ret none
  | (zn, zoff) :: rest =>
    if zn = name then do
      let z ← lookupL w loc (unix - zoff)
      if z.name = zn then pure (some z.off) else lookupNameFirst w loc name unix rest
    else lookupNameFirst w loc name unix rest

/-- `l.lookupName(name, unix)` -/
def lookupName (w : TimeWorld) (loc : C18.Loc) (name : Bytes) (unix : Int) : Comp (Option Int) := do
  let r ← lookupNameFirst w loc name unix (zonesL w loc)
  match r with
  | some off => pure (some off)
  | none =>
    -- "Otherwise fall back to an ordinary name match."
    match (zonesL w loc).find? (fun z => z.1 == name) with
    | some z => pure (some z.2)
    | none => pure none

/-- The zone resolution at the end of `time.Date(…, loc)`: `wall` = the wall clock as seconds since the
    epoch; answers the instant. -/
def dateResolve (w : TimeWorld) (loc : C18.Loc) (wall : Int) : Comp Int := do
  let z ← lookupL w loc wall
  if z.off ≠ 0 then
    let utc := wall - z.off
    if utc < z.start ∨ utc ≥ z.stop then do
      let z2 ← lookupL w loc utc
      pure (wall - z2.off)
    else pure (wall - z.off)
  else pure wall

/-- A `time.Time` as far as `Unix()` and `Format` are concerned: instant, nanoseconds, offset and
    abbreviation of its zone at that instant. -/
structure TimeR where
  unix : Int
  nsec : Int
  off : Int
  abbr : Bytes
  deriving Repr

/-- The tail of `time.parse`: which `Time` a parsed wall clock becomes in `loc`. -/
def timeOfParsed (w : TimeWorld) (loc : C18.Loc) (p : C18.Parsed) : Comp TimeR :=
  let wall := C18.wallSeconds p.dt
  match p.zone with
  | .utc => .ret ⟨wall, p.dt.ns, 0, C18.asc "UTC"⟩
  | .offset o =>
    -- the local zone when it has that offset at the instant, else a fabricated zone: the same offset either way
    .ret ⟨wall - o, p.dt.ns, o, []⟩
  | .name n => do
    let r ← lookupName w loc n wall
    match r with
    | some off => do
      let u := wall - off
      let z ← lookupL w loc u
      pure ⟨u, p.dt.ns, z.off, z.name⟩
    | none =>
      -- "Otherwise, create fake zone with unknown offset."  Only `t.setLoc(FixedZone(zoneName, offset))`: the
      -- instant is NOT shifted (no `addSec`), also for `GMT+3` – the wall clock is read as UTC and merely shown in
      -- a zone of that offset (`{time "Thu, 14 Apr 2016 17:12:25 GMT+3" RFC1123}` = 1460653945 = 17:12:25 UTC;
      -- `buckettime … hour` prints hour 20).  Same rule as `Rare.C18.instantInN`.
      let o : Int := if n.length > 3 ∧ n.take 3 = C18.asc "GMT" then (C18.timeAtoi (n.drop 3)).getD 0 * 3600 else 0
      pure ⟨wall, p.dt.ns, o, n⟩
  | .default => do
    let u ← dateResolve w loc wall
    let z ← lookupL w loc u
    pure ⟨u, p.dt.ns, z.off, z.name⟩

/-- Go's absolute time (`uint64(sec + offset + unixToInternal + internalToAbsolute)`) does not wrap, nor
    does the Thursday shift of `ISOWeek`: outside, the calendar of the model is not Go's. -/
def inAbsRange (unix off : Int) : Bool :=
  decide (-9223372028715321600 + 345600 ≤ unix + off) && decide (unix + off ≤ maxInt64)

/-- The fields `Format` reads. -/
def timeVOfR (t : TimeR) : C18.TimeV :=
  let v := C18.timeVOf t.unix t.off t.abbr
  { v with dt := { v.dt with ns := t.nsec } }

/-- `t.Format(layout)` -/
def formatR (w : TimeWorld) (layout : Bytes) (t : TimeR) : Comp Bytes :=
  if inAbsRange t.unix t.off then .ret (C18.formatLayout layout (timeVOfR t)) else w.lib "time-abs-range"

/-- `time.Unix(unix, 0).In(loc)` -/
def timeAt (w : TimeWorld) (loc : C18.Loc) (unix : Int) : Comp TimeR := do
  let z ← lookupL w loc unix
  pure ⟨unix, 0, z.off, z.name⟩

/-! ### constants of the builders -/

def isAscii (b : Bytes) : Bool := b.all (· < 128)

/-- A builder result the model cannot predict (neither the stage nor the compile error). -/
def declineBuild (w : TimeWorld) (why : String) : Except String Built :=
  .ok ⟨some (w.lib why), some ("unmodelled:" ++ why)⟩

/-- `parseTimezoneLocation(tzf)`: `none` = the world does not know whether the name loads. -/
def parseTz (w : TimeWorld) (tzf : Bytes) : Option (C18.Loc × Bool) :=
  let up := C18.toUpper tzf
  if up = [] ∨ up = C18.asc "UTC" then some (.utc, true)
  else if up = C18.asc "LOCAL" then some (.local, true)
  else match w.loadOk tzf with
    | some ok => some (C18.parseTimezoneLocation tzf ok)
    | none => none

/-! ### `smartDateParseWrapper` -/

/-- `time.ParseInLocation(layout, str, tz)` then `f`, or `ErrorParsing`. -/
def parseThen (w : TimeWorld) (loc : C18.Loc) (layout str : Bytes) (f : TimeR → Comp Bytes) : Comp Bytes :=
  if C18.usesYearDay (C18.tokenize layout) then w.lib "yearday-layout"
  else match C18.parseLayout layout str with
    | .ok p => do
      let t ← timeOfParsed w loc p
      f t
    | .error _ => .ret ErrorParsing

/-- The touch of the cache stage (`context.GetMatch(-1)`, the answer dropped) unless the date expression is constant
    by itself.  In Go it happens only while `InStaticAnalysis(context)`; an interaction tree is one tree for both
    interpreters, and a look-up whose answer is dropped is invisible to an evaluation (`Comp.run`, through
    sub-contexts too: a negative index goes to the parent) while the monitor counts it (`Comp.probe`: the stage is
    never reported constant, so it is never folded) – so the unconditional look-up describes both.  The state-passing
    model of C10 (`Rare.C10.timeStep` / `timeTouches`) has the condition. -/
def touchUnless (constTime : Bool) (k : Comp Bytes) : Comp Bytes :=
  if constTime then k else .getMatch (-1) fun _ => k

/-- The three stages of `smartDateParseWrapper(format, tz, dateStage, f)`. -/
def smartDateParse (w : TimeWorld) (format : Bytes) (loc : C18.Loc) (dateStage : Stage) (f : TimeR → Comp Bytes) :
    Except String Stage :=
  match C18.modeOf C18.timeFormats format with
  | .auto => .ok (do
    let strTime ← dateStage
    let r ← w.parseAny loc strTime
    match r with
    | none => pure ErrorParsing
    | some t => f ⟨t.unix, t.nsec, t.off, []⟩)
  | .cache =>
    -- `emptyTime, constTime := EvalStaticStage(dateStage)`
    match dateStage.probe with
    | .error m => .error m
    | .ok (_emptyTime, constTime) => .ok (do
      let strTime ← dateStage
      -- since /repo cb6fa4b the static-analysis value is parsed like any other (only its layout is not remembered)
      if strTime = [] then pure ErrorParsing
      else
        -- since /repo 1dba502: `if InStaticAnalysis(context) { … if !constTime { context.GetMatch(-1) } }`
        touchUnless constTime (do
          let live ← w.detect strTime
          match live with
          | none => pure ErrorParsing
          | some layout => parseThen w loc layout strTime f))
  | .explicit layout => .ok (do
    let strTime ← dateStage
    parseThen w loc layout strTime f)

/-! ### the builders -/

/-- `{time <time> [format:cache] [tz:utc]}` -/
def kfTimeParse (w : TimeWorld) : Builder := fun args =>
  match args with
  | [] => errArgCount
  | a0 :: rest =>
    if rest.length > 2 then errArgCount
    else
      match a0.probe with
      | .error m => .error m
      | .ok (val, isStatic) =>
        if isStatic && !isAscii val then declineBuild w "non-ascii"
        else if isStatic && C18.toLower val = C18.asc "now" then ok w.nowBuild
        else if isStatic && C18.toLower val = C18.asc "live" then
          ok (.getMatch (-1) fun _ => w.nowLive)        -- "HACK: Touch the context so it doesn't get optimized out"
        else if isStatic && C18.toLower val = C18.asc "delta" then
          ok (.getMatch (-1) fun _ => w.nowDelta)
        else
          match evalStageIndexOrDefault args 1 [], evalStageIndexOrDefault args 2 [] with
          | .error m, _ => .error m
          | _, .error m => .error m
          | .ok format, .ok tzf =>
            if !(isAscii format && isAscii tzf) then declineBuild w "non-ascii"
            else match parseTz w tzf with
              | none => declineBuild w "tz-oracle"
              | some (_, false) => errParsing
              | some (loc, true) =>
                match smartDateParse w format loc a0 (fun t => .ret (itoa t.unix)) with
                | .error m => .error m
                | .ok st => ok st

/-- `{timeformat <unixtime> [format:RFC3339] [tz:utc]}` -/
def kfTimeFormat (w : TimeWorld) : Builder := fun args =>
  match args with
  | [] => errArgCount
  | a0 :: rest =>
    if rest.length > 2 then errArgCount
    else
      match evalStageIndexOrDefault args 1 C18.rfc3339, evalStageIndexOrDefault args 2 [] with
      | .error m, _ => .error m
      | _, .error m => .error m
      | .ok fmtArg, .ok tzf =>
        if !(isAscii fmtArg && isAscii tzf) then declineBuild w "non-ascii"
        else
          let layout := C18.namedTimeFormatToFormat C18.timeFormats fmtArg
          match parseTz w tzf with
          | none => declineBuild w "tz-oracle"
          | some (_, false) => errParsing
          | some (loc, true) => ok (do
            let strUnixTime ← a0
            match atoi strUnixTime with
            | none => pure ErrorNum
            | some unixTime => do
              let t ← timeAt w loc unixTime
              formatR w layout t)

/-- `{duration <duration_string>}` -/
def kfDuration (w : TimeWorld) : Builder := fun args =>
  match args with
  | [a0] => ok (do
    let s ← a0
    match C18.duration s with
    | .val b => pure b
    | .unmodelled why => w.lib why)
  | _ => errArgCount

/-- `{durationformat <secs>}` -/
def kfDurationFormat (w : TimeWorld) : Builder := fun args =>
  match args with
  | [a0] => ok (do
    let s ← a0
    match C18.durationFormat s with
    | .val b => pure b
    | .unmodelled why => w.lib why)
  | _ => errArgCount

/-- `{buckettime <time> <bucket> [format:auto] [tz:utc]}` -/
def kfBucketTime (w : TimeWorld) : Builder := fun args =>
  match args with
  | a0 :: a1 :: rest =>
    if rest.length > 2 then errArgCount
    else
      match a1.probe with
      | .error m => .error m
      | .ok (_, false) => errConst
      | .ok (bucketName, true) =>
        if !isAscii bucketName then declineBuild w "non-ascii"
        else
          let bucketFormat := C18.timeBucketToFormat C18.bucketTable bucketName
          if bucketFormat = [] then errEnum
          else
            match evalStageIndexOrDefault args 2 [], evalStageIndexOrDefault args 3 [] with
            | .error m, _ => .error m
            | _, .error m => .error m
            | .ok parseFormat, .ok tzf =>
              if !(isAscii parseFormat && isAscii tzf) then declineBuild w "non-ascii"
              else match parseTz w tzf with
                | none => declineBuild w "tz-oracle"
                | some (_, false) => errParsing
                | some (loc, true) =>
                  match smartDateParse w parseFormat loc a0 (fun t => formatR w bucketFormat t) with
                  | .error m => .error m
                  | .ok st => ok st
  | _ => errArgCount

/-- `attrType[strings.ToUpper(name)]` applied to `time.Unix(unix, 0).In(tz)`. -/
def attrStage (w : TimeWorld) (attr : Bytes) (loc : C18.Loc) (a0 : Stage) : Stage := do
  let s ← a0
  match atoi s with
  | none => pure ErrorNum
  | some unixTime => do
    let t ← timeAt w loc unixTime
    if !inAbsRange t.unix t.off then w.lib "time-abs-range"
    else match C18.timeAttr attr t.unix t.off with
      | some b => pure b
      | none => w.lib "no-such-attr"

/-- `{timeattr <time> <attr> [tz:utc]}` -/
def kfTimeAttr (w : TimeWorld) : Builder := fun args =>
  match args with
  | a0 :: a1 :: rest =>
    if rest.length > 1 then errArgCount
    else
      match a1.probe with
      | .error m => .error m
      | .ok (_, false) => errConst
      | .ok (attrName, true) =>
        match evalStageIndexOrDefault args 2 [] with
        | .error m => .error m
        | .ok tzf =>
          if !(isAscii attrName && isAscii tzf) then declineBuild w "non-ascii"
          else match parseTz w tzf with
            | none => declineBuild w "tz-oracle"
            | some (_, false) => errParsing
            | some (loc, true) =>
              if !C18.attrKeys.contains (C18.toUpper attrName) then errEnum
              else ok (attrStage w attrName loc a0)
  | _ => errArgCount

def table (w : TimeWorld) : Table := [
  ("time", kfTimeParse w), ("timeformat", kfTimeFormat w), ("timeattr", kfTimeAttr w),
  ("buckettime", kfBucketTime w), ("duration", kfDuration w), ("durationformat", kfDurationFormat w)]

def names : List String := ["time", "timeformat", "timeattr", "buckettime", "duration", "durationformat"]

end Rare.Expr.Funcs.TimeW
