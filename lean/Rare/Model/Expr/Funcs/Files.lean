import Rare.Model.Expr.Build
/-!
`funcsLookups.go` `kfLoadFile`: `{load "filename"}` reads a file ONCE, at compile time, and yields its
content as a constant.  The file system is a parameter: `fs path = some content` when `os.Open` and
`io.ReadAll` succeed, `none` when either fails (missing file, a directory, …); `disabled` is the
package-level switch `stdlib.DisableLoad` (`--noload`).
-/
namespace Rare.Expr.Funcs.Files
open Rare Rare.Expr

/-- `{load "filename"}` -/
def kfLoadFile (disabled : Bool) (fs : Bytes → Option Bytes) : Builder := fun args =>
  if disabled then errFile
  else match args with
    | [a0] =>
      match a0.probe with
      | .error m => .error m
      | .ok (_, false) => errConst
      | .ok (filename, true) =>
        match fs filename with
        | none => errFile
        | some content => ok (Stage.lit content)
    | _ => errArgCount

def table (disabled : Bool) (fs : Bytes → Option Bytes) : Table := [("load", kfLoadFile disabled fs)]

end Rare.Expr.Funcs.Files
