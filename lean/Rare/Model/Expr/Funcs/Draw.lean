import Rare.Model.Expr.Build
import Rare.Model.C14
/-!
`pkg/expressions/stdlib/drawing.go`: `{color name content}` and `{bar val maxVal len [scaler]}`
(`{repeat}` of the same file lives in `Misc.lean`).

Both depend on the two package-level switches `color.Enabled` / `termunicode.UnicodeEnabled`
(`C14.Env`); `{bar}` computes with `float64`, which is a parameter (`C14.Arith α`, as in the C14 model):
the panic-freedom proof holds for EVERY arithmetic, the driver instantiates IEEE doubles.  The glyph
writer and the scaler are the ones of the C14 model (`C14.barWrite`, `C14.scale`, `C14.wrap`).
-/
namespace Rare.Expr.Funcs.Draw
open Rare Rare.Expr

/-- `strings.ToLower(name)` as far as a table of ASCII keys can tell: `some` = the lower-cased name when
    every rune of it lower-cases to ASCII (ASCII itself, U+212A KELVIN SIGN → `k`, U+0130 → `i`: the only
    non-ASCII code points whose lower case is ASCII), `none` = the lower-cased name contains a non-ASCII
    rune (or U+FFFD for invalid UTF-8) and therefore equals no ASCII key. -/
def lowerAscii : Bytes → Option Bytes
  | [] => some []
  | 0xE2 :: 0x84 :: 0xAA :: r => (lowerAscii r).map (107 :: ·)
  | 0xC4 :: 0xB0 :: r => (lowerAscii r).map (105 :: ·)
  | b :: r => if b < 128 then (lowerAscii r).map ((if 65 ≤ b && b ≤ 90 then b + 32 else b) :: ·) else none

/-- `colorMap` of `pkg/color/coloring.go` -/
def colorMap : List (String × Bytes) :=
  [("black", C14.escB "[30m"), ("red", C14.cRed), ("green", C14.cGreen), ("yellow", C14.cYellow),
   ("blue", C14.cBlue), ("magenta", C14.cMagenta), ("cyan", C14.cCyan), ("white", C14.escB "[37m")]

/-- `color.LookupColorByName` -/
def lookupColor (name : Bytes) : Option Bytes :=
  match lowerAscii name with
  | none => none
  | some l => (colorMap.find? fun p => ascii p.1 == l).map (·.2)

/-- `{color "color" content}` -/
def kfColor (env : C14.Env) : Builder := fun args =>
  match args with
  | [a0, a1] =>
    match a0.probe with
    | .error m => .error m
    | .ok (_, false) => errConst
    | .ok (name, true) =>
      match lookupColor name with
      | none => errEnum
      | some code => ok (do let v ← a1; pure (C14.wrap env code v))
  | _ => errArgCount

/-- `termscaler.ScalerByName` -/
def scalerByName (name : Bytes) : Option C14.Scaler :=
  match lowerAscii name with
  | none => none
  | some l =>
    if l == ascii "linear" || l == ascii "lin" || l == [] then some .linear
    else if l == ascii "log10" || l == ascii "log" then some .log10
    else if l == ascii "log2" then some .log2
    else none

/-- `maxBarLen` of `drawing.go`: longer bars are a compile error (`<VALUE>`). -/
def maxBarLen : Int := 65536

def liftRes : C14.Res Bytes → Stage
  | .ok v => .ret v
  | .error m => .panic m

/-- The run-time closure of `kfBar`. -/
def barStage {α : Type} (A : C14.Arith α) (env : C14.Env) (k : C14.Scaler) (maxVal maxLen : Int) (a0 : Stage) : Stage := do
  let v ← a0
  match atoi v with
  | none => pure ErrorNum
  | some val => liftRes (C14.barWrite A env (C14.scale A k val 0 maxVal) maxLen)

/-- `{bar {val} "maxVal" "len" ["scaler"]}` -/
def kfBar {α : Type} (A : C14.Arith α) (env : C14.Env) : Builder := fun args =>
  if args.length < 3 || args.length > 4 then errArgCount
  else match args with
    | a0 :: a1 :: a2 :: rest =>
      match evalStageInt a1 with
      | .error m => .error m
      | .ok none => errNum
      | .ok (some maxVal) =>
        match evalStageInt a2 with
        | .error m => .error m
        | .ok none => errNum
        | .ok (some maxLen) =>
          if maxLen > maxBarLen then errValue else
          match rest with
          | [] => ok (barStage A env .linear maxVal maxLen a0)
          | a3 :: _ =>
            match a3.probe with
            | .error m => .error m
            | .ok (_, false) => errConst
            | .ok (name, true) =>
              match scalerByName name with
              | none => errEnum
              | some k => ok (barStage A env k maxVal maxLen a0)
    | _ => errArgCount

def table {α : Type} (A : C14.Arith α) (env : C14.Env) : Table :=
  [("color", kfColor env), ("bar", kfBar A env)]

end Rare.Expr.Funcs.Draw
