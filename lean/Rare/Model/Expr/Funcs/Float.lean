import Rare.Model.Expr.Funcs.Strings
import Rare.Base.F64Str
/-!
The float-valued helpers of `pkg/expressions/stdlib` on top of the software binary64 model
(`Rare/Base/F64.lean`, `F64Str.lean`; no `Float`):

* `funcsArithmatic.go`: `sumf subf multf divf` (`arithmaticHelperf`), `ceil floor`
  (`unaryArithmaticHelperfi`), `sqrt` (`unaryArithmaticHelperf`), `round` (`kfRound`);
  `pow log10 log2 ln` go through `math.Pow` / `math.Log*` and stay `unmodelled` once their
  arguments have parsed (a non-numeric argument still yields `<BAD-TYPE>`);
* `funcsComparators.go`: `lt gt lte gte` (`arithmaticEqualityHelper`);
* `funcsType.go`: `isnum`;
* `funcsStrings.go`: `hf` (`humanize.Hf` = `humanizeFloat(v, 4)`), `percent`,
  `bytesize bytesizesi downscale` (`humanize.unitize`, including the float scaling loop).

Each argument is parsed with the modelled `strconv.ParseFloat`, the arithmetic is IEEE-754
(`F64.add …`), the result is rendered with the modelled `strconv.FormatFloat(x, 'f', prec, 64)`.
`Arith.table` appends `Float.table`; the three unit helpers shadow the integer-only versions of
`Strings.table` (the registry takes the first entry of a name).
-/
namespace Rare.Expr.Funcs.Float
open Rare.Expr

/-- `typedParserFloat` -/
def parseF (s : Bytes) : Option F64 := F64.parseFloat s

/-- `strconv.FormatFloat(x, 'f', -1, 64)` -/
def fmtF (x : F64) : Bytes := F64.format x (-1)

def unmodelledStage (why : String) : Stage := .panic ("unmodelled:" ++ why)

/-! ### `arithmaticHelperf` -/

/-- The loop `for i := 1; i < len(args); i++` of the run-time closure. -/
def foldRunF (op : F64 → F64 → F64) : F64 → List (Comp (Option F64)) → Stage
  | acc, [] => .ret (fmtF acc)
  | acc, t :: rest => do
    let v ← t
    match v with
    | none => pure ErrorNum
    | some x => foldRunF op (op acc x) rest

def floatRun (op : F64 → F64 → F64) : List (Comp (Option F64)) → Stage
  | [] => .ret ErrorNum   -- unreachable: the builder demands two arguments
  | t :: rest => do
    let v ← t
    match v with
    | none => pure ErrorNum
    | some x => foldRunF op x rest

def floatHelper (op : F64 → F64 → F64) : Builder := fun args =>
  if args.length < 2 then errArgCount
  else match mapTypedArgs parseF args with
    | .error m => .error m
    | .ok none => errNum
    | .ok (some typed) => ok (floatRun op typed)

/-- `arithmaticHelperf(math.Pow)`: the arguments are parsed as above; the first application of the
    operation is outside the model. -/
def floatRunU (why : String) : List (Comp (Option F64)) → Stage
  | [] => .ret ErrorNum
  | t :: rest => do
    let v ← t
    match v with
    | none => pure ErrorNum
    | some _ =>
      match rest with
      | [] => unmodelledStage why
      | t2 :: _ => do
        let w ← t2
        match w with
        | none => pure ErrorNum
        | some _ => unmodelledStage why

def floatHelperU (why : String) : Builder := fun args =>
  if args.length < 2 then errArgCount
  else match mapTypedArgs parseF args with
    | .error m => .error m
    | .ok none => errNum
    | .ok (some typed) => ok (floatRunU why typed)

/-! ### unary helpers: the argument is parsed at run time -/

/-- `unaryArithmaticHelperf` / `…fi` / `kfHumanizeFloat`. -/
def unaryF (f : F64 → Bytes) : Builder := fun args =>
  match args with
  | [a] => ok (do
    let v ← a
    match parseF v with
    | none => pure ErrorNum
    | some x => pure (f x))
  | _ => errArgCount

/-- `math.Log10/Log2/Log`: outside the model once the argument has parsed. -/
def unaryU (why : String) : Builder := fun args =>
  match args with
  | [a] => ok (do
    let v ← a
    match parseF v with
    | none => pure ErrorNum
    | some _ => unmodelledStage why)
  | _ => errArgCount

/-- `strconv.FormatInt(int64(math.Ceil(f)), 10)` -/
def ceilStr (x : F64) : Bytes := itoa (F64.toInt64 (F64.ceil x))
def floorStr (x : F64) : Bytes := itoa (F64.toInt64 (F64.floor x))
def sqrtStr (x : F64) : Bytes := fmtF (F64.sqrt x)

/-- `maxPrecision` of `stdlib/util.go`: larger constant precisions are a compile error (`<VALUE>`). -/
def maxPrecision : Int := 1024

/-- `{round <val> [precision=0]}` -/
def kfRound : Builder := fun args =>
  if args.length < 1 || args.length > 2 then errArgCount
  else match evalArgInt args 1 0 with
    | .error m => .error m
    | .ok none => errConst
    | .ok (some precision) =>
      if precision > maxPrecision then errValue else
      match args with
      | a :: _ => ok (do
        let v ← a
        match parseF v with
        | none => pure ErrorNum
        | some x => pure (F64.format x precision))
      | [] => errArgCount

/-! ### comparisons, isnum -/

/-- `arithmaticEqualityHelper` -/
def cmpHelper (test : F64 → F64 → Bool) : Builder := fun args =>
  match args with
  | [a0, a1] =>
    match evalTypedStage a0 parseF with
    | .error m => .error m
    | .ok none => errNum
    | .ok (some l) =>
      match evalTypedStage a1 parseF with
      | .error m => .error m
      | .ok none => errNum
      | .ok (some r) => ok (do
        let lv ← l
        match lv with
        | none => pure ErrorNum
        | some x =>
          let rv ← r
          match rv with
          | none => pure ErrorNum
          | some y => pure (truthyStr (test x y)))
  | _ => errArgCount

def kfIsNum : Builder := fun args =>
  match args with
  | [a] => ok (do
    let v ← a
    pure (if (parseF v).isSome then TruthyVal else FalsyVal))
  | _ => errArgCount

/-! ### `humanize.Hf` -/

/-- The comma loop of `humanizeFloat` over the integer digits `s[0:decIdx]`:
    `c3` counts digits since the last separator. -/
def commaLoop : Bytes → Nat → Nat → Bytes
  | [], _, _ => []
  | d :: r, i, c3 =>
    if c3 = 3 then (if i > 0 then 44 :: d :: commaLoop r (i + 1) 1 else d :: commaLoop r (i + 1) 1)
    else d :: commaLoop r (i + 1) (c3 + 1)

/-- `humanizeFloat(v, decimals)` -/
def humanizeFloat (v : F64) (decimals : Int) : Bytes :=
  if v.isNaN then ascii "NaN"
  else if v.isInf then ascii "Inf"
  else
    let s := F64.format v decimals
    if F64.lt (F64.ofInt (-1000)) v && F64.lt v (F64.ofInt 1000) then s
    else
      let negative := s.head? == some 45
      let s := match s with
        | c :: r => if isDigitB c then s else r
        | [] => s
      let ip := s.takeWhile (· != 46)
      let rest := s.dropWhile (· != 46)      -- "" or ".ddd"
      let decIdx := ip.length
      let body := commaLoop ip 0 (3 - decIdx % 3)
      (if negative then [45] else []) ++ body ++ rest

/-- `humanize.Decimals` -/
def hfDecimals : Int := 4

def hfStr (x : F64) : Bytes := humanizeFloat x hfDecimals

/-! ### percent -/

/-- `(val-min)*100.0/(max-min)` rendered with `decimals` digits and a `%`. -/
def percentStr (val min max : F64) (decimals : Int) : Bytes :=
  F64.format (F64.div (F64.mul (F64.sub val min) (F64.ofInt 100)) (F64.sub max min)) decimals ++ [37]

/-- `{percent val [decimals=1] [[min] max]}` -/
def kfPercent : Builder := fun args =>
  if args.length < 1 || args.length > 4 then errArgCount
  else match evalArgInt args 1 1 with
    | .error m => .error m
    | .ok none => errConst
    | .ok (some decimals) =>
      if decimals > maxPrecision then errValue else
      let lit (x : F64) : Comp (Option F64) := .ret (some x)
      let mm : Except String (Option (Comp (Option F64)) × Option (Comp (Option F64))) :=
        match args with
        | [_, _, mx] =>
          match evalTypedStage mx parseF with
          | .error m => .error m
          | .ok b => .ok (some (lit (F64.zero false)), b)
        | [_, _, mn, mx] =>
          match evalTypedStage mn parseF with
          | .error m => .error m
          | .ok a =>
            match evalTypedStage mx parseF with
            | .error m => .error m
            | .ok b => .ok (a, b)
        | _ => .ok (some (lit (F64.zero false)), some (lit F64.one))
      match mm, args with
      | .error m, _ => .error m
      | .ok (some smin, some smax), a0 :: _ =>
        ok (do
          let mn ← smin
          match mn with
          | none => pure ErrorNum
          | some min =>
            let mx ← smax
            match mx with
            | none => pure ErrorNum
            | some max =>
              let v ← a0
              match parseF v with
              | none => pure ErrorNum
              | some val => pure (percentStr val min max decimals))
      | .ok _, _ => errNum

/-! ### bytesize / bytesizesi / downscale (`humanize.unitize`) -/

/-- `for (nf <= -sf || nf >= sf) && rank < len(units)-1 { nf /= sf; rank++ }` -/
def unitLoop (sf : F64) (maxRank : Nat) : Nat → F64 → Nat → F64 × Nat
  | 0, nf, rank => (nf, rank)
  | fuel + 1, nf, rank =>
    if (F64.le nf (F64.neg sf) || F64.le sf nf) && rank < maxRank then
      unitLoop sf maxRank fuel (F64.div nf sf) (rank + 1)
    else (nf, rank)

/-- `unitize(n, step, precision, delim, units)` -/
def unitize (n step : Int) (precision : Int) (delim : Bytes) (units : List String) : Bytes :=
  if n > -step ∧ n < step then Strings.withUnit (itoa n) delim (units.headD "")
  else
    let (nf, rank) := unitLoop (F64.ofInt step) (units.length - 1) units.length (F64.ofInt n) 0
    Strings.withUnit (F64.format nf precision) delim (units.getD rank "")

def unitHelper (unsigned : Bool) (step : Int) (delim : Bytes) (units : List String) : Builder := fun args =>
  if args.length < 1 || args.length > 2 then errArgCount
  else match evalArgInt args 1 0 with
    | .error m => .error m
    | .ok none => errNum
    | .ok (some precision) =>
      if precision > maxPrecision then errValue else
      match args with
      | a :: _ => ok (do
        let v ← a
        -- `ParseUint` then `int64(n)` for the byte sizes, `ParseInt` for downscale
        let parsed : Option Int := if unsigned then (atou v).map (fun n => wrap64 (Int.ofNat n)) else atoi v
        match parsed with
        | none => pure ErrorNum
        | some n => pure (unitize n step precision delim units))
      | [] => errArgCount

def table : Table := [
  ("isnum", kfIsNum),
  ("lt", cmpHelper fun a b => F64.lt a b), ("gt", cmpHelper fun a b => F64.lt b a),
  ("lte", cmpHelper fun a b => F64.le a b), ("gte", cmpHelper fun a b => F64.le b a),
  ("sumf", floatHelper F64.add), ("subf", floatHelper F64.sub),
  ("multf", floatHelper F64.mul), ("divf", floatHelper F64.div),
  ("pow", floatHelperU "pow"),
  ("ceil", unaryF ceilStr), ("floor", unaryF floorStr),
  ("log10", unaryU "log10"), ("log2", unaryU "log2"), ("ln", unaryU "ln"),
  ("sqrt", unaryF sqrtStr), ("round", kfRound),
  ("hf", unaryF hfStr), ("percent", kfPercent),
  ("bytesize", unitHelper true 1024 [32] Strings.iecSizes),
  ("bytesizesi", unitHelper true 1000 [32] Strings.siSizes),
  ("downscale", unitHelper false 1000 [] Strings.unitSize)]

end Rare.Expr.Funcs.Float
