import Rare.Model.Expr.Build
namespace Rare.Expr.Funcs.Arith
open Rare.Expr

def table : Table := []

end Rare.Expr.Funcs.Arith
