import Rare.Model.Expr.Build
import Rare.Model.Expr.Funcs.Float
/-!
`funcsArithmatic.go`, `funcsCommon.go` (bucket, bucketrange, clamp, expbucket), `funcsType.go`
and the float comparators of `funcsComparators.go`.

Integer helpers are modelled exactly (wrapped int64) in this file.  The float-valued helpers
(`sumf … divf`, `ceil floor sqrt round`, `lt gt lte gte`, `isnum`, `hf`, `percent`, the unit scalers)
live in `Funcs/Float.lean` on top of the software binary64 model `Rare/Base/F64.lean`; their
table is appended to this family's `table` (so `Std.lean` and the per-family proofs keep their shape).
-/
namespace Rare.Expr.Funcs.Arith
open Rare.Expr

/-! ### integer fold helpers (`arithmaticHelperiChecked`) -/

/-- A checked binary operation: `none` = the operation rejects its operands (`<VALUE>`). -/
abbrev IntOp := Int → Int → Option Int

def opSum : IntOp := fun a b => some (wrap64 (a + b))
def opSub : IntOp := fun a b => some (wrap64 (a - b))
def opMul : IntOp := fun a b => some (wrap64 (a * b))
def opDiv : IntOp := fun a b => if b = 0 then none else some (goDiv a b)
def opMod : IntOp := fun a b => if b = 0 then none else some (goMod a b)
def opMax : IntOp := fun a b => some (if a > b then a else b)
def opMin : IntOp := fun a b => some (if a < b then a else b)

/-- The loop `for i := 1; i < len(args); i++` of the run-time closure. -/
def foldRun (eq : IntOp) : Int → List (Comp (Option Int)) → Stage
  | acc, [] => .ret (itoa acc)
  | acc, t :: rest => do
    let v ← t
    match v with
    | none => pure ErrorNum
    | some x =>
      match eq acc x with
      | none => pure ErrorValue
      | some r => foldRun eq r rest

/-- The run-time closure of `arithmaticHelperiChecked`. -/
def intRun (eq : IntOp) : List (Comp (Option Int)) → Stage
  | [] => .ret ErrorNum   -- unreachable: the builder demands two arguments
  | t :: rest => do
    let v ← t
    match v with
    | none => pure ErrorNum
    | some x => foldRun eq x rest

def intHelper (eq : IntOp) : Builder := fun args =>
  if args.length < 2 then errArgCount
  else match mapTypedArgs atoi args with
    | .error m => .error m
    | .ok none => errNum
    | .ok (some typed) => ok (intRun eq typed)

/-! ### isint -/

def kfIsInt : Builder := fun args =>
  match args with
  | [a] => ok (do let v ← a; pure (if (atoi v).isSome then TruthyVal else FalsyVal))
  | _ => errArgCount

/-! ### bucket / bucketrange / clamp / expbucket -/

/-- `bucket := (val / bucketSize) * bucketSize; if bucket > val { bucket -= bucketSize }` -/
def bucketVal (val size : Int) : Int :=
  let bucket := wrap64 (goDiv val size * size)
  if bucket > val then wrap64 (bucket - size) else bucket

/-- `end = start + (bucketSize - 1)` -/
def bucketEnd (start size : Int) : Int := wrap64 (start + wrap64 (size - 1))

def bucketRangeStr (val size : Int) : Bytes :=
  let start := bucketVal val size
  itoa start ++ ascii " - " ++ itoa (bucketEnd start size)

/-- Shared head of `kfBucket` / `kfBucketRange`. -/
def bucketBuilder (render : Int → Int → Bytes) : Builder := fun args =>
  match args with
  | [a0, a1] =>
    match evalStageInt a1 with
    | .error m => .error m
    | .ok none => errNum
    | .ok (some size) =>
      if size ≤ 0 then errValue
      else ok (do
        let v ← a0
        match atoi v with
        | none => pure ErrorNum
        | some val => pure (render val size))
  | _ => errArgCount

def kfBucket : Builder := bucketBuilder fun v s => itoa (bucketVal v s)
def kfBucketRange : Builder := bucketBuilder bucketRangeStr

/-- The comparison chain of `kfClamp`. -/
def clampVal (arg0 : Bytes) (val min max : Int) : Bytes :=
  if val < min then ascii "min" else if val > max then ascii "max" else arg0

def kfClamp : Builder := fun args =>
  match args with
  | [a0, a1, a2] =>
    match evalStageInt a1 with
    | .error m => .error m
    | .ok mn =>
      match evalStageInt a2 with
      | .error m => .error m
      | .ok mx =>
        match mn, mx with
        | none, _ => errNum
        | _, none => errNum
        | some min, some max => ok (do
          let arg0 ← a0
          match atoi arg0 with
          | none => pure ErrorNum
          | some val => pure (clampVal arg0 val min max))
  | _ => errArgCount

/-- `for val >= 10 { val /= 10; bucket *= 10 }` (an int64 has at most 19 digits). -/
def expLoop : Nat → Int → Int → Int
  | 0, _, b => b
  | f + 1, v, b => if v ≥ 10 then expLoop f (goDiv v 10) (wrap64 (b * 10)) else b

def expBucketVal (val : Int) : Int := if val > 0 then expLoop 19 val 1 else 0

def kfExpBucket : Builder := fun args =>
  match args with
  | [a] => ok (do
    let v ← a
    match atoi v with
    | none => pure ErrorNum
    | some val => pure (itoa (expBucketVal val)))
  | _ => errArgCount

/-- `maxPrecision` of `stdlib/util.go` (the cap used by the `round` / `percent` / unit-scaling models
    of `Funcs/Float.lean`). -/
def maxPrecision : Int := Float.maxPrecision

/-- The integer, bucketing and `isint` builders of this file. -/
def intTable : Table := [
  ("sumi", intHelper opSum), ("subi", intHelper opSub), ("multi", intHelper opMul),
  ("divi", intHelper opDiv), ("modi", intHelper opMod),
  ("maxi", intHelper opMax), ("mini", intHelper opMin),
  ("isint", kfIsInt),
  ("bucket", kfBucket), ("bucketrange", kfBucketRange), ("clamp", kfClamp), ("expbucket", kfExpBucket)]

def table : Table := intTable ++ Float.table

end Rare.Expr.Funcs.Arith
