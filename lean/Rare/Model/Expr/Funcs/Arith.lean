import Rare.Model.Expr.Build
/-!
`funcsArithmatic.go`, `funcsCommon.go` (bucket, bucketrange, clamp, expbucket), `funcsType.go`
and the float comparators of `funcsComparators.go`.

Integer helpers are modelled exactly (wrapped int64).  Float-valued helpers are modelled only
as far as `strconv.ParseFloat` can be decided without IEEE arithmetic: a *plain decimal*
(`[+-]digits[.digits]`) with at most 15 significant digits is an exact rational and two such
numbers compare as floats exactly as they compare as rationals (15-digit decimals round-trip
through float64, so rounding is strictly monotone on them); a string that certainly is not a
float yields the `<BAD-TYPE>` marker; everything else answers `unmodelled`.
-/
namespace Rare.Expr.Funcs.Arith
open Rare.Expr

/-! ### integer fold helpers (`arithmaticHelperiChecked`) -/

/-- A checked binary operation: `none` = the operation rejects its operands (`<VALUE>`). -/
abbrev IntOp := Int → Int → Option Int

def opSum : IntOp := fun a b => some (wrap64 (a + b))
def opSub : IntOp := fun a b => some (wrap64 (a - b))
def opMul : IntOp := fun a b => some (wrap64 (a * b))
def opDiv : IntOp := fun a b => if b = 0 then none else some (goDiv a b)
def opMod : IntOp := fun a b => if b = 0 then none else some (goMod a b)
def opMax : IntOp := fun a b => some (if a > b then a else b)
def opMin : IntOp := fun a b => some (if a < b then a else b)

/-- The loop `for i := 1; i < len(args); i++` of the run-time closure. -/
def foldRun (eq : IntOp) : Int → List (Comp (Option Int)) → Stage
  | acc, [] => .ret (itoa acc)
  | acc, t :: rest => do
    let v ← t
    match v with
    | none => pure ErrorNum
    | some x =>
      match eq acc x with
      | none => pure ErrorValue
      | some r => foldRun eq r rest

/-- The run-time closure of `arithmaticHelperiChecked`. -/
def intRun (eq : IntOp) : List (Comp (Option Int)) → Stage
  | [] => .ret ErrorNum   -- unreachable: the builder demands two arguments
  | t :: rest => do
    let v ← t
    match v with
    | none => pure ErrorNum
    | some x => foldRun eq x rest

def intHelper (eq : IntOp) : Builder := fun args =>
  if args.length < 2 then errArgCount
  else match mapTypedArgs atoi args with
    | .error m => .error m
    | .ok none => errNum
    | .ok (some typed) => ok (intRun eq typed)

/-! ### isint -/

def kfIsInt : Builder := fun args =>
  match args with
  | [a] => ok (do let v ← a; pure (if (atoi v).isSome then TruthyVal else FalsyVal))
  | _ => errArgCount

/-! ### bucket / bucketrange / clamp / expbucket -/

/-- `bucket := (val / bucketSize) * bucketSize; if bucket > val { bucket -= bucketSize }` -/
def bucketVal (val size : Int) : Int :=
  let bucket := wrap64 (goDiv val size * size)
  if bucket > val then wrap64 (bucket - size) else bucket

/-- `end = start + (bucketSize - 1)` -/
def bucketEnd (start size : Int) : Int := wrap64 (start + wrap64 (size - 1))

def bucketRangeStr (val size : Int) : Bytes :=
  let start := bucketVal val size
  itoa start ++ ascii " - " ++ itoa (bucketEnd start size)

/-- Shared head of `kfBucket` / `kfBucketRange`. -/
def bucketBuilder (render : Int → Int → Bytes) : Builder := fun args =>
  match args with
  | [a0, a1] =>
    match evalStageInt a1 with
    | .error m => .error m
    | .ok none => errNum
    | .ok (some size) =>
      if size ≤ 0 then errValue
      else ok (do
        let v ← a0
        match atoi v with
        | none => pure ErrorNum
        | some val => pure (render val size))
  | _ => errArgCount

def kfBucket : Builder := bucketBuilder fun v s => itoa (bucketVal v s)
def kfBucketRange : Builder := bucketBuilder bucketRangeStr

/-- The comparison chain of `kfClamp`. -/
def clampVal (arg0 : Bytes) (val min max : Int) : Bytes :=
  if val < min then ascii "min" else if val > max then ascii "max" else arg0

def kfClamp : Builder := fun args =>
  match args with
  | [a0, a1, a2] =>
    match evalStageInt a1 with
    | .error m => .error m
    | .ok mn =>
      match evalStageInt a2 with
      | .error m => .error m
      | .ok mx =>
        match mn, mx with
        | none, _ => errNum
        | _, none => errNum
        | some min, some max => ok (do
          let arg0 ← a0
          match atoi arg0 with
          | none => pure ErrorNum
          | some val => pure (clampVal arg0 val min max))
  | _ => errArgCount

/-- `for val >= 10 { val /= 10; bucket *= 10 }` (an int64 has at most 19 digits). -/
def expLoop : Nat → Int → Int → Int
  | 0, _, b => b
  | f + 1, v, b => if v ≥ 10 then expLoop f (goDiv v 10) (wrap64 (b * 10)) else b

def expBucketVal (val : Int) : Int := if val > 0 then expLoop 19 val 1 else 0

def kfExpBucket : Builder := fun args =>
  match args with
  | [a] => ok (do
    let v ← a
    match atoi v with
    | none => pure ErrorNum
    | some val => pure (itoa (expBucketVal val)))
  | _ => errArgCount

/-! ### floats: what can be said without IEEE arithmetic -/

/-- `mant / 10^scale`, negated when `neg`. -/
structure Dec where
  neg : Bool
  mant : Nat
  scale : Nat
  deriving Repr, DecidableEq

inductive FClass where
  | exact (d : Dec)     -- plain decimal, ≤ 15 significant digits: the float *is* this rational as far as `<` goes
  | valid               -- certainly accepted by ParseFloat, value not modelled
  | invalid             -- certainly rejected by ParseFloat
  | unknown             -- exponent / hex / inf / nan / underscore spellings …
  deriving Repr, DecidableEq

def isFloatAlphabet (b : UInt8) : Bool :=
  isDigitB b || (97 ≤ b && b ≤ 102) || (65 ≤ b && b ≤ 70) ||   -- hex digits
  b == 120 || b == 88 || b == 112 || b == 80 || b == 95 || b == 46 || b == 43 || b == 45

def stripLeadingZeros : Bytes → Bytes
  | 48 :: r => stripLeadingZeros r
  | r => r

/-- Classify the argument of `strconv.ParseFloat(s, 64)`. -/
def classifyFloat (s : Bytes) : FClass :=
  let (neg, body) := match s with
    | 43 :: r => (false, r)
    | 45 :: r => (true, r)
    | r => (false, r)
  match body with
  | [] => .invalid
  | c :: _ =>
    if !(isDigitB c || c == 46) then
      -- "inf", "infinity", "nan" (any case) are the only non-numeric spellings
      if c == 105 || c == 73 || c == 110 || c == 78 then .unknown else .invalid
    else
      let ip := body.takeWhile isDigitB
      let rest := body.dropWhile isDigitB
      let (fp, tail, hasDot) := match rest with
        | 46 :: r => (r.takeWhile isDigitB, r.dropWhile isDigitB, true)
        | r => ([], r, false)
      let _ := hasDot
      if tail.isEmpty then
        if ip.isEmpty && fp.isEmpty then .invalid            -- "." alone
        else if body.length > 300 then .unknown              -- may overflow to ±Inf (range error)
        else
          let digits := ip ++ fp
          let sig := (stripLeadingZeros digits).length
          if sig ≤ 15 && body.length ≤ 40 then .exact ⟨neg, digitsVal digits 0, fp.length⟩
          else .valid
      else if body.all isFloatAlphabet then .unknown
      else .invalid

/-- `a < b` on decimals by cross multiplication. -/
def Dec.toScaled (d : Dec) (scale : Nat) : Int :=
  let m : Int := d.mant * 10 ^ (scale - d.scale)
  if d.neg then -m else m

def Dec.lt (a b : Dec) : Bool :=
  let s := max a.scale b.scale
  decide (a.toScaled s < b.toScaled s)

def Dec.le (a b : Dec) : Bool :=
  let s := max a.scale b.scale
  decide (a.toScaled s ≤ b.toScaled s)

def unmodelledStage (why : String) : Stage := .panic ("unmodelled:" ++ why)

/-- `evalTypedStage(stage, typedParserFloat)` on classes. `none` = static and unparsable. -/
def evalFloatStage (st : Stage) : Except String (Option (Comp FClass)) :=
  match st.probe with
  | .error m => .error m
  | .ok (v, true) =>
    match classifyFloat v with
    | .invalid => .ok none
    | .unknown => .error "unmodelled:float"
    | c => .ok (some (.ret c))
  | .ok (_, false) => .ok (some (do let v ← st; pure (classifyFloat v)))

def mapFloatArgs : List Stage → Except String (Option (List (Comp FClass)))
  | [] => .ok (some [])
  | a :: rest =>
    match evalFloatStage a with
    | .error m => .error m
    | .ok none => .ok none
    | .ok (some t) =>
      match mapFloatArgs rest with
      | .error m => .error m
      | .ok none => .ok none
      | .ok (some ts) => .ok (some (t :: ts))

/-- `arithmaticEqualityHelper` -/
def cmpHelper (test : Dec → Dec → Bool) : Builder := fun args =>
  match args with
  | [a0, a1] =>
    match evalFloatStage a0 with
    | .error m => .error m
    | .ok none => errNum
    | .ok (some l) =>
      match evalFloatStage a1 with
      | .error m => .error m
      | .ok none => errNum
      | .ok (some r) => ok (do
        let lc ← l
        match lc with
        | .invalid => pure ErrorNum
        | .unknown => unmodelledStage "float"
        | _ =>
          let rc ← r
          match lc, rc with
          | _, .invalid => pure ErrorNum
          | .exact x, .exact y => pure (truthyStr (test x y))
          | _, _ => unmodelledStage "float")
  | _ => errArgCount

def kfIsNum : Builder := fun args =>
  match args with
  | [a] => ok (do
    let v ← a
    match classifyFloat v with
    | .invalid => pure FalsyVal
    | .unknown => unmodelledStage "float"
    | _ => pure TruthyVal)
  | _ => errArgCount

/-- Run-time loop of `arithmaticHelperf`: only the `<BAD-TYPE>` outcome is modelled. -/
def floatRun : List (Comp FClass) → Stage
  | [] => unmodelledStage "float"
  | t :: rest => do
    let c ← t
    match c with
    | .invalid => pure ErrorNum
    | .unknown => unmodelledStage "float"
    | _ => floatRun rest

def floatHelper : Builder := fun args =>
  if args.length < 2 then errArgCount
  else match mapFloatArgs args with
    | .error m => .error m
    | .ok none => errNum
    | .ok (some typed) => ok (floatRun typed)

/-- `unaryArithmaticHelperf` / `…fi`, `kfHumanizeFloat`: the argument is parsed at run time. -/
def unaryFloat : Builder := fun args =>
  match args with
  | [a] => ok (do
    let v ← a
    match classifyFloat v with
    | .invalid => pure ErrorNum
    | _ => unmodelledStage "float")
  | _ => errArgCount

/-- `maxPrecision` of `stdlib/util.go`: larger constant precisions are a compile error (`<VALUE>`). -/
def maxPrecision : Int := 1024

def kfRound : Builder := fun args =>
  if args.length < 1 || args.length > 2 then errArgCount
  else match evalArgInt args 1 0 with
    | .error m => .error m
    | .ok none => errConst
    | .ok (some precision) =>
      if precision > maxPrecision then errValue else
      match args with
      | a :: _ => ok (do
        let v ← a
        match classifyFloat v with
        | .invalid => pure ErrorNum
        | _ => unmodelledStage "float")
      | [] => errArgCount

/-- Run-time check of one float operand: continue only when it is certainly a number. -/
def needFloat (c : Comp FClass) (k : Stage) : Stage := do
  let x ← c
  match x with
  | .invalid => pure ErrorNum
  | .unknown => unmodelledStage "float"
  | _ => k

/-- `{percent val [decimals=1] [[min] max]}` -/
def kfPercent : Builder := fun args =>
  if args.length < 1 || args.length > 4 then errArgCount
  else match evalArgInt args 1 1 with
    | .error m => .error m
    | .ok none => errConst
    | .ok (some decimals) =>
      if decimals > maxPrecision then errValue else
      let lit : Comp FClass := .ret .valid
      let mm : Except String (Option (Comp FClass) × Option (Comp FClass)) :=
        match args with
        | [_, _, mx] =>
          match evalFloatStage mx with
          | .error m => .error m
          | .ok b => .ok (some lit, b)
        | [_, _, mn, mx] =>
          match evalFloatStage mn with
          | .error m => .error m
          | .ok a =>
            match evalFloatStage mx with
            | .error m => .error m
            | .ok b => .ok (a, b)
        | _ => .ok (some lit, some lit)
      match mm, args with
      | .error m, _ => .error m
      | .ok (some smin, some smax), a0 :: _ =>
        ok (needFloat smin (needFloat smax (do
          let v ← a0
          match classifyFloat v with
          | .invalid => pure ErrorNum
          | _ => unmodelledStage "float")))
      | .ok _, _ => errNum

def table : Table := [
  ("sumi", intHelper opSum), ("subi", intHelper opSub), ("multi", intHelper opMul),
  ("divi", intHelper opDiv), ("modi", intHelper opMod),
  ("maxi", intHelper opMax), ("mini", intHelper opMin),
  ("isint", kfIsInt), ("isnum", kfIsNum),
  ("bucket", kfBucket), ("bucketrange", kfBucketRange), ("clamp", kfClamp), ("expbucket", kfExpBucket),
  ("lt", cmpHelper fun a b => a.lt b), ("gt", cmpHelper fun a b => b.lt a),
  ("lte", cmpHelper fun a b => a.le b), ("gte", cmpHelper fun a b => b.le a),
  ("sumf", floatHelper), ("subf", floatHelper), ("multf", floatHelper), ("divf", floatHelper),
  ("pow", floatHelper),
  ("ceil", unaryFloat), ("floor", unaryFloat), ("log10", unaryFloat), ("log2", unaryFloat),
  ("ln", unaryFloat), ("sqrt", unaryFloat), ("round", kfRound),
  ("hf", unaryFloat), ("percent", kfPercent)]

end Rare.Expr.Funcs.Arith
