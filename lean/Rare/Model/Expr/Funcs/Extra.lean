import Rare.Model.Expr.Funcs.Draw
import Rare.Model.Expr.Funcs.Files
import Rare.Model.Expr.Funcs.Json
/-!
The helpers of `stdlib.StandardFunctions` whose behaviour depends on something outside the template
and the match context – the colour/unicode switches, `float64`, the file system, the gjson library –
collected behind one parameter record so that a registry can be built for any such world:
`stdTable ++ Funcs.Extra.table w`.
-/
namespace Rare.Expr.Funcs.Extra
open Rare Rare.Expr

/-- Everything `color`, `bar`, `load` and `json` consult besides their arguments. -/
structure World (α : Type) where
  /-- `float64` -/
  arith : C14.Arith α
  /-- `color.Enabled`, `termunicode.UnicodeEnabled` -/
  env : C14.Env
  /-- `stdlib.DisableLoad` -/
  loadDisabled : Bool
  /-- `os.Open` + `io.ReadAll`: `none` = either fails -/
  fs : Bytes → Option Bytes
  /-- `gjson.Get(json, path).String()` -/
  gjson : Bytes → Bytes → Comp Bytes

def table {α : Type} (w : World α) : Table :=
  Draw.table w.arith w.env ++ Files.table w.loadDisabled w.fs ++ Json.table w.gjson

def names : List String := ["color", "bar", "load", "json"]

end Rare.Expr.Funcs.Extra
