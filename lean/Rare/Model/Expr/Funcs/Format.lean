import Rare.Model.Expr.Build
import Rare.Model.C09Utf8
/-!
`funcsStrings.go` `kfFormat`: `{format <fmt> args…}` evaluates every argument to a STRING and calls
`fmt.Sprintf(format, printArgs...)`.  This file mirrors the part of Go's `fmt` package (go1.23
`fmt/print.go` `doPrintf`, `argNumber`, `parseArgNumber`, `parsenum`, `intFromArg`, `printArg`,
`fmtString`, `badVerb`; `fmt/format.go` `padString`, `pad`, `writePadding`, `truncateString`, `fmtS`,
`fmtQ`, `fmtSbx`; `strconv/quote.go` `appendQuotedWith`, `appendEscapedRune`, `CanBackquote`) that such
a call can reach when **every operand is a string**:

* literal text, `%%`, the flags `# 0 + - space`, width and precision (decimal, or `*` taking an operand –
  a string operand is never an int, so `*` always yields `%!(BADWIDTH)` / `%!(BADPREC)`), explicit
  argument indexes `[n]`, the verbs `s v q x X T` on strings, every other verb (`%!verb(string=…)`),
  `%!verb(MISSING)`, `%!verb(BADINDEX)`, `%!(NOVERB)`, `%!(EXTRA string=…, …)`;
* width and precision count RUNES the way `range s` / `utf8.RuneCountInString` do (`C20.decode1`: every
  byte that does not start a well-formed sequence is one rune of width 1);
* `%q`: `strconv.Quote` / `QuoteToASCII` (`+` flag) / back-quoted (`#` flag when `CanBackquote`).  The one
  thing outside this file is `unicode.IsPrint` for non-ASCII runes (tables): it is the parameter
  `isPrint`; for ASCII the model decides itself (`0x20 ≤ r < 0x7f`).

Partial Go operations are explicit: `a[argNum]` is `argAt` (`.error` = index out of range = a Go panic);
`format[i]` accesses are pattern matches on the rest of the format.  `Proofs/C08Format.lean` proves that
no `.error` is reachable (`sprintf_total`) – note that `fmt` itself recovers from panics of operand
methods, which strings do not have.
-/
namespace Rare.Expr.Funcs.Format
open Rare Rare.Expr

/-- Bytes of an ASCII literal (kernel-reducible). -/
def lit (s : String) : Bytes := s.toList.map (fun c => UInt8.ofNat c.toNat)

/-- `fmt.fmtFlags` + `wid` + `prec`.  Width and precision of a call whose operands are strings are never
    negative (a negative width can only come from an `int` operand of `*`). -/
structure Fl where
  widPresent : Bool := false
  precPresent : Bool := false
  minus : Bool := false
  plus : Bool := false
  sharp : Bool := false
  space : Bool := false
  zero : Bool := false
  plusV : Bool := false
  sharpV : Bool := false
  wid : Nat := 0
  prec : Nat := 0
  deriving Repr, DecidableEq

/-! ### runes -/

/-- `utf8.RuneCountInString` -/
def runeCount (s : Bytes) : Nat := (C09.decodeUtf8 s).length

/-- The first `n` runes of `s` as bytes: `for i := range s { n--; if n < 0 { return s[:i] } }`. -/
def truncRunes : Nat → Bytes → Bytes
  | 0, _ => []
  | _ + 1, [] => []
  | n + 1, b :: tl =>
    let w := (C20.decode1 (b :: tl)).2
    (b :: tl).take w ++ truncRunes n ((b :: tl).drop w)

/-- `f.truncateString(s)` -/
def truncateString (f : Fl) (s : Bytes) : Bytes :=
  if f.precPresent then truncRunes f.prec s else s

/-! ### padding -/

/-- `f.writePadding(n)` for `n > 0` (`n ≤ 0` writes nothing: `Int.toNat`). -/
def padding (f : Fl) (n : Int) : Bytes :=
  List.replicate n.toNat (if f.zero && !f.minus then 48 else 32)

/-- `f.padString(s)` / `f.pad(b)` -/
def padString (f : Fl) (s : Bytes) : Bytes :=
  if !f.widPresent || f.wid == 0 then s
  else
    let width : Int := (f.wid : Int) - (runeCount s : Int)
    if !f.minus then padding f width ++ s else s ++ padding f width

/-- `f.fmtS(s)` -/
def fmtS (f : Fl) (s : Bytes) : Bytes := padString f (truncateString f s)

/-! ### `%x` / `%X` -/

def hexDigit (upper : Bool) (n : Nat) : UInt8 :=
  if n < 10 then UInt8.ofNat (48 + n) else UInt8.ofNat ((if upper then 55 else 87) + n)

/-- the loop of `fmtSbx` over the first `length` bytes -/
def hexBody (f : Fl) (upper : Bool) : Bool → Bytes → Bytes
  | _, [] => []
  | first, c :: r =>
    (if f.space && !first then 32 :: (if f.sharp then [48, if upper then 88 else 120] else []) else []) ++
      [hexDigit upper (c.toNat / 16), hexDigit upper (c.toNat % 16)] ++ hexBody f upper false r

/-- `f.fmtSx(s, digits)` = `fmtSbx(s, nil, digits)` -/
def fmtSx (f : Fl) (upper : Bool) (s : Bytes) : Bytes :=
  let length := if f.precPresent && f.prec < s.length then f.prec else s.length
  let width := 2 * length
  if width > 0 then
    let width := if f.space then (if f.sharp then width * 2 else width) + (length - 1)
      else if f.sharp then width + 2 else width
    (if f.widPresent && f.wid > width && !f.minus then padding f ((f.wid : Int) - width) else []) ++
    (if f.sharp then [48, if upper then 88 else 120] else []) ++
    hexBody f upper true (s.take length) ++
    (if f.widPresent && f.wid > width && f.minus then padding f ((f.wid : Int) - width) else [])
  else if f.widPresent then padding f f.wid else []

/-! ### `%q` -/

def lowerhex (n : Nat) : UInt8 := hexDigit false (n % 16)

/-- `strconv.IsPrint` – ASCII part decided here, the rest is the parameter. -/
def isPrintRune (isPrint : Nat → Bool) (r : Nat) : Bool :=
  if r < 0x80 then decide (0x20 ≤ r ∧ r < 0x7f) else isPrint r

/-- `appendEscapedRune(buf, r, '"', ASCIIonly, false)` -/
def escapedRune (isPrint : Nat → Bool) (asciiOnly : Bool) (r : Nat) : Bytes :=
  if r = 34 ∨ r = 92 then [92, UInt8.ofNat r]
  else if asciiOnly && (decide (r < 0x80) && isPrintRune isPrint r) then [UInt8.ofNat r]
  else if !asciiOnly && isPrintRune isPrint r then C20.encodeRune r
  else if r = 7 then lit "\\a" else if r = 8 then lit "\\b" else if r = 12 then lit "\\f"
  else if r = 10 then lit "\\n" else if r = 13 then lit "\\r" else if r = 9 then lit "\\t"
  else if r = 11 then lit "\\v"
  else if r < 32 ∨ r = 0x7f then [92, 120, lowerhex (r / 16), lowerhex r]
  else
    -- `!utf8.ValidRune(r)` cannot happen for a decoded rune; kept as in the source
    let r := if (0xD800 ≤ r ∧ r < 0xE000) ∨ 0x110000 ≤ r then 0xFFFD else r
    if r < 0x10000 then [92, 117, lowerhex (r / 4096), lowerhex (r / 256), lowerhex (r / 16), lowerhex r]
    else [92, 85, lowerhex (r / 268435456), lowerhex (r / 16777216), lowerhex (r / 1048576), lowerhex (r / 65536),
      lowerhex (r / 4096), lowerhex (r / 256), lowerhex (r / 16), lowerhex r]

/-- the loop of `appendQuotedWith` (fuel = number of bytes) -/
def quoteBody (isPrint : Nat → Bool) (asciiOnly : Bool) : Nat → Bytes → Bytes
  | 0, _ => []
  | _ + 1, [] => []
  | f + 1, b :: tl =>
    let d := C20.decode1 (b :: tl)
    if d.2 = 1 ∧ d.1 = 0xFFFD then
      [92, 120, lowerhex (b.toNat / 16), lowerhex b.toNat] ++ quoteBody isPrint asciiOnly f tl
    else escapedRune isPrint asciiOnly d.1 ++ quoteBody isPrint asciiOnly f (tl.drop (d.2 - 1))

/-- `strconv.AppendQuote` / `AppendQuoteToASCII` -/
def quote (isPrint : Nat → Bool) (asciiOnly : Bool) (s : Bytes) : Bytes :=
  34 :: quoteBody isPrint asciiOnly s.length s ++ [34]

/-- `strconv.CanBackquote` -/
def canBackquote : Nat → Bytes → Bool
  | 0, _ => true
  | _ + 1, [] => true
  | f + 1, b :: tl =>
    let d := C20.decode1 (b :: tl)
    if d.2 > 1 then (if d.1 = 0xFEFF then false else canBackquote f (tl.drop (d.2 - 1)))
    else if d.1 = 0xFFFD then false
    else if (d.1 < 32 ∧ d.1 ≠ 9) ∨ d.1 = 96 ∨ d.1 = 0x7f then false
    else canBackquote f tl

/-- `f.fmtQ(s)` -/
def fmtQ (isPrint : Nat → Bool) (f : Fl) (s : Bytes) : Bytes :=
  let s := truncateString f s
  if f.sharp && canBackquote s.length s then padString f (96 :: s ++ [96])
  else padString f (quote isPrint f.plus s)

/-! ### `printArg` for a string operand -/

/-- `p.fmtString(v, verb)` with `badVerb` for the default case. -/
def fmtStringV (isPrint : Nat → Bool) (f : Fl) (v : Bytes) : Bytes :=
  if f.sharpV then fmtQ isPrint f v else fmtS f v

/-- `p.printArg(arg, verb)` for `arg` a string (`verb` a rune). -/
def printArg (isPrint : Nat → Bool) (f : Fl) (arg : Bytes) (verb : Nat) : Bytes :=
  if verb = 84 then fmtS f (lit "string")                     -- %T
  else if verb = 118 then fmtStringV isPrint f arg            -- %v
  else if verb = 115 then fmtS f arg                          -- %s
  else if verb = 120 then fmtSx f false arg                   -- %x
  else if verb = 88 then fmtSx f true arg                     -- %X
  else if verb = 113 then fmtQ isPrint f arg                  -- %q
  else -- `%p` (fmtPointer of a string) and every other verb: badVerb
    lit "%!" ++ C20.encodeRune verb ++ lit "(string=" ++ fmtStringV isPrint f arg ++ [41]

/-! ### numbers and argument indexes -/

/-- the loop of `parsenum`; `tooLarge(num)` is checked before every further digit -/
def parsenumGo : Bytes → Nat → Bool → Nat × Bool × Bytes
  | [], num, isnum => (num, isnum, [])
  | c :: r, num, isnum =>
    if 48 ≤ c ∧ c ≤ 57 then
      if num > 1000000 then (0, false, [])   -- overflow: `return 0, false, end`
      else parsenumGo r (num * 10 + (c.toNat - 48)) true
    else (num, isnum, c :: r)

/-- `parsenum(s, start, end)` on `s[start:end]`: value, present, rest (inside `s[start:end]`). -/
def parsenum (s : Bytes) : Nat × Bool × Bytes := parsenumGo s 0 false

/-- Result of `p.argNumber`. -/
structure ArgNum where
  argNum : Nat
  rest : Bytes
  found : Bool
  reordered : Bool
  good : Bool

/-- `p.argNumber(argNum, format, i, numArgs)` with `parseArgNumber` inlined; `fmt = format[i:]`. -/
def argNumber (argNum : Nat) (fmt : Bytes) (numArgs : Nat) (reordered good : Bool) : ArgNum :=
  match fmt with
  | 91 :: after =>                       -- '['
    if fmt.length < 3 then ⟨argNum, after, false, true, false⟩
    else
      let inside := after.takeWhile (· != 93)
      let tail := after.dropWhile (· != 93)
      match tail with
      | [] => ⟨argNum, after, false, true, false⟩            -- no closing bracket: consume `[` only
      | _ :: beyond =>
        let p := parsenum inside
        if !p.2.1 || !p.2.2.isEmpty then ⟨argNum, beyond, false, true, false⟩
        else
          let index : Int := (p.1 : Int) - 1
          if 0 ≤ index ∧ index < numArgs then ⟨index.toNat, beyond, true, true, good⟩
          else ⟨argNum, beyond, true, true, false⟩
  | _ => ⟨argNum, fmt, false, reordered, good⟩

/-- `a[argNum]`: a Go index expression. -/
def argAt (a : List Bytes) (i : Nat) : Except String Bytes :=
  match a[i]? with
  | some v => .ok v
  | none => .error "index out of range"

/-! ### one verb -/

/-- the `simpleFormat` flag loop: flags, and where it stopped -/
def flagLoop : Bytes → Fl → Fl × Bytes
  | [], f => (f, [])
  | c :: r, f =>
    if c = 35 then flagLoop r { f with sharp := true }
    else if c = 48 then flagLoop r { f with zero := true }
    else if c = 43 then flagLoop r { f with plus := true }
    else if c = 45 then flagLoop r { f with minus := true }
    else if c = 32 then flagLoop r { f with space := true }
    else (f, c :: r)

/-- State of `doPrintf` between verbs. -/
structure St where
  out : Bytes := []
  argNum : Nat := 0
  reordered : Bool := false
  deriving Repr

/-- `%v` / `%w`: the sharp and plus flags move to sharpV / plusV. -/
def vFlags (f : Fl) : Fl := { f with sharpV := f.sharp, sharp := false, plusV := f.plus, plus := false }

/-- The verb switch at the end of an iteration of `formatLoop`. -/
def verbSwitch (isPrint : Nat → Bool) (a : List Bytes) (f : Fl) (good : Bool) (verb : Nat) (st : St) :
    Except String St :=
  if verb = 37 then .ok { st with out := st.out ++ [37] }
  else if !good then .ok { st with out := st.out ++ lit "%!" ++ C20.encodeRune verb ++ lit "(BADINDEX)" }
  else if st.argNum ≥ a.length then
    .ok { st with out := st.out ++ lit "%!" ++ C20.encodeRune verb ++ lit "(MISSING)" }
  else
    match argAt a st.argNum with
    | .error e => .error e
    | .ok arg =>
      let f := if verb = 119 ∨ verb = 118 then vFlags f else f
      .ok { st with out := st.out ++ printArg isPrint f arg verb, argNum := st.argNum + 1 }

/-- The state inside one iteration of `formatLoop` (between the parts of a verb). -/
structure Mid where
  f : Fl
  out : Bytes
  argNum : Nat
  rest : Bytes
  afterIndex : Bool
  good : Bool
  reordered : Bool

/-- `intFromArg(a, argNum)` for string operands: the operand is never an int (`num = 0`, `isInt = false`);
    it is consumed when there is one. -/
def intFromArgNext (a : List Bytes) (argNum : Nat) : Nat := if argNum < a.length then argNum + 1 else argNum

/-- "Do we have width?" -/
def widthPart (a : List Bytes) (f : Fl) (out : Bytes) (n : ArgNum) : Mid :=
  match n.rest with
  | 42 :: r =>   -- '*'
    ⟨f, out ++ lit "%!(BADWIDTH)", intFromArgNext a n.argNum, r, false, n.good, n.reordered⟩
  | _ =>
    let p := parsenum n.rest
    ⟨{ f with wid := p.1, widPresent := p.2.1 }, out, n.argNum, p.2.2, n.found,
      (if n.found && p.2.1 then false else n.good), n.reordered⟩

/-- "Do we have precision?" (`i+1 < end && format[i] == '.'`) -/
def precPart (a : List Bytes) (m : Mid) : Mid :=
  match m.rest with
  | 46 :: r =>
    if r.isEmpty then m
    else
      let n2 := argNumber m.argNum r a.length m.reordered (if m.afterIndex then false else m.good)
      match n2.rest with
      | 42 :: r2 =>
        ⟨{ m.f with prec := 0, precPresent := false }, m.out ++ lit "%!(BADPREC)", intFromArgNext a n2.argNum, r2,
          false, n2.good, n2.reordered⟩
      | _ =>
        let p := parsenum n2.rest
        ⟨{ m.f with prec := (if p.2.1 then p.1 else 0), precPresent := true }, m.out, n2.argNum, p.2.2, n2.found,
          n2.good, n2.reordered⟩
  | _ => m

/-- `if !afterIndex { argNum, i, afterIndex = p.argNumber(…) }` -/
def indexPart (a : List Bytes) (m : Mid) : Mid :=
  if !m.afterIndex then
    let n3 := argNumber m.argNum m.rest a.length m.reordered m.good
    { m with argNum := n3.argNum, rest := n3.rest, afterIndex := n3.found, good := n3.good, reordered := n3.reordered }
  else m

/-- The verb itself: `%!(NOVERB)` at the end of the format, else decode the verb rune and switch. -/
def verbPart (isPrint : Nat → Bool) (a : List Bytes) (m : Mid) : Except String (St × Bytes × Bool) :=
  match m.rest with
  | [] => .ok ({ out := m.out ++ lit "%!(NOVERB)", argNum := m.argNum, reordered := m.reordered }, [], true)
  | c :: r =>
    let d := if c.toNat < 0x80 then (c.toNat, 1) else C20.decode1 (c :: r)
    match verbSwitch isPrint a m.f m.good d.1 { out := m.out, argNum := m.argNum, reordered := m.reordered } with
    | .ok st' => .ok (st', r.drop (d.2 - 1), false)
    | .error e => .error e

/-- The general path of an iteration (everything behind the flags). -/
def slowPath (isPrint : Nat → Bool) (a : List Bytes) (f : Fl) (fmt1 : Bytes) (st : St) :
    Except String (St × Bytes × Bool) :=
  verbPart isPrint a
    (indexPart a (precPart a (widthPart a f st.out (argNumber st.argNum fmt1 a.length st.reordered true))))

/-- One iteration of `formatLoop` after the `%`: `fmt` = the format behind the `%`.
    Answers the new state, the rest of the format, and whether the loop ends (`%!(NOVERB)`). -/
def verbStep (isPrint : Nat → Bool) (a : List Bytes) (fmt : Bytes) (st : St) :
    Except String (St × Bytes × Bool) :=
  let fl := flagLoop fmt {}
  -- fast path: an ASCII lower-case verb right behind the flags and an operand left
  match fl.2 with
  | c :: r =>
    if 97 ≤ c ∧ c ≤ 122 ∧ st.argNum < a.length then
      match argAt a st.argNum with
      | .error e => .error e
      | .ok arg =>
        let f := if c = 119 ∨ c = 118 then vFlags fl.1 else fl.1
        .ok ({ st with out := st.out ++ printArg isPrint f arg c.toNat, argNum := st.argNum + 1 }, r, false)
    else slowPath isPrint a fl.1 fl.2 st
  | [] => slowPath isPrint a fl.1 fl.2 st

/-! ### the loop -/

/-- `formatLoop`; the fuel is the length of the format + 1 (every iteration consumes at least a byte). -/
def formatLoop (isPrint : Nat → Bool) (a : List Bytes) : Nat → Bytes → St → Except String St
  | 0, _, _ => .error "fmt: out of fuel"
  | _ + 1, [], st => .ok st
  | fuel + 1, c :: r, st =>
    if c ≠ 37 then formatLoop isPrint a fuel r { st with out := st.out ++ [c] }
    else
      match verbStep isPrint a r st with
      | .error m => .error m
      | .ok (st', rest, stop) => if stop then .ok st' else formatLoop isPrint a fuel rest st'

/-- `%!(EXTRA string=v, string=v)` -/
def extras : List Bytes → Bytes
  | [] => []
  | [v] => lit "string=" ++ v
  | v :: r => lit "string=" ++ v ++ lit ", " ++ extras r

/-- `fmt.Sprintf(format, a...)` for string operands. -/
def sprintf (isPrint : Nat → Bool) (format : Bytes) (a : List Bytes) : Except String Bytes :=
  match formatLoop isPrint a (format.length + 1) format {} with
  | .error m => .error m
  | .ok st =>
    if !st.reordered && st.argNum < a.length then
      .ok (st.out ++ lit "%!(EXTRA " ++ extras (a.drop st.argNum) ++ [41])
    else .ok st.out

/-! ### the builder -/

/-- `for idx, stage := range args[1:] { printArgs[idx] = stage(context) }` -/
def evalAll : List Stage → Comp (List Bytes)
  | [] => .ret []
  | s :: r => do
    let v ← s
    let vs ← evalAll r
    pure (v :: vs)

/-- `{format <fmt> args…}` -/
def kfFormat (isPrint : Nat → Bool) : Builder := fun args =>
  match args with
  | [] => errArgCount
  | a0 :: rest => ok (do
    let format ← a0
    let vs ← evalAll rest
    match sprintf isPrint format vs with
    | .ok v => pure v
    | .error m => .panic m)

def table (isPrint : Nat → Bool) : Table := [("format", kfFormat isPrint)]

def names : List String := ["format"]

/-- What the correspondence driver registers: the same stage evaluated for the two extreme oracles
    (every / no non-ASCII rune printable).  The two answers differ exactly when `strconv.Quote` consulted
    `unicode.IsPrint` for a non-ASCII rune (at the first such rune one writes the rune, the other a
    backslash), and then the driver declines. -/
def kfFormatDrv : Builder := fun args =>
  match args with
  | [] => errArgCount
  | a0 :: rest => ok (do
    let format ← a0
    let vs ← evalAll rest
    match sprintf (fun _ => true) format vs, sprintf (fun _ => false) format vs with
    | .ok v, .ok v' => if v = v' then pure v else .panic "unmodelled:format-isprint"
    | .error m, _ => .panic m
    | _, .error m => .panic m)

end Rare.Expr.Funcs.Format
