import Rare.Model.Expr.Build
/-!
`funcsLookups.go` (`lookup`, `haskey`; `load` touches the file system and stays unmodelled),
`drawing.go` `kfRepeat`, and `funcsPath.go` (`basename`, `dirname`, `extname`).
-/
namespace Rare.Expr.Funcs.Misc
open Rare.Expr

/-! ### buildLookupTable -/

/-- `bufio.MaxScanTokenSize`: a line with this many bytes (or more) before its `\n` does not fit
    the scanner's buffer; `Scan()` then returns false (`ErrTooLong`, not reported by
    `buildLookupTable`) and that line and everything after it are silently dropped. -/
def maxScanTokenSize : Nat := 65536

/-- `bufio.ScanLines` over the whole text: split at `\n`; a final unterminated non-empty line
    counts, an empty remainder does not.  `cur` is the current line reversed, `n` its length. -/
def splitLinesGo : Bytes → Bytes → Nat → List Bytes
  | [], cur, _ => if cur.isEmpty then [] else [cur.reverse]
  | 10 :: r, cur, _ => cur.reverse :: splitLinesGo r [] 0
  | c :: r, cur, n => if n + 1 ≥ maxScanTokenSize then [] else splitLinesGo r (c :: cur) (n + 1)

/-- `dropCR` of bufio: one trailing `\r` is removed from every line. -/
def dropCR (l : Bytes) : Bytes :=
  match l.getLast? with
  | some 13 => l.dropLast
  | _ => l

/-- Length of the white-space rune (`unicode.IsSpace`) encoded at the head of `s`, 0 when there is
    none: the six ASCII spaces and the UTF-8 encodings of U+0085, U+00A0, U+1680, U+2000–U+200A,
    U+2028, U+2029, U+202F, U+205F, U+3000.  A lead byte is never a continuation byte, so the
    decoder of `strings.FieldsFunc` always starts a rune at such a byte and a byte-wise scan sees
    exactly the runes it sees (invalid bytes are one-byte non-space runes). -/
def spaceLen (s : Bytes) : Nat :=
  match s with
  | [] => 0
  | b :: _ =>
    if isAsciiSpace b then 1
    else match s with
      | 0xC2 :: 0x85 :: _ => 2
      | 0xC2 :: 0xA0 :: _ => 2
      | 0xE1 :: 0x9A :: 0x80 :: _ => 3
      | 0xE2 :: 0x80 :: x :: _ =>
        if (0x80 ≤ x && x ≤ 0x8A) || x == 0xA8 || x == 0xA9 || x == 0xAF then 3 else 0
      | 0xE2 :: 0x81 :: 0x9F :: _ => 3
      | 0xE3 :: 0x80 :: 0x80 :: _ => 3
      | _ => 0

/-- `strings.Fields`: maximal runs of non-space runes.  `cur` is the current field reversed,
    `skip` the number of bytes of a multi-byte space still to be passed over. -/
def fieldsGo : Bytes → Bytes → Nat → List Bytes
  | [], cur, _ => if cur.isEmpty then [] else [cur.reverse]
  | _ :: r, cur, skip + 1 => fieldsGo r cur skip
  | c :: r, cur, 0 =>
    match spaceLen (c :: r) with
    | 0 => fieldsGo r (c :: cur) 0
    | k + 1 => if cur.isEmpty then fieldsGo r [] k else cur.reverse :: fieldsGo r [] k

/-- One `scanner.Scan()` round of `buildLookupTable`: the table after the line. -/
def lookupStep (commentPrefix : Bytes) (tbl : List (Bytes × Bytes)) (line : Bytes) : List (Bytes × Bytes) :=
  if !commentPrefix.isEmpty && commentPrefix.isPrefixOf line then tbl
  else match fieldsGo line [] 0 with
    | [k] => tbl ++ [(k, [])]
    | [k, v] => tbl ++ [(k, v)]
    | _ => tbl

/-- `buildLookupTable` as an association list in insertion order (later entries win). -/
def buildLookupTable (content commentPrefix : Bytes) : List (Bytes × Bytes) :=
  ((splitLinesGo content [] 0).map dropCR).foldl (lookupStep commentPrefix) []

/-- `lookup[key]` with "later lines win". -/
def tableGet (tbl : List (Bytes × Bytes)) (key : Bytes) : Option Bytes :=
  (tbl.reverse.find? (·.1 == key)).map (·.2)

def lookupBuilder (render : Option Bytes → Bytes) : Builder := fun args =>
  if args.length < 2 || args.length > 3 then errArgCount
  else match args with
    | a0 :: a1 :: _ =>
      match a1.probe with
      | .error m => .error m
      | .ok (_, false) => errConst
      | .ok (content, true) =>
        match evalStageIndexOrDefault args 2 [] with
        | .error m => .error m
        | .ok commentPrefix =>
          let tbl := buildLookupTable content commentPrefix
          ok (do let key ← a0; pure (render (tableGet tbl key)))
    | _ => errArgCount

def kfLookupKey : Builder := lookupBuilder fun r => r.getD []
def kfHasKey : Builder := lookupBuilder fun r => truthyStr r.isSome

/-! ### repeat -/

def repeatB (s : Bytes) : Nat → Bytes
  | 0 => []
  | n + 1 => s ++ repeatB s n

/-- `maxRepeatBytes` of `stdlib/util.go`: `{repeat}` refuses to produce more than 1 MiB. -/
def maxRepeatBytes : Int := 1048576

def kfRepeat : Builder := fun args =>
  match args with
  | [a0, a1] =>
    match a0.probe with
    | .error m => .error m
    | .ok (_, false) => errConst
    | .ok (char, true) => ok (do
      let c ← a1
      match atoi c with
      | none => pure ErrorNum
      | some count =>
        if count < 0 || (char.length > 0 && count > Int.tdiv maxRepeatBytes char.length) then pure ErrorValue
        else if char.isEmpty then pure []      -- strings.Repeat("", n) = "" (and no 10^18-step loop here)
        else pure (repeatB char count.toNat))
  | _ => errArgCount

/-! ### path helpers (`path/filepath` on a `/`-separated system) -/

def stripTrailingSlashes (p : Bytes) : Bytes := (p.reverse.dropWhile (· == 47)).reverse

/-- The part after the last `/` (everything when there is none). -/
def lastElem (p : Bytes) : Bytes := (p.reverse.takeWhile (· != 47)).reverse

/-- `filepath.Base` -/
def pathBase (p : Bytes) : Bytes :=
  if p.isEmpty then [46]
  else
    let q := lastElem (stripTrailingSlashes p)
    if q.isEmpty then [47] else q

/-- `filepath.Ext`: from the last `.` of the last element. -/
def extLoop : Bytes → Bytes → Bytes
  | [], _ => []
  | c :: r, acc =>
    if c == 47 then []
    else if c == 46 then c :: acc
    else extLoop r (c :: acc)

def pathExt (p : Bytes) : Bytes := extLoop p.reverse []

def splitSlash : Bytes → Bytes → List Bytes
  | [], cur => [cur.reverse]
  | 47 :: r, cur => cur.reverse :: splitSlash r []
  | c :: r, cur => splitSlash r (c :: cur)

/-- The component loop of `filepath.Clean`: empty and `.` elements vanish; `..` removes the last
    kept element when there is one that is not itself `..`, is dropped at the root, and is kept
    otherwise.  (`out` is the list of kept elements, last first.) -/
def cleanLoop (rooted : Bool) : List Bytes → List Bytes → List Bytes
  | [], out => out
  | e :: rest, out =>
    if e.isEmpty || e == [46] then cleanLoop rooted rest out
    else if e == [46, 46] then
      match out with
      | top :: below =>
        if top == [46, 46] then cleanLoop rooted rest (e :: out)   -- only in the unrooted case
        else cleanLoop rooted rest below
      | [] => if rooted then cleanLoop rooted rest [] else cleanLoop rooted rest [e]
    else cleanLoop rooted rest (e :: out)

def joinSlash : List Bytes → Bytes
  | [] => []
  | [e] => e
  | e :: rest => e ++ [47] ++ joinSlash rest

/-- `filepath.Clean` on a `/`-separated system, element-wise (the Go code works on bytes with a
    write index; the kept elements are the same). -/
def pathClean (p : Bytes) : Bytes :=
  if p.isEmpty then [46]
  else
    let rooted := p.head? == some 47
    let out := (cleanLoop rooted (splitSlash p []) []).reverse
    if rooted then 47 :: joinSlash out
    else if out.isEmpty then [46] else joinSlash out

/-- `filepath.Dir` = `Clean(path[:lastSlash+1])`. -/
def pathDir (p : Bytes) : Bytes :=
  pathClean (p.reverse.dropWhile (· != 47)).reverse

def pathHelper (f : Bytes → Bytes) : Builder := fun args =>
  match args with
  | [a] => ok (do let v ← a; pure (f v))
  | _ => errArgCount

def table : Table := [
  ("lookup", kfLookupKey), ("haskey", kfHasKey), ("repeat", kfRepeat),
  ("basename", pathHelper pathBase),
  ("dirname", pathHelper pathDir),
  ("extname", pathHelper pathExt)]

end Rare.Expr.Funcs.Misc
