import Rare.Model.Expr.Build
/-!
`funcsLookups.go` (`lookup`, `haskey`; `load` touches the file system and stays unmodelled),
`drawing.go` `kfRepeat`, and `funcsPath.go` (`basename`, `dirname`, `extname`).
-/
namespace Rare.Expr.Funcs.Misc
open Rare.Expr

/-! ### buildLookupTable -/

/-- Split at `\n` the way `bufio.ScanLines` does: a final unterminated line counts, an empty
    remainder after the last `\n` does not; one trailing `\r` is dropped from every line. -/
def splitLinesGo : Bytes → Bytes → List Bytes
  | [], cur => if cur.isEmpty then [] else [cur]
  | 10 :: r, cur => cur :: splitLinesGo r []
  | c :: r, cur => splitLinesGo r (cur ++ [c])

def dropCR (l : Bytes) : Bytes :=
  match l.getLast? with
  | some 13 => l.dropLast
  | _ => l

/-- `strings.Fields` for input without multi-byte white space (checked by the caller). -/
def fieldsAscii : Bytes → Bytes → List Bytes
  | [], cur => if cur.isEmpty then [] else [cur]
  | c :: r, cur =>
    if isAsciiSpace c then (if cur.isEmpty then fieldsAscii r [] else cur :: fieldsAscii r [])
    else fieldsAscii r (cur ++ [c])

/-- One `scanner.Scan()` round of `buildLookupTable`: the table after the line. -/
def lookupStep (commentPrefix : Bytes) (tbl : List (Bytes × Bytes)) (line : Bytes) : List (Bytes × Bytes) :=
  if !commentPrefix.isEmpty && commentPrefix.isPrefixOf line then tbl
  else match fieldsAscii line [] with
    | [k] => tbl ++ [(k, [])]
    | [k, v] => tbl ++ [(k, v)]
    | _ => tbl

/-- `buildLookupTable` as an association list in insertion order (later entries win). -/
def buildLookupTable (content commentPrefix : Bytes) : List (Bytes × Bytes) :=
  ((splitLinesGo content []).map dropCR).foldl (lookupStep commentPrefix) []

/-- `lookup[key]` with "later lines win". -/
def tableGet (tbl : List (Bytes × Bytes)) (key : Bytes) : Option Bytes :=
  (tbl.reverse.find? (·.1 == key)).map (·.2)

/-- Lead bytes of the UTF-8 encodings of Unicode white space (`strings.Fields` would split there),
    and lines too long for `bufio.Scanner`'s default buffer. -/
def lookupModelled (content : Bytes) : Bool :=
  content.all (fun b => b != 0xC2 && b != 0xE1 && b != 0xE2 && b != 0xE3) && content.length < 65000

def lookupBuilder (render : Option Bytes → Bytes) : Builder := fun args =>
  if args.length < 2 || args.length > 3 then errArgCount
  else match args with
    | a0 :: a1 :: _ =>
      match a1.probe with
      | .error m => .error m
      | .ok (_, false) => errConst
      | .ok (content, true) =>
        match evalStageIndexOrDefault args 2 [] with
        | .error m => .error m
        | .ok commentPrefix =>
          if !lookupModelled content then .error "unmodelled:lookup-unicode-space"
          else
            let tbl := buildLookupTable content commentPrefix
            ok (do let key ← a0; pure (render (tableGet tbl key)))
    | _ => errArgCount

def kfLookupKey : Builder := lookupBuilder fun r => r.getD []
def kfHasKey : Builder := lookupBuilder fun r => truthyStr r.isSome

/-! ### repeat -/

def repeatB (s : Bytes) : Nat → Bytes
  | 0 => []
  | n + 1 => s ++ repeatB s n

def kfRepeat : Builder := fun args =>
  match args with
  | [a0, a1] =>
    match a0.probe with
    | .error m => .error m
    | .ok (_, false) => errConst
    | .ok (char, true) => ok (do
      let c ← a1
      match atoi c with
      | none => pure ErrorNum
      | some count =>
        if count < 0 then pure ErrorValue
        else if count * char.length > 1000000 then .panic "unmodelled:repeat-huge"
        else pure (repeatB char count.toNat))
  | _ => errArgCount

/-! ### path helpers (`path/filepath` on a `/`-separated system) -/

def stripTrailingSlashes (p : Bytes) : Bytes := (p.reverse.dropWhile (· == 47)).reverse

/-- The part after the last `/` (everything when there is none). -/
def lastElem (p : Bytes) : Bytes := (p.reverse.takeWhile (· != 47)).reverse

/-- `filepath.Base` -/
def pathBase (p : Bytes) : Bytes :=
  if p.isEmpty then [46]
  else
    let q := lastElem (stripTrailingSlashes p)
    if q.isEmpty then [47] else q

/-- `filepath.Ext`: from the last `.` of the last element. -/
def extLoop : Bytes → Bytes → Bytes
  | [], _ => []
  | c :: r, acc =>
    if c == 47 then []
    else if c == 46 then c :: acc
    else extLoop r (c :: acc)

def pathExt (p : Bytes) : Bytes := extLoop p.reverse []

def splitSlash : Bytes → Bytes → List Bytes
  | [], cur => [cur]
  | 47 :: r, cur => cur :: splitSlash r []
  | c :: r, cur => splitSlash r (cur ++ [c])

/-- `filepath.Dir` = `Clean(path[:lastSlash+1])`, modelled when that prefix is already clean apart
    from its trailing slash (no empty, `.` or `..` element); `none` otherwise. -/
def pathDir (p : Bytes) : Option Bytes :=
  if !p.contains 47 then some [46]
  else
    let d := (p.reverse.dropWhile (· != 47)).reverse        -- path[:i+1], ends in '/'
    let body := d.dropLast                                  -- without that final slash
    if body.isEmpty then some [47]                          -- "/x" → "/"
    else
      let elems := splitSlash body []
      let elems' := match elems with
        | [] :: r => r            -- leading "/" (rooted path)
        | r => r
      if elems'.all (fun e => !e.isEmpty && e != [46] && e != [46, 46]) then some body else none

def pathHelper (f : Bytes → Option Bytes) : Builder := fun args =>
  match args with
  | [a] => ok (do
    let v ← a
    match f v with
    | some r => pure r
    | none => .panic "unmodelled:path-clean")
  | _ => errArgCount

def table : Table := [
  ("lookup", kfLookupKey), ("haskey", kfHasKey), ("repeat", kfRepeat),
  ("basename", pathHelper fun p => some (pathBase p)),
  ("dirname", pathHelper pathDir),
  ("extname", pathHelper fun p => some (pathExt p))]

end Rare.Expr.Funcs.Misc
