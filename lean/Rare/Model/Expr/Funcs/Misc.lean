import Rare.Model.Expr.Build
namespace Rare.Expr.Funcs.Misc
open Rare.Expr

def table : Table := []

end Rare.Expr.Funcs.Misc
