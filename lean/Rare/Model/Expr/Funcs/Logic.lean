import Rare.Model.Expr.Build
/-! `funcsComparators.go` (string/logic part) and `kfCoalesce`. -/
namespace Rare.Expr.Funcs.Logic
open Rare.Expr

def kfCoalesce : Builder := fun args =>
  let rec go : List Stage → Stage
    | [] => .ret []
    | a :: rest => do
      let v ← a
      if v ≠ [] then pure v else go rest
  ok (go args)

def stringComparator (eq : Bytes → Bytes → Bytes) : Builder := fun args =>
  match args with
  | a0 :: a1 :: rest =>
    let rec go (val : Bytes) : List Stage → Stage
      | [] => .ret val
      | a :: r => do
        let v ← a
        go (eq val v) r
    ok (do let v ← a0; go v (a1 :: rest))
  | _ => errArgCount

def kfNot : Builder := fun args =>
  match args with
  | [a] => ok (do let v ← a; pure (if truthy v then FalsyVal else TruthyVal))
  | _ => errArgCount

def kfAnd : Builder := fun args =>
  let rec go : List Stage → Stage
    | [] => .ret TruthyVal
    | a :: rest => do
      let v ← a
      if v = FalsyVal then pure FalsyVal else go rest
  ok (go args)

def kfOr : Builder := fun args =>
  let rec go : List Stage → Stage
    | [] => .ret FalsyVal
    | a :: rest => do
      let v ← a
      if v ≠ FalsyVal then pure TruthyVal else go rest
  ok (go args)

def kfIf : Builder := fun args =>
  match args with
  | [c, t] => ok (do let v ← c; if truthy v then t else pure FalsyVal)
  | [c, t, e] => ok (do let v ← c; if truthy v then t else e)
  | _ => errArgCount

def kfUnless : Builder := fun args =>
  match args with
  | [c, t] => ok (do let v ← c; if !truthy v then t else pure [])
  | _ => errArgCount

def kfSwitch : Builder := fun args =>
  let rec go : List Stage → Stage
    | [] => .ret []
    | [d] => d
    | c :: v :: rest => do
      let x ← c
      if truthy x then v else go rest
  if args.length ≤ 1 then errArgCount else ok (go args)

def table : Table := [
  ("coalesce", kfCoalesce),
  ("eq", stringComparator fun a b => if a = b then TruthyVal else FalsyVal),
  ("neq", stringComparator fun a b => if a ≠ b then TruthyVal else FalsyVal),
  ("not", kfNot), ("and", kfAnd), ("or", kfOr),
  ("if", kfIf), ("unless", kfUnless), ("switch", kfSwitch)]

end Rare.Expr.Funcs.Logic
