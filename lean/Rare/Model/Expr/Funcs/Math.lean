import Rare.Model.Expr.Build
import Rare.Model.C19Float
/-! `funcsMath.go`: `{! formula}` (kfMath) on top of the stdmath model (`Rare/Model/C19.lean`).

The builder is written once, generically in a `MathInst` (arithmetic, conversion of capture text,
rendering of the result, what to do with a literal spelling outside the modelled grammar), so that
its panic-freedom can be proved for every instance whose parts do not panic
(`Rare/Proofs/C08Math.lean`).  The registered builder is the float64 instance, whose rendering
answers `unmodelled` for values that depend on libm functions. -/
namespace Rare.Expr.Funcs.Math
open Rare.Expr

structure MathInst (V : Type) where
  arith : C19.Arith V
  /-- `keyBuilderContextWrapper`: a look-up parsed with `strconv.ParseFloat`; value and 1 if the
      text did not parse (it then reads as 0). -/
  conv : Bytes → V × Nat
  /-- `strconv.FormatFloat(val, 'f', -1, 64)` -/
  render : V → Stage
  /-- the formula contains a literal spelling outside the modelled grammar (`1_000`, `0x1p4`) -/
  unmodelledLit : String → Built

/-- `expr.Eval(mathCtx)`: value and number of look-ups that did not parse. -/
def evalC {V : Type} (I : MathInst V) : C19.Expr V → Comp (V × Nat)
  | .val v => pure (v, 0)
  | .named n => do let s ← Comp.key n; pure (I.conv s)
  | .idx i => do let s ← Comp.match_ i; pure (I.conv s)
  | .un m e => do
    let (v, k) ← evalC I e
    pure (I.arith.un m v, k)
  | .bin op l r => do
    let (a, k1) ← evalC I l
    let (b, k2) ← evalC I r
    pure (I.arith.bin op a b, k1 + k2)

/-- Collapse all arguments to a single formula text; `none` = some argument is not static. -/
def collapse : List Stage → Bytes → Except String (Option Bytes)
  | [], acc => .ok (some acc)
  | a :: rest, acc =>
    match a.probe with
    | .error m => .error m
    | .ok (v, true) => collapse rest (acc ++ v)
    | .ok (_, false) => .ok none

def kfMathWith {V : Type} (I : MathInst V) : Builder := fun args =>
  match collapse args [] with
  | .error m => .error m
  | .ok none => errConst
  | .ok (some src) =>
    match C19.compile I.arith src with
    | .error (.unmodelled w) => .ok (I.unmodelledLit w)
    | .error (.panic m) => .error m
    | .error .fuel => .error "fuel"
    | .error _ => errParsing
    | .ok (_, e) =>
      ok (do
        let (v, errs) ← evalC I e
        if errs > 0 then pure ErrorNum else I.render v)

/-- The float64 instance used by the drivers. -/
def floatInst : MathInst C19.F.FV where
  arith := C19.F.arith
  conv := fun s =>
    match C19.F.parseFloatText s with
    | none => (some 0.0, 1)
    | some v => (v, 0)
  render := fun v =>
    match v with
    | none => Comp.panic "unmodelled:!inexact"
    | some x => pure (C19.F.formatF x)
  unmodelledLit := fun w => ⟨some (.panic ("unmodelled:!" ++ w)), none⟩

def kfMath : Builder := kfMathWith floatInst

def table : Table := [("!", kfMath)]

end Rare.Expr.Funcs.Math
