import Rare.Model.Expr.Build
import Rare.Model.C19Float
/-! `funcsMath.go`: `{! formula}` (kfMath) on top of the stdmath model (`Rare/Model/C19.lean`),
    float64 instance.  Values that depend on libm functions make the stage answer `unmodelled`. -/
namespace Rare.Expr.Funcs.Math
open Rare.Expr

/-- `keyBuilderContextWrapper`: a look-up parsed with `strconv.ParseFloat`; a failure counts as
    an error and reads as 0. -/
def conv (s : Bytes) : C19.F.FV × Nat :=
  match C19.F.parseFloatText s with
  | none => (some 0.0, 1)
  | some v => (v, 0)

/-- `expr.Eval(mathCtx)`: value and number of look-ups that did not parse. -/
def evalC : C19.Expr C19.F.FV → Comp (C19.F.FV × Nat)
  | .val v => pure (v, 0)
  | .named n => do let s ← Comp.key n; pure (conv s)
  | .idx i => do let s ← Comp.match_ i; pure (conv s)
  | .un m e => do
    let (v, k) ← evalC e
    pure (C19.F.arith.un m v, k)
  | .bin op l r => do
    let (a, k1) ← evalC l
    let (b, k2) ← evalC r
    pure (C19.F.arith.bin op a b, k1 + k2)

/-- Collapse all arguments to a single formula text; `none` = some argument is not static. -/
def collapse : List Stage → Bytes → Except String (Option Bytes)
  | [], acc => .ok (some acc)
  | a :: rest, acc =>
    match a.probe with
    | .error m => .error m
    | .ok (v, true) => collapse rest (acc ++ v)
    | .ok (_, false) => .ok none

def kfMath : Builder := fun args =>
  match collapse args [] with
  | .error m => .error m
  | .ok none => errConst
  | .ok (some src) =>
    match C19.compile C19.F.arith src with
    | .error (.unmodelled w) => .ok ⟨some (.panic ("unmodelled:!" ++ w)), none⟩
    | .error (.panic m) => .error m
    | .error .fuel => .error "fuel"
    | .error _ => errParsing
    | .ok (_, e) =>
      ok (do
        let (v, errs) ← evalC e
        if errs > 0 then pure ErrorNum
        else match v with
          | none => Comp.panic "unmodelled:!inexact"
          | some x => pure (C19.F.formatF x))

def table : Table := [("!", kfMath)]

end Rare.Expr.Funcs.Math
