import Rare.Model.Expr.Build
namespace Rare.Expr.Funcs.Math
open Rare.Expr

def table : Table := []

end Rare.Expr.Funcs.Math
