import Rare.Model.Expr.Build
import Rare.Gen.Tables
/-!
`pkg/expressions/stdlib/funcsRange.go` (array helpers), `pkg/stringSplitter/splitter.go`,
`kfJoin` of `funcsStrings.go` (`{$ ..}` / `{@ ..}`).

Modelled at /repo after the `fix:` commits for F6–F10 (+ three more found while modelling, see
known_findings/C17.json): the splitter advances by `len(Delim)`, `@slice` clamps a negative start and
compares `i-realStart < sliceLen`, `subContext.GetMatch` answers "" for negative indices
(`Comp.withSub`), `@for` initialises its pooled sub-context and separates by iteration index, `@range`
stops before its counter overflows and after `MAX_ITERATIONS` elements.

A pooled `subContext` is always overwritten with `subContext{parent: context}` before use, so the
pool is invisible: `mapperContext.Eval(stage, v0, v1)` is `stage.withSub v0 v1` (look-ups of `{0}`,
`{1}` are answered locally, every key look-up is forwarded to the enclosing context).
-/
namespace Rare.Expr.Funcs.Range
open Rare.Expr

def ArraySeparator : UInt8 := 0
def ArraySeparatorString : Bytes := [ArraySeparator]

/-- `strings.Builder`, kept reversed so that a write costs the length of what is written;
    `n` is `Len()`. -/
structure Sb where
  rev : Bytes := []
  n : Nat := 0

namespace Sb
def write (sb : Sb) (x : Bytes) : Sb := ⟨x.reverse ++ sb.rev, sb.n + x.length⟩
def len (sb : Sb) : Nat := sb.n
def str (sb : Sb) : Bytes := sb.rev.reverse
end Sb

/-- `strings.Index(s, d)`: byte offset of the first occurrence of `d` in `s`. -/
def indexOf (d : Bytes) (s : Bytes) : Option Nat :=
  if d.isPrefixOf s then some 0 else
  match s with
  | [] => none
  | _ :: r => (indexOf d r).map (· + 1)

/-- `strings.Count(s, "\x00")` -/
def countSep (s : Bytes) : Int := (s.count ArraySeparator : Nat)

/-- `strings.Split(s, "\x00")` -/
def splitByte (b : UInt8) : Bytes → Bytes → List Bytes
  | [], cur => [cur]
  | c :: r, cur => if c = b then cur :: splitByte b r [] else splitByte b r (cur ++ [c])

/-! ### stringSplitter.Splitter -/

structure Splitter where
  S : Bytes
  Delim : Bytes
  next : Int := 0

namespace Splitter

/-- `Next()`: `(ret, s')`.  `s.S[s.next:]` is `S.drop next`; `s.S[s.next:idx]` its first
    `idx - next` bytes. -/
def Next (s : Splitter) : Bytes × Splitter :=
  if s.next < 0 then ([], s)
  else
    let rest := s.S.drop s.next.toNat
    match indexOf s.Delim rest with
    | none => (rest, { s with next := -1 })
    | some i =>
      let idx : Int := (i : Int) + s.next
      (rest.take i, { s with next := idx + s.Delim.length })

def Done (s : Splitter) : Bool := s.next < 0

end Splitter

/-- `for <guard> && !splitter.Done() { x := splitter.Next(); st = body(st, x) }`.
    Every `Next` with a non-empty delimiter moves `next` forward or finishes, so `len(S) + 2`
    rounds always suffice; running out of fuel is modelled as a hang (only possible with `Delim = ""`,
    which no caller passes). -/
def splitLoop {σ : Type} : Nat → Splitter → σ → (σ → Bool) → (σ → Bytes → Comp σ) → Comp σ
  | 0, _, _, _, _ => .panic "hang: splitter does not advance"
  | fuel + 1, sp, st, guard, body =>
    if guard st && !sp.Done then
      let r := sp.Next
      (body st r.1).bind fun st' => splitLoop fuel r.2 st' guard body
    else .ret st

def loopFuel (s : Bytes) : Nat := s.length + 2

/-- `arrayOperator(arr, delim, joiner, mapper)` -/
def arrayOperator (arr delim joiner : Bytes) (mapper : Bytes → Stage) : Stage :=
  if arr = [] then mapper arr
  else
    let sp : Splitter := { S := arr, Delim := delim }
    let r := sp.Next
    (mapper r.1).bind fun m =>
      (splitLoop (loopFuel arr) r.2 (Sb.write {} m) (fun _ => true)
        (fun ret x => (mapper x).bind fun m' => .ret ((ret.write joiner).write m'))).bind fun ret =>
      .ret ret.str

def noopMapper : Bytes → Stage := fun s => .ret s

def argCountBetween (args : List Stage) (lo hi : Nat) : Bool := lo ≤ args.length && args.length ≤ hi

def lenStage (a0 : Stage) : Stage :=
  a0.bind fun val => .ret (if val = [] then ascii "0" else itoa (wrap64 (countSep val + 1)))

/-- `{@len <arr>}` -/
def kfArrayLen : Builder := fun args =>
  match args with
  | [a0] => ok (lenStage a0)
  | _ => errArgCount

def splitStage (byVal : Bytes) (a0 : Stage) : Stage :=
  a0.bind fun v => arrayOperator v byVal ArraySeparatorString noopMapper

def joinStage (delim : Bytes) (a0 : Stage) : Stage :=
  a0.bind fun v => arrayOperator v ArraySeparatorString delim noopMapper

/-- `{@split <string> "delim"}` -/
def kfArraySplit : Builder := fun args =>
  if !argCountBetween args 1 2 then errArgCount else
  match evalStageIndexOrDefault args 1 (ascii " ") with
  | .error m => .error m
  | .ok byVal =>
    if byVal.length = 0 then errEmpty else
    match args with
    | a0 :: _ => ok (splitStage byVal a0)
    | [] => errArgCount

/-- `{@join <array> "by"}` -/
def kfArrayJoin : Builder := fun args =>
  if !argCountBetween args 1 2 then errArgCount else
  match evalStageIndexOrDefault args 1 (ascii " ") with
  | .error m => .error m
  | .ok delim =>
    match args with
    | a0 :: _ => ok (joinStage delim a0)
    | [] => errArgCount

/-- Loop state of `@select`: counter and the value returned from inside the loop. -/
structure SelSt where
  i : Int
  found : Option Bytes

def selectIndex (index : Int) (s : Bytes) : Int :=
  if index < 0 then wrap64 (index + (wrap64 (countSep s + 1))) else index

def selectStage (index : Int) (a0 : Stage) : Stage :=
  a0.bind fun s =>
    let sp : Splitter := { S := s, Delim := ArraySeparatorString }
    let searchIndex := selectIndex index s
    (splitLoop (loopFuel s) sp (⟨0, none⟩ : SelSt) (fun st => st.found.isNone)
      (fun st val => .ret (if st.i = searchIndex then ⟨st.i, some val⟩ else ⟨wrap64 (st.i + 1), none⟩))).bind fun st =>
    .ret (st.found.getD [])

/-- `{@select <array> "index"}` -/
def kfArraySelect : Builder := fun args =>
  match args with
  | [a0, a1] =>
    match evalStageInt a1 with
    | .error m => .error m
    | .ok none => errNum
    | .ok (some index) => ok (selectStage index a0)
  | _ => errArgCount

def mapStage (a0 a1 : Stage) : Stage :=
  a0.bind fun arr =>
    arrayOperator arr ArraySeparatorString ArraySeparatorString (fun s => a1.withSub s [])

/-- `{@map <arr> <mapFunc>}` -/
def kfArrayMap : Builder := fun args =>
  match args with
  | [a0, a1] => ok (mapStage a0 a1)
  | _ => errArgCount

def reduceStage (initial : Bytes) (a0 a1 : Stage) : Stage :=
  a0.bind fun s =>
    let sp : Splitter := { S := s, Delim := ArraySeparatorString }
    let r := if initial = [] then sp.Next else (initial, sp)
    splitLoop (loopFuel s) r.2 r.1 (fun _ => true) (fun memo x => a1.withSub memo x)

/-- `{@reduce <arr> <reducer> [initial=""]}` -/
def kfArrayReduce : Builder := fun args =>
  if !argCountBetween args 2 3 then errArgCount else
  match evalStageIndexOrDefault args 2 [] with
  | .error m => .error m
  | .ok initial =>
    match args with
    | a0 :: a1 :: _ => ok (reduceStage initial a0 a1)
    | _ => errArgCount

structure SliceSt where
  i : Int
  ret : Sb

def sliceStart (start : Int) (s : Bytes) : Int :=
  if start < 0 then
    let r := wrap64 (start + (wrap64 (countSep s + 1)))
    if r < 0 then 0 else r
  else start

def sliceStage (start len : Int) (a0 : Stage) : Stage :=
  a0.bind fun s =>
    let sp : Splitter := { S := s, Delim := ArraySeparatorString }
    let realStart := sliceStart start s
    (splitLoop (loopFuel s) sp (⟨0, {}⟩ : SliceSt)
      (fun st => decide (len < 0) || decide (wrap64 (st.i - realStart) < len))
      (fun st val =>
        let ret := if st.i ≥ realStart then
            (if st.i > realStart then st.ret.write ArraySeparatorString else st.ret).write val
          else st.ret
        .ret ⟨wrap64 (st.i + 1), ret⟩)).bind fun st =>
    .ret st.ret.str

/-- `{@slice <arr> start len}` -/
def kfArraySlice : Builder := fun args =>
  if !argCountBetween args 2 3 then errArgCount else
  match args with
  | a0 :: a1 :: _ =>
    match evalStageInt a1 with
    | .error m => .error m
    | .ok none => errConst
    | .ok (some start) =>
      match evalArgInt args 2 (-1) with
      | .error m => .error m
      | .ok none => errConst
      | .ok (some len) => ok (sliceStage start len a0)
  | _ => errArgCount

def InfMarker : Bytes := ascii "<INF>"

/-- The counting loop of `@range`; `count` is the number of elements written so far, `fuel` is
    `MAX_ITERATIONS + 2` (the loop itself gives up after `MAX_ITERATIONS + 1` rounds).
    `none` = the `return "<INF>"` inside the loop. -/
def rangeLoop : Nat → Int → Int → Int → Nat → Sb → Except String (Option Sb)
  | 0, _, _, _, _, _ => .error "hang: range does not terminate"
  | fuel + 1, i, stop, incr, count, sb =>
    if (incr > 0 && i < stop) || (incr < 0 && i > stop) then
      let sb := if sb.len > 0 then sb.write ArraySeparatorString else sb
      let sb := sb.write (itoa i)
      let count := count + 1
      if count > Gen.maxIterations then .ok none
      else if (incr > 0 && i > wrap64 (maxInt64 - incr)) || (incr < 0 && i < wrap64 (minInt64 - incr)) then
        .ok (some sb)
      else rangeLoop fuel (wrap64 (i + incr)) stop incr count sb
    else .ok (some sb)

def rangeBody (start stop incr : Int) : Stage :=
  if incr = 0 then .ret ErrorValue
  else if incr > 0 && start > stop then .ret ErrorValue
  else if incr < 0 && start < stop then .ret ErrorValue
  else
    match rangeLoop (Gen.maxIterations + 2) start stop incr 0 {} with
    | .ok (some sb) => .ret sb.str
    | .ok none => .ret InfMarker
    | .error m => .panic m

def rangeStage (sStart sStop sIncr : Stage) : Stage :=
  sStart.bind fun a =>
    match atoi a with
    | none => .ret ErrorNum
    | some start =>
      sStop.bind fun b =>
        match atoi b with
        | none => .ret ErrorNum
        | some stop =>
          sIncr.bind fun c =>
            match atoi c with
            | none => .ret ErrorNum
            | some incr => rangeBody start stop incr

/-- `{@range [start] <end> [incr]}` -/
def kfArrayRange : Builder := fun args =>
  match args with
  | [a0] => ok (rangeStage (Stage.lit (ascii "0")) a0 (Stage.lit (ascii "1")))
  | [a0, a1] => ok (rangeStage a0 a1 (Stage.lit (ascii "1")))
  | [a0, a1, a2] => ok (rangeStage a0 a1 a2)
  | _ => errArgCount

/-- The loop of `@for`; `idx` counts rounds, `fuel` is `MAX_ITERATIONS + 2`. -/
def forLoop (cond incr : Stage) : Nat → Bytes → Nat → Sb → Stage
  | 0, _, _, _ => .panic "hang: for does not terminate"
  | fuel + 1, val, idx, sb =>
    let sIdx := itoa (idx : Nat)
    (cond.withSub val sIdx).bind fun c =>
      if !truthy c then .ret sb.str
      else
        let sb := if idx > 0 then sb.write ArraySeparatorString else sb
        let sb := sb.write val
        (incr.withSub val sIdx).bind fun val' =>
          let idx := idx + 1
          if idx > Gen.maxIterations then .ret InfMarker
          else forLoop cond incr fuel val' idx sb

def forStage (a0 a1 a2 : Stage) : Stage :=
  a0.bind fun val => forLoop a1 a2 (Gen.maxIterations + 2) val 0 {}

/-- `{@for <start> <contExpr> <incrExpr>}` -/
def kfArrayFor : Builder := fun args =>
  match args with
  | [a0, a1, a2] => ok (forStage a0 a1 a2)
  | _ => errArgCount

structure FilterSt where
  sb : Sb
  needSep : Bool

def filterStage (a0 a1 : Stage) : Stage :=
  a0.bind fun s =>
    let sp : Splitter := { S := s, Delim := ArraySeparatorString }
    (splitLoop (loopFuel s) sp (⟨{}, false⟩ : FilterSt) (fun _ => true)
      (fun st item => (a1.withSub item []).bind fun c =>
        if truthy c then
          .ret ⟨(if st.needSep then st.sb.write ArraySeparatorString else st.sb).write item, true⟩
        else .ret st)).bind fun st =>
    .ret st.sb.str

/-- `{@filter <arr> <truthy-statement>}` -/
def kfArrayFilter : Builder := fun args =>
  match args with
  | [a0, a1] => ok (filterStage a0 a1)
  | _ => errArgCount

def inStage (matchSet : List Bytes) (a0 : Stage) : Stage :=
  a0.bind fun val => .ret (if matchSet.contains val then TruthyVal else FalsyVal)

/-- `{@in <val> <array>}`: the Go map is only queried for membership, so a list does. -/
def kfArrayIn : Builder := fun args =>
  match args with
  | [a0, a1] =>
    match a1.probe with
    | .error m => .error m
    | .ok (_, false) => errConst
    | .ok (matchString, true) =>
      ok (inStage (splitByte ArraySeparator matchString []) a0)
  | _ => errArgCount

/-- The `for _, arg := range args[1:]` loop of `kfJoin`. -/
def joinArgsLoop (delim : UInt8) : List Stage → Sb → Comp Sb
  | [], sb => .ret sb
  | arg :: rest, sb => arg.bind fun v => joinArgsLoop delim rest ((sb.write [delim]).write v)

def joinArgsStage (delim : UInt8) (a0 : Stage) (rest : List Stage) : Stage :=
  a0.bind fun v0 => (joinArgsLoop delim rest (Sb.write {} v0)).bind fun sb => .ret sb.str

/-- `kfJoin(delim)` of funcsStrings.go, used for `{$ a b}` and `{@ a b}`. -/
def joinArgs (delim : UInt8) : Builder := fun args =>
  match args with
  | [] => ok (Stage.lit [])
  | [a] => ok a
  | a0 :: rest => ok (joinArgsStage delim a0 rest)

def table : Table := [
  ("$", joinArgs ArraySeparator),
  ("@", joinArgs ArraySeparator),
  ("@len", kfArrayLen), ("@map", kfArrayMap), ("@split", kfArraySplit), ("@select", kfArraySelect),
  ("@join", kfArrayJoin), ("@reduce", kfArrayReduce), ("@filter", kfArrayFilter),
  ("@slice", kfArraySlice), ("@in", kfArrayIn), ("@range", kfArrayRange), ("@for", kfArrayFor)]

end Rare.Expr.Funcs.Range
