import Rare.Model.Expr.Build
namespace Rare.Expr.Funcs.Range
open Rare.Expr

def table : Table := []

end Rare.Expr.Funcs.Range
