import Rare.Model.Expr.Build
namespace Rare.Expr.Funcs.Time
open Rare.Expr

def table : Table := []

end Rare.Expr.Funcs.Time
