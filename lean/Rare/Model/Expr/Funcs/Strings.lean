import Rare.Model.Expr.Build
/-!
`funcsStrings.go` (len, like, prefix, suffix, upper, lower, substr, select, hi, bytesize,
bytesizesi, downscale, the `kfJoin` family `tab` / `$` / `@`), `funcsCsv.go`, and
`pkg/humanize` (`humanizeInt`, `unitize`).
-/
namespace Rare.Expr.Funcs.Strings
open Rare.Expr

/-! ### len / like / prefix / suffix / upper / lower -/

def kfLen : Builder := fun args =>
  match args with
  | [a] => ok (do let v ← a; pure (itoa v.length))
  | _ => errArgCount

/-- `strings.Contains(s, sub)` on bytes. -/
def containsB (s sub : Bytes) : Bool :=
  match s with
  | [] => sub.isEmpty
  | _ :: r => sub.isPrefixOf s || containsB r sub

/-- `{like}`, `{prefix}`, `{suffix}`: both arguments evaluated, the first returned when `test` holds. -/
def testHelper (test : Bytes → Bytes → Bool) : Builder := fun args =>
  match args with
  | [a0, a1] => ok (do
    let val ← a0
    let c ← a1
    pure (if test val c then val else FalsyVal))
  | _ => errArgCount

def upperB (b : UInt8) : UInt8 := if 97 ≤ b && b ≤ 122 then b - 32 else b
def lowerB (b : UInt8) : UInt8 := if 65 ≤ b && b ≤ 90 then b + 32 else b

/-- `strings.ToUpper` / `ToLower`: exact on ASCII input; anything else is the Unicode tables. -/
def caseHelper (f : UInt8 → UInt8) : Builder := fun args =>
  match args with
  | [a] => ok (do
    let v ← a
    if v.all (· < 128) then pure (v.map f) else .panic "unmodelled:non-ascii-case")
  | _ => errArgCount

/-! ### substr -/

/-- Index arithmetic of `kfSubstr` (after the fix that compares `length < lenS-left`). -/
def substrIdx (lenS left length : Int) : Int × Int :=
  let length := if length < 0 then 0 else length
  let left :=
    if left < 0 then
      let l := wrap64 (left + lenS)
      if l < 0 then 0 else l
    else if left > lenS then lenS else left
  let right := if length < wrap64 (lenS - left) then wrap64 (left + length) else lenS
  (left, right)

/-- Go's `s[l:r]`; `.error` = "slice bounds out of range". -/
def goSlice (s : Bytes) (l r : Int) : Except String Bytes :=
  if 0 ≤ l ∧ l ≤ r ∧ r ≤ s.length then .ok ((s.drop l.toNat).take (r.toNat - l.toNat))
  else .error "slice bounds out of range"

def substrVal (s : Bytes) (left length : Int) : Except String Bytes :=
  let (l, r) := substrIdx s.length left length
  goSlice s l r

def liftExcept : Except String Bytes → Stage
  | .ok v => .ret v
  | .error m => .panic m

def kfSubstr : Builder := fun args =>
  match args with
  | [a0, a1, a2] => ok (do
    let s ← a0
    if s.isEmpty then pure [] else
    -- `lenS := len(s)` is a Go int: a string is never longer than MaxInt64.  The guard makes
    -- that explicit (the index arithmetic below is stated for such lengths only).
    if (s.length : Int) > maxInt64 then pure [] else
    let ls ← a1
    let ns ← a2
    match atoi ls, atoi ns with
    | some left, some length => liftExcept (substrVal s left length)
    | _, _ => pure ErrorNum)
  | _ => errArgCount

/-! ### select -/

structure SelSt where
  currIdx : Int := 0
  wordStart : Nat := 0
  inDelim : Bool := false
  quoted : Bool := false

def isSelDelim (c : UInt8) : Bool := c == 32 || c == 9 || c == 10 || c == 0

/-- The loop of `selectField`.  Go ranges over runes, the model over bytes: every byte the loop
    tests for is ASCII, an ASCII byte never occurs inside a multi-byte sequence, and for the
    remaining bytes of a rune the body does nothing (`inDelim` is already false), so the
    byte-wise loop computes the same `wordStart`/`currIdx`. -/
def selLoop (s : Bytes) (idx : Int) : Bytes → Nat → SelSt → Bytes
  | [], _, st => if st.currIdx = idx then s.drop st.wordStart else []
  | c :: rest, i, st =>
    if (st.quoted && c == 34) || (!st.quoted && isSelDelim c) then
      if st.currIdx = idx then (s.drop st.wordStart).take (i - st.wordStart)
      else selLoop s idx rest (i + 1) { st with inDelim := true, quoted := false }
    else if c == 34 then selLoop s idx rest (i + 1) { st with quoted := !st.quoted }
    else if st.inDelim then
      selLoop s idx rest (i + 1) { st with wordStart := i, currIdx := st.currIdx + 1, inDelim := false }
    else selLoop s idx rest (i + 1) st

def selectField (s : Bytes) (idx : Int) : Bytes := selLoop s idx s 0 {}

def kfSelect : Builder := fun args =>
  match args with
  | [a0, a1] => ok (do
    let s ← a0
    let i ← a1
    match atoi i with
    | none => pure ErrorNum
    | some idx => pure (selectField s idx))
  | _ => errArgCount

/-! ### join family: tab, `$`, `@` -/

def joinRun (delim : Bytes) : List Stage → Stage
  | [] => .ret []
  | a :: rest => do
    let v ← a
    let r ← joinRun delim rest
    pure (delim ++ v ++ r)

def kfJoin (delim : Bytes) : Builder := fun args =>
  match args with
  | [] => ok (Stage.lit [])
  | [a] => ok a
  | a :: rest => ok (do
    let v ← a
    let r ← joinRun delim rest
    pure (v ++ r))

/-! ### csv -/

def replaceQuotes : Bytes → Bytes
  | [] => []
  | 34 :: r => 34 :: 34 :: replaceQuotes r
  | c :: r => c :: replaceQuotes r

/-- `csvItemEncode` -/
def csvItemEncode (s : Bytes) : Bytes :=
  if s.any (fun c => c == 34 || c == 13 || c == 10) then [34] ++ replaceQuotes s ++ [34]
  else if s.contains 44 then [34] ++ s ++ [34]
  else s

/-- The joined record for already evaluated arguments. -/
def csvRecord : List Bytes → Bytes
  | [] => []
  | [x] => csvItemEncode x
  | x :: rest => csvItemEncode x ++ [44] ++ csvRecord rest

def csvRun : List Stage → List Bytes → Stage
  | [], acc => .ret (csvRecord acc)
  | a :: rest, acc => do
    let v ← a
    csvRun rest (acc ++ [v])

def kfCsv : Builder := fun args =>
  match args with
  | [] => ok (Stage.lit [])
  | _ => ok (csvRun args [])

/-! ### hi (`humanize.Hi32` → `humanizeInt`) -/

/-- The digit loop of `humanizeInt`, writing right to left (`acc` is `buf[idx+1:]`).
    An int64 has at most 19 digits, so 20 rounds of fuel always reach `v == 0`. -/
def hiLoop : Nat → Int → Nat → Bytes → Bytes
  | 0, _, _, acc => acc
  | f + 1, v, ci, acc =>
    if v = 0 then acc
    else
      let acc := if ci = 3 then 44 :: acc else acc
      let ci := if ci = 3 then 0 else ci
      let d := goMod v 10
      let d := if d < 0 then -d else d
      hiLoop f (goDiv v 10) (ci + 1) (UInt8.ofNat (48 + d.toNat) :: acc)

def humanizeInt (v : Int) : Bytes :=
  if 0 ≤ v ∧ v < 100 then itoa v
  else
    let body := hiLoop 20 v 0 []
    if v < 0 then 45 :: body else body

def kfHumanizeInt : Builder := fun args =>
  match args with
  | [a] => ok (do
    let v ← a
    match atoi v with
    | none => pure ErrorNum
    | some n => pure (humanizeInt n))
  | _ => errArgCount

/-! ### bytesize / bytesizesi / downscale (`unitize`) -/

def iecSizes : List String := ["B", "KB", "MB", "GB", "TB", "PB", "EB", "ZB"]
def siSizes : List String := ["b", "kB", "mB", "gB", "tB", "pB", "eB", "zB"]
def unitSize : List String := ["", "k", "M", "B", "T"]

def withUnit (num : Bytes) (delim : Bytes) (unit : String) : Bytes :=
  if unit.isEmpty then num else num ++ delim ++ ascii unit

/-- Divide an *exact* multiple down, the way the float loop does when no rounding can occur. -/
def exactRank : Nat → Int → Int → Nat → Nat → Option (Int × Nat)
  | 0, _, _, _, _ => none
  | f + 1, n, step, rank, maxRank =>
    if (n ≤ -step || n ≥ step) && rank < maxRank then
      if Int.tmod n step = 0 then exactRank f (Int.tdiv n step) step (rank + 1) maxRank else none
    else some (n, rank)

/-- `strconv.AppendFloat(buf, m, 'f', precision, 64)` for an integral `m`. -/
def fmtIntegral (m : Int) (precision : Int) : Bytes :=
  if precision ≤ 0 then itoa m else itoa m ++ [46] ++ List.replicate precision.toNat 48

/-- `unitize(n, step, precision, delim, units)`; `none` = needs float rounding. -/
def unitize (n step : Int) (precision : Int) (delim : Bytes) (units : List String) : Option Bytes :=
  if n > -step ∧ n < step then some (withUnit (itoa n) delim (units.headD ""))
  else if n.natAbs ≥ 9007199254740992 then none      -- float64(n) may round
  else
    match exactRank 10 n step 0 (units.length - 1) with
    | none => none
    | some (m, rank) =>
      some (withUnit (fmtIntegral m precision) delim (units.getD rank ""))

def unitHelper (unsigned : Bool) (step : Int) (delim : Bytes) (units : List String) : Builder := fun args =>
  if args.length < 1 || args.length > 2 then errArgCount
  else match evalArgInt args 1 0 with
    | .error m => .error m
    | .ok none => errNum
    | .ok (some precision) =>
      if precision > 1024 then errValue else      -- maxPrecision (stdlib/util.go)
      match args with
      | a :: _ => ok (do
        let v ← a
        let parsed : Option Int := if unsigned then (atou v).map (fun n => wrap64 (Int.ofNat n)) else atoi v
        match parsed with
        | none => pure ErrorNum
        | some n =>
          match unitize n step precision delim units with
          | some r => pure r
          | none => .panic "unmodelled:unitize-float")
      | [] => errArgCount

def table : Table := [
  ("len", kfLen),
  ("like", testHelper fun v c => containsB v c),
  ("prefix", testHelper fun v c => c.isPrefixOf v),
  ("suffix", testHelper fun v c => c.isSuffixOf v),
  ("upper", caseHelper upperB), ("lower", caseHelper lowerB),
  ("substr", kfSubstr), ("select", kfSelect),
  ("tab", kfJoin [9]), ("$", kfJoin [0]), ("@", kfJoin [0]),
  ("csv", kfCsv), ("hi", kfHumanizeInt),
  ("bytesize", unitHelper true 1024 [32] iecSizes),
  ("bytesizesi", unitHelper true 1000 [32] siSizes),
  ("downscale", unitHelper false 1000 [] unitSize)]

end Rare.Expr.Funcs.Strings
