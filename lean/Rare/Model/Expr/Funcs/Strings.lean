import Rare.Model.Expr.Build
namespace Rare.Expr.Funcs.Strings
open Rare.Expr

def table : Table := []

end Rare.Expr.Funcs.Strings
