import Rare.Model.Expr.Build
/-!
`funcsJson.go` `kfJsonQuery`: `{json path}` / `{json blob path}` hand a JSON text and a path to
`gjson.Get(json, path).String()`.  The library call is a parameter (`gjson : Bytes → Bytes → Comp Bytes`):
the builder's own logic (argument-count dispatch, which look-ups are made, in which order) is
modelled exactly; what gjson answers is not.  The panic-freedom theorem assumes the library call
returns (`Safe (gjson j p)` for all arguments); the driver instantiates it with an `unmodelled` answer.
-/
namespace Rare.Expr.Funcs.Json
open Rare Rare.Expr

/-- `{json [blob] path}` -/
def kfJsonQuery (gjson : Bytes → Bytes → Comp Bytes) : Builder := fun args =>
  match args with
  | [a0] => ok (do
    let json ← Comp.match_ 0     -- "{0}" is the blob
    let expression ← a0
    gjson json expression)
  | [a0, a1] => ok (do
    let json ← a0
    let expression ← a1
    gjson json expression)
  | _ => errArgCount

def table (gjson : Bytes → Bytes → Comp Bytes) : Table := [("json", kfJsonQuery gjson)]

end Rare.Expr.Funcs.Json
