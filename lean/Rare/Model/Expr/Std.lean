import Rare.Model.Expr.Funcs.Logic
import Rare.Model.Expr.Funcs.Arith
import Rare.Model.Expr.Funcs.Strings
import Rare.Model.Expr.Funcs.Range
import Rare.Model.Expr.Funcs.Math
import Rare.Model.Expr.Funcs.Time
import Rare.Model.Expr.Funcs.Misc
/-! The standard function registry: `stdlib.StandardFunctions` as far as it is modelled. -/
namespace Rare.Expr

def stdTable : Table :=
  Funcs.Logic.table ++ Funcs.Arith.table ++ Funcs.Strings.table ++ Funcs.Range.table ++
  Funcs.Math.table ++ Funcs.Time.table ++ Funcs.Misc.table

def lookupTable (t : Table) (name : String) : Option Builder :=
  (t.find? (·.1 == name)).map (·.2)

/-- Registry over the modelled table; `known` lists function names that exist on the Go side
    (from the generated table) but are outside the model. -/
def mkRegistry (t : Table) (known : List String) : Registry := fun name =>
  let n := String.ofList name
  match lookupTable t n with
  | some b => some b
  | none => if known.contains n then some (unmodelledBuilder n) else none

end Rare.Expr
