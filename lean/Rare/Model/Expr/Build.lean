import Rare.Model.Expr.Core
/-!
Shared vocabulary for modelling `pkg/expressions/stdlib` function builders:
error markers, `stageError…` helpers, `EvalStage…` static evaluation helpers, truthiness.
-/
namespace Rare.Expr

/-! Run-time error markers (`stdlib/errors.go`). -/
def ErrorNum : Bytes := ascii "<BAD-TYPE>"
def ErrorParsing : Bytes := ascii "<PARSE-ERROR>"
def ErrorArgCount : Bytes := ascii "<ARGN>"
def ErrorConst : Bytes := ascii "<CONST>"
def ErrorEnum : Bytes := ascii "<ENUM>"
def ErrorArgName : Bytes := ascii "<NAME>"
def ErrorEmpty : Bytes := ascii "<EMPTY>"
def ErrorFile : Bytes := ascii "<FILE>"
def ErrorValue : Bytes := ascii "<VALUE>"

def TruthyVal : Bytes := ascii "1"
def FalsyVal : Bytes := []

/-- Bytes that `strings.TrimSpace` strips when they are ASCII: `\t \n \v \f \r` and space.
    (Multi-byte Unicode spaces U+0085, U+00A0 … are handled in `trimSpace` below.) -/
def isAsciiSpace (b : UInt8) : Bool := (9 ≤ b && b ≤ 13) || b == 32

/-- Strip leading white space the way `strings.TrimSpace` does: ASCII spaces plus the UTF-8
    encodings of U+0085, U+00A0, U+1680, U+2000–U+200A, U+2028, U+2029, U+202F, U+205F, U+3000. -/
def dropSpaceFront : Nat → Bytes → Bytes
  | 0, s => s
  | f + 1, s =>
    match s with
    | [] => []
    | b :: r =>
      if isAsciiSpace b then dropSpaceFront f r
      else match s with
        | 0xC2 :: 0x85 :: r2 => dropSpaceFront f r2
        | 0xC2 :: 0xA0 :: r2 => dropSpaceFront f r2
        | 0xE1 :: 0x9A :: 0x80 :: r3 => dropSpaceFront f r3
        | 0xE2 :: 0x80 :: x :: r3 =>
          if (0x80 ≤ x && x ≤ 0x8A) || x == 0xA8 || x == 0xA9 || x == 0xAF then dropSpaceFront f r3 else s
        | 0xE2 :: 0x81 :: 0x9F :: r3 => dropSpaceFront f r3
        | 0xE3 :: 0x80 :: 0x80 :: r3 => dropSpaceFront f r3
        | _ => s

/-- `Truthy(s)`: `strings.TrimSpace(s) != ""`.  The trimmed string is non-empty iff stripping
    leading white space leaves something. -/
def truthy (s : Bytes) : Bool := !(dropSpaceFront (s.length + 1) s).isEmpty

def truthyStr (b : Bool) : Bytes := if b then TruthyVal else FalsyVal

/-! Builder results. -/
def ok (s : Stage) : Except String Built := .ok ⟨some s, none⟩

/-- `stageError(err)` and friends: a stage that yields the marker, plus a compile error. -/
def stageErr (marker : Bytes) (tag : String) : Except String Built :=
  .ok ⟨some (Stage.lit marker), some tag⟩

def errArgCount : Except String Built := stageErr ErrorArgCount "argcount"
def errNum : Except String Built := stageErr ErrorNum "num"
def errConst : Except String Built := stageErr ErrorConst "const"
def errEmpty : Except String Built := stageErr ErrorEmpty "empty"
def errEnum : Except String Built := stageErr ErrorEnum "enum"
def errValue : Except String Built := stageErr ErrorValue "value"
def errFile : Except String Built := stageErr ErrorFile "file"
def errParsing : Except String Built := stageErr ErrorParsing "parsing"

/-- `EvalStageIndexOrDefault(stages, idx, dflt)` -/
def evalStageIndexOrDefault (args : List Stage) (idx : Nat) (dflt : Bytes) : Except String Bytes :=
  match args[idx]? with
  | none => .ok dflt
  | some st =>
    match st.probe with
    | .error m => .error m
    | .ok (v, true) => .ok v
    | .ok (_, false) => .ok dflt

/-- `EvalStageInt` / `EvalStageInt64` -/
def evalStageInt (st : Stage) : Except String (Option Int) :=
  match st.probe with
  | .error m => .error m
  | .ok (v, true) => .ok (atoi v)
  | .ok (_, false) => .ok none

/-- `EvalArgInt(stages, idx, dflt)` -/
def evalArgInt (args : List Stage) (idx : Nat) (dflt : Int) : Except String (Option Int) :=
  match args[idx]? with
  | none => .ok (some dflt)
  | some st => evalStageInt st

/-- `evalTypedStage(stage, parser)`: pre-parse a static stage; `none` = static but unparsable. -/
def evalTypedStage {α : Type} (st : Stage) (parser : Bytes → Option α) :
    Except String (Option (Comp (Option α))) :=
  match st.probe with
  | .error m => .error m
  | .ok (v, true) =>
    match parser v with
    | some p => .ok (some (.ret (some p)))
    | none => .ok none
  | .ok (_, false) => .ok (some (do let v ← st; pure (parser v)))

def mapTypedArgs {α : Type} (parser : Bytes → Option α) :
    List Stage → Except String (Option (List (Comp (Option α))))
  | [] => .ok (some [])
  | a :: rest =>
    match evalTypedStage a parser with
    | .error m => .error m
    | .ok none => .ok none
    | .ok (some t) =>
      match mapTypedArgs parser rest with
      | .error m => .error m
      | .ok none => .ok none
      | .ok (some ts) => .ok (some (t :: ts))

/-- A function the Go side has but the model does not cover: the model can predict neither its value
    nor its compile errors, so the builder leaves an `unmodelled:<name>` tag in the error list (the
    driver then answers `unmodelled <name>` for the whole template) and a stage that, if ever
    evaluated, answers `unmodelled` too. -/
def unmodelledBuilder (name : String) : Builder := fun _ =>
  .ok ⟨some (.panic ("unmodelled:" ++ name)), some ("unmodelled:" ++ name)⟩

abbrev Table := List (String × Builder)

end Rare.Expr
