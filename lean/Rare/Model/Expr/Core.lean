import Rare.Model.Expr.Comp
/-!
Model of `pkg/expressions`: `KeyBuilder.Compile`, `splitTokenizedArguments`,
`stageSimpleVariable`, `optimize`, `joinStages`, `BuildKey`.

Templates are `List Char` (= Go's `[]rune(template)`; invalid UTF-8 bytes have already become
U+FFFD on the Go side, which is how `[]rune(s)` and `range s` behave).  Values are `Bytes`.
-/
namespace Rare.Expr

def encodeRunes (cs : List Char) : Bytes := cs.flatMap String.utf8EncodeChar

/-- Go's `unicode.IsSpace`. -/
def isSpaceRune (c : Char) : Bool :=
  let n := c.toNat
  (9 ≤ n && n ≤ 13) || n == 0x20 || n == 0x85 || n == 0xA0 || n == 0x1680 ||
  (0x2000 ≤ n && n ≤ 0x200a) || n == 0x2028 || n == 0x2029 || n == 0x202f || n == 0x205f || n == 0x3000

/-- `unescape` in keyBuilder.go -/
def unescape (c : Char) : Char :=
  if c = 'n' then '\n' else if c = 'r' then '\r' else if c = 't' then '\t' else c

/-! ### splitTokenizedArguments -/

structure SplitSt where
  args : List (List Char)   -- finished arguments, in order
  sb : List Char            -- current builder content
  depth : Int               -- tokenDepth (may go negative on stray '}')
  quoted : Bool
  escaped : Bool

def SplitSt.init : SplitSt := ⟨[], [], 0, false, false⟩

def splitStep (s : SplitSt) (r : Char) : SplitSt :=
  if s.escaped then { s with escaped := false, sb := s.sb ++ [r] }
  else if r = '\\' then { s with escaped := true }
  else if r = '"' && !s.quoted then
    { s with quoted := true, sb := if s.depth > 0 then s.sb ++ ['"'] else s.sb }
  else if r = '"' && s.quoted then
    if s.depth > 0 then { s with quoted := false, sb := s.sb ++ ['"'] }
    else { s with quoted := false, args := s.args ++ [s.sb], sb := [] }
  else if r = '{' && !s.quoted then { s with depth := s.depth + 1, sb := s.sb ++ [r] }
  else if r = '}' && !s.quoted then { s with depth := s.depth - 1, sb := s.sb ++ [r] }
  else if isSpaceRune r && !s.sb.isEmpty && s.depth == 0 && !s.quoted then
    { s with args := s.args ++ [s.sb], sb := [] }
  else if !isSpaceRune r || s.quoted || s.depth > 0 then { s with sb := s.sb ++ [r] }
  else s

def splitArgs (t : List Char) : List (List Char) :=
  let s := t.foldl splitStep SplitSt.init
  if s.sb.isEmpty then s.args else s.args ++ [s.sb]

/-! ### stages -/

def charsToBytes (cs : List Char) : Bytes := encodeRunes cs

/-- `stageSimpleVariable`: an integer is a group reference, anything else a key look-up. -/
def stageSimpleVariable (s : List Char) : Stage :=
  match atoi (charsToBytes s) with
  | some i => Comp.match_ i
  | none => Comp.key (charsToBytes s)

def concatStages : List Stage → Stage
  | [] => .ret []
  | s :: rest => do
    let a ← s
    let b ← concatStages rest
    pure (a ++ b)

/-- `joinStages` -/
def joinStages (stages : List Stage) : Stage :=
  match stages with
  | [] => Stage.lit []
  | [s] => s
  | _ => concatStages stages

/-- `BuildKey` -/
def buildKey (stages : List Stage) : Stage := concatStages stages

inductive ErrKind
  | unterminated | emptyStatement | missingFunction
  | func (tag : String)      -- error returned by a function builder (tag = its class)
  deriving Repr, DecidableEq

structure CErr where
  kind : ErrKind
  context : List Char
  index : Nat
  deriving Repr

/-- What a `KeyBuilderFunction` returns: `(stage, err)`; either may be nil. -/
structure Built where
  stage : Option Stage
  err : Option String

/-- A `KeyBuilderFunction`.  `.error` = the builder itself panics (at compile time). -/
abbrev Builder := List Stage → Except String Built

abbrev Registry := List Char → Option Builder

/-- `optimize`: merge statically evaluable stages into literals. -/
def optimizeGo : List Stage → Bytes → List Stage → Except String (List Stage)
  | [], sb, acc => .ok (if sb.isEmpty then acc else acc ++ [Stage.lit sb])
  | st :: rest, sb, acc =>
    match st.probe with
    | .error m => .error m
    | .ok (v, true) => optimizeGo rest (sb ++ v) acc
    | .ok (_, false) =>
      optimizeGo rest [] ((if sb.isEmpty then acc else acc ++ [Stage.lit sb]) ++ [st])

def optimize (stages : List Stage) : Except String (List Stage) := optimizeGo stages [] []

/-- Scanner state of `Compile`. -/
structure CompSt where
  stages : List Stage
  errs : List CErr
  sb : List Char
  startStatement : Nat
  inStatement : Nat

def missingLit (name : List Char) : Stage :=
  Stage.lit (charsToBytes ("<Err:".toList ++ name ++ ">".toList))

mutual
/-- The rune loop of `Compile`; `i` is the index of the head of `rs` in the rune slice. -/
def compileLoop (fuel : Nat) (reg : Registry) (opt : Bool) (all : List Char) :
    List Char → Nat → CompSt → Except String CompSt
  | [], _, st => .ok st
  | r :: rest, i, st =>
    if r = '\\' then
      match rest with
      | [] => .ok { st with sb := st.sb ++ [r] }   -- `i+1 < len(runes)` fails: a trailing backslash is a literal
      | e :: rest' => compileLoop fuel reg opt all rest' (i + 2) { st with sb := st.sb ++ [unescape e] }
    else if r = '{' then
      if st.inStatement = 0 then
        let stages := if st.sb.isEmpty then st.stages else st.stages ++ [Stage.lit (charsToBytes st.sb)]
        let sb := if st.sb.isEmpty then st.sb else []
        compileLoop fuel reg opt all rest (i + 1)
          { st with stages, sb, startStatement := i, inStatement := 1 }
      else
        compileLoop fuel reg opt all rest (i + 1) { st with sb := st.sb ++ [r], inStatement := st.inStatement + 1 }
    else if r = '}' && st.inStatement > 0 then
      if st.inStatement = 1 then
        match closeStatement fuel reg opt all i st with
        | .error m => .error m
        | .ok st' => compileLoop fuel reg opt all rest (i + 1) { st' with sb := [], inStatement := 0 }
      else
        compileLoop fuel reg opt all rest (i + 1) { st with sb := st.sb ++ [r], inStatement := st.inStatement - 1 }
    else compileLoop fuel reg opt all rest (i + 1) { st with sb := st.sb ++ [r] }

/-- Body of the `inStatement == 0` branch after a closing brace at rune index `i`. -/
def closeStatement (fuel : Nat) (reg : Registry) (opt : Bool) (all : List Char) (i : Nat) (st : CompSt) :
    Except String CompSt :=
  let args := splitArgs st.sb
  match args with
  | [] =>
    .ok { st with errs := st.errs ++ [⟨.emptyStatement, (all.drop st.startStatement).take (i + 1 - st.startStatement), st.startStatement⟩] }
  | [a] => .ok { st with stages := st.stages ++ [stageSimpleVariable a] }
  | name :: fargs =>
    match reg name with
    | none =>
      .ok { st with stages := st.stages ++ [missingLit name],
                    errs := st.errs ++ [⟨.missingFunction, st.sb, st.startStatement⟩] }
    | some f =>
      match compileArgs fuel reg opt fargs with
      | .error m => .error m
      | .ok (cargs, aerrs) =>
        match f cargs with
        | .error m => .error m
        | .ok b =>
          let errs := st.errs ++ aerrs.map (fun e => { e with index := e.index + st.startStatement })
          let errs := match b.err with
            | some tag => errs ++ [⟨.func tag, st.sb, st.startStatement⟩]
            | none => errs
          let stages := match b.stage with
            | some s => st.stages ++ [s]
            | none => st.stages
          .ok { st with stages, errs }

def compileArgs (fuel : Nat) (reg : Registry) (opt : Bool) :
    List (List Char) → Except String (List Stage × List CErr)
  | [] => .ok ([], [])
  | a :: rest =>
    match compileF fuel reg opt a with
    | .error m => .error m
    | .ok (stages, errs) =>
      match compileArgs fuel reg opt rest with
      | .error m => .error m
      | .ok (ss, es) => .ok (joinStages stages :: ss, errs ++ es)

/-- `KeyBuilder.Compile` with recursion fuel (nesting depth). -/
def compileF (fuel : Nat) (reg : Registry) (opt : Bool) (t : List Char) :
    Except String (List Stage × List CErr) :=
  match fuel with
  | 0 => .error "out of fuel"
  | fuel + 1 =>
    match compileLoop fuel reg opt t t 0 ⟨[], [], [], 0, 0⟩ with
    | .error m => .error m
    | .ok st =>
      let errs := if st.inStatement ≠ 0
        then st.errs ++ [⟨.unterminated, t.drop st.startStatement, st.startStatement⟩] else st.errs
      let stages := if st.sb.isEmpty then st.stages else st.stages ++ [Stage.lit (charsToBytes st.sb)]
      if opt then
        match optimize stages with
        | .error m => .error m
        | .ok s => .ok (s, errs)
      else .ok (stages, errs)
end

/-- Nesting can never exceed the template length, so this much fuel always suffices. -/
def compile (reg : Registry) (opt : Bool) (t : List Char) : Except String (List Stage × List CErr) :=
  compileF (t.length + 1) reg opt t

end Rare.Expr
