import Rare.Base.GoInt
/-!
Expression stages as a free monad over context look-ups (DESIGN.md 3.8).

A Go `KeyBuilderStage` is a closure `func(KeyBuilderContext) string`.  The only things a
stage can do with its context are `GetMatch(i)` and `GetKey(k)`; it may also panic.  `Comp α`
records exactly that, which lets the model (a) run a stage against a real context, (b) run it
against the optimiser's `monitorContext` (every look-up answers "" and is counted), and
(c) re-interpret look-ups for the sub-contexts used by `@map`, `@filter`, `@reduce`, `@for`
and user functions.
-/
namespace Rare.Expr

inductive Comp (α : Type) where
  | ret : α → Comp α
  | getMatch : Int → (Bytes → Comp α) → Comp α
  | getKey : Bytes → (Bytes → Comp α) → Comp α
  | panic : String → Comp α

namespace Comp

def bind {α β : Type} : Comp α → (α → Comp β) → Comp β
  | .ret a, f => f a
  | .getMatch i k, f => .getMatch i (fun b => (k b).bind f)
  | .getKey s k, f => .getKey s (fun b => (k b).bind f)
  | .panic m, _ => .panic m

instance : Monad Comp where
  pure := .ret
  bind := Comp.bind

def match_ (i : Int) : Comp Bytes := .getMatch i .ret
def key (k : Bytes) : Comp Bytes := .getKey k .ret

end Comp

/-- A `KeyBuilderContext`. -/
structure Ctx where
  getMatch : Int → Bytes
  getKey : Bytes → Bytes

/-- Run a stage against a context.  `.error msg` = the Go code panics. -/
def Comp.run {α : Type} (c : Ctx) : Comp α → Except String α
  | .ret a => .ok a
  | .getMatch i k => (k (c.getMatch i)).run c
  | .getKey s k => (k (c.getKey s)).run c
  | .panic m => .error m

/-- Run a stage against `monitorContext`: every look-up answers "" and is counted. -/
def Comp.probeN {α : Type} : Comp α → Nat → Except String (α × Nat)
  | .ret a, n => .ok (a, n)
  | .getMatch _ k, n => (k []).probeN (n + 1)
  | .getKey _ k, n => (k []).probeN (n + 1)
  | .panic m, _ => .error m

/-- `EvalStaticStage`: `(value, ok)` with `ok = (keyLookups == 0)`. -/
def Comp.probe {α : Type} (c : Comp α) : Except String (α × Bool) :=
  match c.probeN 0 with
  | .ok (a, n) => .ok (a, n == 0)
  | .error m => .error m

/-- Evaluate `inner` in a `subContext{parent: ctx, vals: [v0, v1]}`:
    `GetMatch(0/1)` answer from `vals`, larger indices answer "", a negative index is not an element
    index and passes through to the parent (this is how `{time live}` keeps touching the context when
    nested), `GetKey` goes to the parent. -/
def Comp.withSub {α : Type} (v0 v1 : Bytes) : Comp α → Comp α
  | .ret a => .ret a
  | .getMatch i k =>
    if i < 0 then .getMatch i fun b => (k b).withSub v0 v1
    else (k (if i = 0 then v0 else if i = 1 then v1 else [])).withSub v0 v1
  | .getKey s k => .getKey s (fun b => (k b).withSub v0 v1)
  | .panic m => .panic m

/-- A compiled stage. -/
abbrev Stage := Comp Bytes

def Stage.lit (b : Bytes) : Stage := .ret b

end Rare.Expr
