import Rare.Model.C07NumF64
/-!
`MatchNumerical` as a STATE MACHINE over its whole public interface (pkg/aggregation/numerical.go), so that a history
may call `Analyze()` BETWEEN samples – what `rare analyze --extra` does on every 100 ms refresh of
`helpers.RunAggregationLoop`, before the final frame.

`Analyze()` is not a pure accessor: it sorts `s.values` IN PLACE (`sort.Float64s(s.values)` /
`sort.Sort(sort.Reverse(sort.Float64Slice(s.values)))`) and returns a view `s.values[0:len(s.values)]` of the same
slice.  The later samples are appended to the SORTED slice, so the stored order is no longer the arrival order; the
next `Analyze()` sorts the whole slice again.  The model keeps exactly that state:

* `NumOp` – one call: `Samplef(v)`, `Sample(element)`, `Analyze()`;
* `NumF.analyzeInPlace` / `NumF.stepOp` / `histRun` – the executable machine (the model's merge sort for the sort);
* `HistStep` / `HistRun` – the same machine with `Analyze()` specified by the CONTRACT of Go's (unstable) sort only: the
  new content of `s.values` is ANY arrangement that is sorted for `goLess` (`IsSortedF`).  `histRun` is one such run.

`Props/C07.lean` (`num_f64_analyze_any_schedule`) proves that for every run of `HistRun` the moments are those of the
plain `Samplef` fold and every view is a sorted arrangement of ALL samples kept so far – the order statistics do not
depend on when, or how often, `Analyze()` was called before.
-/
namespace Rare.C07
open Rare

/-- One call on a `*MatchNumerical`. -/
inductive NumOp where
  | samplef (v : F64)
  | sample (element : Bytes)
  | analyze

/-- The float a call hands to `Samplef`, if any. -/
def NumOp.value? : NumOp → Option F64
  | .samplef v => some v
  | .sample e => F64.parseFloat e
  | .analyze => none

/-- Does the call count a parse error? -/
def NumOp.isParseError : NumOp → Bool
  | .sample e => (F64.parseFloat e).isNone
  | _ => false

def NumOp.isAnalyze : NumOp → Bool
  | .analyze => true
  | _ => false

/-- `Analyze()`: sorts `s.values` in place; answer = (the aggregator afterwards, `orderedValues` of the result). -/
def NumF.analyzeInPlace (rev : Bool) (s : NumF) : NumF × List F64 :=
  let o := analyzeF rev s.values
  ({ s with values := o }, o)

/-- One call; the second component is the view an `Analyze()` returns. -/
def NumF.stepOp (keep rev : Bool) (s : NumF) : NumOp → NumF × Option (List F64)
  | .samplef v => (NumF.samplef keep s v, none)
  | .sample e => (NumF.sample keep s e, none)
  | .analyze => ((s.analyzeInPlace rev).1, some (s.analyzeInPlace rev).2)

/-- A history of calls from state `s`: the final aggregator and the views of the `Analyze()` calls, in order. -/
def histRunFrom (keep rev : Bool) (s : NumF) (ops : List NumOp) : NumF × List (List F64) :=
  ops.foldl (fun (acc : NumF × List (List F64)) op =>
    ((NumF.stepOp keep rev acc.1 op).1, acc.2 ++ (NumF.stepOp keep rev acc.1 op).2.toList)) (s, [])

/-- A history of calls on a new aggregator. -/
def histRun (keep rev : Bool) (ops : List NumOp) : NumF × List (List F64) := histRunFrom keep rev NumF.new ops

/-- One call, `Analyze()` by the contract of the sort: ANY sorted arrangement of the stored values. -/
inductive HistStep (keep rev : Bool) : NumF → NumOp → NumF → Option (List F64) → Prop
  | samplef (s : NumF) (v : F64) : HistStep keep rev s (.samplef v) (NumF.samplef keep s v) none
  | sample (s : NumF) (e : Bytes) : HistStep keep rev s (.sample e) (NumF.sample keep s e) none
  | analyze (s : NumF) (o : List F64) (h : IsSortedF rev o s.values) :
      HistStep keep rev s .analyze { s with values := o } (some o)

/-- A history of calls: start state, calls, end state, the views of the `Analyze()` calls in order. -/
inductive HistRun (keep rev : Bool) : NumF → List NumOp → NumF → List (List F64) → Prop
  | nil (s : NumF) : HistRun keep rev s [] s []
  | cons {s s1 s2 : NumF} {op : NumOp} {ops : List NumOp} {o : Option (List F64)} {vs : List (List F64)}
      (h1 : HistStep keep rev s op s1 o) (h2 : HistRun keep rev s1 ops s2 vs) :
      HistRun keep rev s (op :: ops) s2 (o.toList ++ vs)

/-- The samples a history hands to `Samplef`, in arrival order. -/
def histSamples (ops : List NumOp) : List F64 := ops.filterMap NumOp.value?

/-- What `KeepValuesForAnalysis` keeps of them. -/
def keptOf (keep : Bool) (l : List F64) : List F64 := if keep then l else []

/-- The probability whose `Quantile` is the element of rank `i` of `n` (`(i + 0.5) / n`): the correspondence reads the
WHOLE view of an `Analyze()` through the public accessor with these. -/
def rankProb (n i : Nat) : F64 :=
  F64.div (F64.add (F64.ofInt (i : Int)) (F64.div (F64.ofInt 1) (F64.ofInt 2))) (F64.ofInt (n : Int))

end Rare.C07
