import Rare.Model.C07NumF64
/-!
C07 – the explicit floating-point tolerances of the numerical aggregator, as executable definitions, and the
check the driver op `agg numerr` performs (the Go side performs the same check on the REAL `MatchNumerical`
with `math/big` rationals).  `Props/C07.lean` proves (`num_f64_error_check_true`) that the check answers `true`
for every sample list of the class, so a `0` flag from the real code is a violation of the proved tolerance.
-/
namespace Rare.C07
open Rare

/-- `u = 2^-53`. -/
def unitRoundoff : Rat := 1 / ((9007199254740992 : Nat) : Rat)
/-- `η = 2^-1075`. -/
def halfMinSub : Rat := 1 / (2 * F64.two1074)

/-- `|Mean() − exact mean| ≤ (n+11)/2·u·M + (n+3)·η`. -/
def meanErrBound (M : Rat) (n : Nat) : Rat :=
  ((n : Rat) + 11) / 2 * (M * unitRoundoff) + ((n : Rat) + 3) * halfMinSub

/-- `|M2 − Σ(x − mean)²| ≤ (15n(n+1)/2 + 55n)·u·M² + 2n·η`. -/
def m2ErrBound (M : Rat) (n : Nat) : Rat :=
  (15 * ((n : Rat) * ((n : Rat) + 1)) / 2 + 55 * (n : Rat)) * (M * (M * unitRoundoff)) + 2 * (n : Rat) * halfMinSub

/-- `|Variance() − exact sample variance| ≤ m2ErrBound/(n−1) + 16·u·M² + η`. -/
def varianceErrBound (M : Rat) (n : Nat) : Rat :=
  m2ErrBound M n / ((n : Rat) - 1) + 16 * (M * M * unitRoundoff) + halfMinSub

def within (a b bound : Rat) : Bool := decide (a - b ≤ bound) && decide (b - a ≤ bound)

/-- The class of the error theorems: `e ≤ 480`, a non-empty list of finite samples of magnitude at most `2^e`. -/
def inErrClass (e : Nat) (l : List F64) : Bool :=
  decide (e ≤ 480) && !l.isEmpty &&
  l.all fun x => x.isFinite && decide (-((2 ^ e : Nat) : Rat) ≤ x.toRat) && decide (x.toRat ≤ ((2 ^ e : Nat) : Rat))

/-- (mean within tolerance, `M2` within tolerance, `Variance()` within tolerance) of the float run against the exact
statistics of the sample values. -/
def numErrCheck (e : Nat) (l : List F64) : Bool × Bool × Bool :=
  let r := runFv false l
  let q := l.map F64.toRat
  let M : Rat := ((2 ^ e : Nat) : Rat)
  (r.mean.isFinite && within r.mean.toRat (mean q) (meanErrBound M l.length),
   r.variance.isFinite && within r.variance.toRat (m2 q) (m2ErrBound M l.length),
   decide (l.length < 2) ||
     (r.varianceF.isFinite && within r.varianceF.toRat (sampleVariance q) (varianceErrBound M l.length)))

/-- The scale `2^(j − 1074)` as a rational (`j = 1074 + e` for the magnitude bound `2^e`, `e` of either sign). -/
def scaleOf (j : Nat) : Rat := ((2 ^ j : Nat) : Rat) / F64.two1074

/-- The class of the SCALED error theorems: `536 ≤ j ≤ 1554` (`2^-538 ≤ M ≤ 2^480`), a non-empty list of finite samples
of magnitude at most `M = 2^(j − 1074)` – small data gets a tolerance proportional to its own scale (`u·M`, `u·M²`). -/
def inErrClassJ (j : Nat) (l : List F64) : Bool :=
  decide (536 ≤ j) && decide (j ≤ 1554) && !l.isEmpty &&
  l.all fun x => x.isFinite && decide (-(scaleOf j) ≤ x.toRat) && decide (x.toRat ≤ scaleOf j)

/-- `numErrCheck` with the magnitude bound `M = 2^(j − 1074)`. -/
def numErrCheckJ (j : Nat) (l : List F64) : Bool × Bool × Bool :=
  let r := runFv false l
  let q := l.map F64.toRat
  let M : Rat := scaleOf j
  (r.mean.isFinite && within r.mean.toRat (mean q) (meanErrBound M l.length),
   r.variance.isFinite && within r.variance.toRat (m2 q) (m2ErrBound M l.length),
   decide (l.length < 2) ||
     (r.varianceF.isFinite && within r.varianceF.toRat (sampleVariance q) (varianceErrBound M l.length)))

end Rare.C07
