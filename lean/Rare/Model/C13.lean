import Rare.Spec.C13
/-!
Model of rare's sorters (property C13), mirroring
`pkg/aggregation/sorting/{strings,contextual,dates,namevalue,sorter}.go` and
`cmd/helpers/sorting.go` (`parseSort`, `lookupSorter`, `BuildSorter`) branch by branch.

Library calls are parameters (`Oracle`): `strings.ToLower`, `strconv.ParseFloat`,
`dateparse.ParseFormat`, `time.Parse`.  A Go closure with captured variables is a function
`σ → a → b → Bool × σ` whose state is threaded through the sequence of comparisons.
-/
namespace Rare.C13

/-- Bytes of an ASCII literal (kernel-reducible, unlike `String.toUTF8`). -/
def asc (s : String) : Bytes := s.toList.map (fun c => UInt8.ofNat c.toNat)

/-- `strings.ToLower` restricted to ASCII input (the driver declines non-ASCII keys). -/
def asciiLower (k : Key) : Key := k.map (fun c => if 65 ≤ c ∧ c ≤ 90 then c + 32 else c)

/-- Result of `strconv.ParseFloat(k, 64)`: an error, NaN, or a value.  Values are carried as
their image under a fixed order embedding of the non-NaN float64s into `Int`
(`v0 < v1 ↔ o0 < o1`, `v0 == v1 ↔ o0 = o1`; -0 and +0 have the same image). -/
inductive PF where
  | err
  | nan
  | val (o : Int)
  deriving DecidableEq, Repr

/-- `err == nil && v == v` -/
def PF.isNum : PF → Bool
  | .val _ => true
  | _ => false

def PF.ord : PF → Int
  | .val o => o
  | _ => 0

/-- Magnitude in the sense of the spec. -/
def PF.mag : PF → Option Int
  | .val o => some o
  | _ => none

/-- The trusted library functions the sorters call. -/
structure Oracle where
  /-- `strings.ToLower` -/
  lower : Key → Key
  /-- `strconv.ParseFloat(·, 64)` -/
  num : Key → PF
  /-- `dateparse.ParseFormat`: `none` = error (format `""`), `some id` = a layout -/
  dfmt : Key → Option Nat
  /-- `time.Parse(layout, ·)`: `none` = error, `some t` = the instant in ns -/
  dparse : Nat → Key → Option Int

/-- A comparator closure with captured state `σ`. -/
abbrev SCmp (α σ : Type) := σ → α → α → Bool × σ

/-- A plain function used where a closure is expected. -/
def pureCmp {α : Type} (f : α → α → Bool) : SCmp α Unit := fun s a b => (f a b, s)

/-! ## strings.go -/

def byName (a b : Key) : Bool := bytesLt a b

def byNameSmart (num : Key → PF) (a b : Key) : Bool :=
  let p0 := num a
  let p1 := num b
  let num0 := p0.isNum
  let num1 := p1.isNum
  if num0 && num1 then
    if p0.ord ≠ p1.ord then decide (p0.ord < p1.ord) else bytesLt a b
  else if num0 != num1 then num0
  else bytesLt a b

/-! ## contextual.go -/

abbrev SortSet := List (Key × Nat)

def weekdays : SortSet := [
  (asc "sunday", 0), (asc "monday", 1), (asc "tuesday", 2), (asc "wednesday", 3),
  (asc "thursday", 4), (asc "friday", 5), (asc "saturday", 6),
  (asc "sun", 0), (asc "mon", 1), (asc "tue", 2), (asc "tues", 2), (asc "wed", 3),
  (asc "thu", 4), (asc "thur", 4), (asc "thurs", 4), (asc "fri", 5), (asc "sat", 6)]

def months : SortSet := [
  (asc "january", 0), (asc "jan", 0), (asc "february", 1), (asc "feb", 1),
  (asc "march", 2), (asc "mar", 2), (asc "april", 3), (asc "apr", 3), (asc "may", 4),
  (asc "june", 5), (asc "jun", 5), (asc "july", 6), (asc "jul", 6),
  (asc "august", 7), (asc "aug", 7), (asc "september", 8), (asc "sep", 8), (asc "sept", 8),
  (asc "october", 9), (asc "oct", 9), (asc "november", 10), (asc "nov", 10),
  (asc "december", 11), (asc "dec", 11)]

def sortSets : List SortSet := [weekdays, months]

/-- `v, ok := set[k]` -/
def SortSet.get (s : SortSet) (k : Key) : Option Nat := s.lookup k

def inferSortSetByValue (sets : List SortSet) (lower : Key → Key) (val : Key) : Option SortSet :=
  let v := lower val
  sets.find? (fun set => (set.get v).isSome)

/-- Captured variables of the `ByContextualEx` closure (`set == nil` is `none`). -/
structure CtxState where
  set : Option SortSet := none
  fallback : Bool := false
  deriving DecidableEq, Repr

def byContextualEx {σ : Type} (sets : List SortSet) (lower : Key → Key) (fallbackSort : SCmp Key σ) :
    SCmp Key (CtxState × σ) := fun s a b =>
  let st := s.1
  -- if !fallback && set == nil { set = infer(a); if set == nil { fallback = true } }
  let st : CtxState :=
    if !st.fallback && st.set.isNone then
      let set := inferSortSetByValue sets lower a
      { set := set, fallback := set.isNone }
    else st
  -- a nil map answers every look-up with ok = false
  let look := fun (k : Key) => st.set.bind (fun m => m.get k)
  if !st.fallback then
    match look (lower a), look (lower b) with
    | some v0, some v1 =>
      (if v0 ≠ v1 then decide (v0 < v1) else bytesLt a b, (st, s.2))
    | _, _ =>
      let r := fallbackSort s.2 a b
      (r.1, ({ st with fallback := true }, r.2))
  else
    let r := fallbackSort s.2 a b
    (r.1, (st, r.2))

/-- `ByContextual() = ByContextualEx(ByNameSmart)` -/
def byContextual (o : Oracle) (sets : List SortSet) : SCmp Key (CtxState × Unit) :=
  byContextualEx sets o.lower (pureCmp (byNameSmart o.num))

/-! ## dates.go -/

/-- Captured variables of the `ByDate` closure (`format == ""` is `none`). -/
structure DateState where
  format : Option Nat := none
  fallback : Bool := false
  deriving DecidableEq, Repr

def byDate {σ : Type} (o : Oracle) (fallbackSort : SCmp Key σ) : SCmp Key (DateState × σ) := fun s a b =>
  let st := s.1
  if !st.fallback then
    -- if format == "" { if format, err = ParseFormat(a); err != nil { fallback = true } }
    let st : DateState :=
      if st.format.isNone then
        match o.dfmt a with
        | some f => { st with format := some f }
        | none => { st with fallback := true }
      else st
    match st.format with
    | some f =>
      match o.dparse f a, o.dparse f b with
      | some d0, some d1 =>
        (if d0 = d1 then bytesLt a b else decide (d0 < d1), (st, s.2))
      | _, _ =>
        let r := fallbackSort s.2 a b
        (r.1, ({ st with fallback := true }, r.2))
    | none =>
      let r := fallbackSort s.2 a b
      (r.1, (st, r.2))
  else
    let r := fallbackSort s.2 a b
    (r.1, (st, r.2))

/-- `ByDateWithContextual() = ByDate(ByContextual())` -/
def byDateWithContextual (o : Oracle) (sets : List SortSet) :
    SCmp Key (DateState × CtxState × Unit) :=
  byDate o (byContextual o sets)

/-! ## namevalue.go, sorter.go -/

def valueSorterEx {σ : Type} (fallback : SCmp Key σ) : SCmp NV σ := fun s a b =>
  if a.value == b.value then fallback s a.name b.name
  else (decide (a.value < b.value), s)

def valueNilSorter {σ : Type} (sorter : SCmp Key σ) : SCmp NV σ := fun s a b =>
  sorter s a.name b.name

/-- `Reverse`: `!sorter(a, b)` -/
def reverse {α σ : Type} (sorter : SCmp α σ) : SCmp α σ := fun s a b =>
  let r := sorter s a b
  (!r.1, r.2)

/-! ## cmd/helpers/sorting.go -/

/-- A built sorter: a closure together with its initial captured state. -/
structure Sorter where
  σ : Type
  init : σ
  cmp : SCmp NV σ

/-- `Splitter.Next` for a one-byte delimiter: the segment and, if a delimiter was found, the rest. -/
def splitNext (delim : UInt8) : Bytes → Bytes × Option Bytes
  | [] => ([], none)
  | c :: cs =>
    if c = delim then ([], some cs)
    else let r := splitNext delim cs; (c :: r.1, r.2)

inductive SortErr where
  | modifier   -- "invalid sort modifier"
  | unknown    -- "unknown sort"
  deriving DecidableEq, Repr

def colon : UInt8 := 58

def parseSort (lower : Key → Key) (name : Key) : Except SortErr (Key × Bool) :=
  let first := splitNext colon name
  let realname := lower first.1
  let reverse := realname == asc "value"
  match first.2 with
  | none => .ok (realname, reverse)
  | some rest =>
    let modifier := lower (splitNext colon rest).1
    if modifier == asc "rev" || modifier == asc "reverse" then .ok (realname, !reverse)
    else if modifier == asc "desc" then .ok (realname, true)
    else if modifier == asc "asc" then .ok (realname, false)
    else .error .modifier

inductive Mode where
  | text | numeric | contextual | date | value
  deriving DecidableEq, Repr

def lookupMode (lower : Key → Key) (name : Key) : Option Mode :=
  let name := lower name
  if name == asc "text" || name == [] then some .text
  else if name == asc "numeric" then some .numeric
  else if name == asc "contextual" || name == asc "context" then some .contextual
  else if name == asc "date" then some .date
  else if name == asc "value" then some .value
  else none

def modeSorter (o : Oracle) (sets : List SortSet) : Mode → Sorter
  | .text => ⟨Unit, (), valueNilSorter (pureCmp byName)⟩
  | .numeric => ⟨Unit, (), valueNilSorter (pureCmp (byNameSmart o.num))⟩
  | .contextual => ⟨CtxState × Unit, ({}, ()), valueNilSorter (byContextual o sets)⟩
  | .date => ⟨DateState × CtxState × Unit, ({}, {}, ()), valueNilSorter (byDateWithContextual o sets)⟩
  | .value => ⟨Unit, (), valueSorterEx (pureCmp byName)⟩

def lookupSorter (o : Oracle) (sets : List SortSet) (name : Key) : Except SortErr Sorter :=
  match lookupMode o.lower name with
  | some m => .ok (modeSorter o sets m)
  | none => .error .unknown

def Sorter.reversed (s : Sorter) : Sorter := ⟨s.σ, s.init, reverse s.cmp⟩

def buildSorter (o : Oracle) (sets : List SortSet) (fullName : Key) : Except SortErr Sorter :=
  match parseSort o.lower fullName with
  | .error e => .error e
  | .ok (name, rev) =>
    match lookupSorter o sets name with
    | .error e => .error e
    | .ok sorter => .ok (if rev then sorter.reversed else sorter)

/-! ## Running a closure -/

/-- Answers of a closure along a sequence of comparisons. -/
def runSeq {α σ : Type} (cmp : SCmp α σ) : σ → List (α × α) → List Bool
  | _, [] => []
  | s, (a, b) :: rest => (cmp s a b).1 :: runSeq cmp (cmp s a b).2 rest

/-- `sort.insertionSort` (what `sort.Sort` runs for `n ≤ 12`), with a stateful `Less`:
`for i := 1; i < n; i++ { for j := i; j > 0 && Less(j, j-1); j-- { Swap(j, j-1) } }`.
`insertBack` works on the reversed sorted prefix: `x` is the element at `j`, the head is `j-1`. -/
def insertBack {α σ : Type} (cmp : SCmp α σ) (x : α) : σ → List α → List α × σ
  | s, [] => ([x], s)
  | s, y :: ys =>
    let r := cmp s x y
    if r.1 then
      let t := insertBack cmp x r.2 ys
      (y :: t.1, t.2)
    else (x :: y :: ys, r.2)

def goInsertionSortAux {α σ : Type} (cmp : SCmp α σ) : σ → List α → List α → List α × σ
  | s, revPrefix, [] => (revPrefix.reverse, s)
  | s, revPrefix, x :: rest =>
    let t := insertBack cmp x s revPrefix
    goInsertionSortAux cmp t.2 t.1 rest

def goInsertionSort {α σ : Type} (cmp : SCmp α σ) (s : σ) (l : List α) : List α × σ :=
  goInsertionSortAux cmp s [] l

/-- Items collected from a Go map arrive in an arbitrary order `σ` (a permutation of the data)
and are then sorted (`Items()/Rows()/Columns()/Groups()` + `SortBy`). -/
def orderedItems {α : Type} (sortFn : List α → List α) (arrival : List α) : List α := sortFn arrival

/-! ## What each mode means (specification level), and when the inferring closures are faithful -/

/-- The name tables as the spec sees them: position of a key, if it is in the table. -/
def tablesOf (o : Oracle) (sets : List SortSet) : List (Key → Option Nat) :=
  sets.map (fun set k => set.get (o.lower k))

def numericSpec (o : Oracle) : Key → Key → Bool := numericLess (fun k => (o.num k).mag)

def contextualSpec (o : Oracle) (sets : List SortSet) (keys : List Key) : Key → Key → Bool :=
  contextualSpecLess (tablesOf o sets) (numericSpec o) keys

def dateSpec (o : Oracle) (sets : List SortSet) (keys : List Key) : Key → Key → Bool :=
  dateSpecLess o.dfmt o.dparse (contextualSpec o sets keys) keys

/-- The order a mode denotes on the rows `items` (before `:reverse`). -/
def modeSpecLess (o : Oracle) (sets : List SortSet) (items : List NV) : Mode → NV → NV → Bool
  | .text => fun a b => textLess a.name b.name
  | .numeric => fun a b => numericSpec o a.name b.name
  | .contextual => fun a b => contextualSpec o sets (items.map (·.name)) a.name b.name
  | .date => fun a b => dateSpec o sets (items.map (·.name)) a.name b.name
  | .value => valueLess

/-- Hypothesis under which the `ByContextual` closure is a function of the pair: every key infers
the same thing – all keys belong to one and the same name table, or no key is in any table. -/
def ctxUniform (o : Oracle) (sets : List SortSet) (keys : List Key) : Bool :=
  match keys with
  | [] => true
  | k0 :: _ =>
    keys.all (fun k => inferSortSetByValue sets o.lower k == inferSortSetByValue sets o.lower k0)

/-- Hypothesis under which the `ByDate(ByContextual())` closure is a function of the pair: all keys
have one and the same layout and parse with it, or no key has a layout and `ctxUniform` holds. -/
def dateUniform (o : Oracle) (sets : List SortSet) (keys : List Key) : Bool :=
  match keys with
  | [] => true
  | k0 :: _ =>
    match o.dfmt k0 with
    | some f => keys.all (fun k => o.dfmt k == some f && (o.dparse f k).isSome)
    | none => keys.all (fun k => (o.dfmt k).isNone) && ctxUniform o sets keys

def modeUniform (o : Oracle) (sets : List SortSet) : Mode → List Key → Bool
  | .contextual, keys => ctxUniform o sets keys
  | .date, keys => dateUniform o sets keys
  | _, _ => true

end Rare.C13
