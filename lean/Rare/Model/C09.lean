import Rare.Model.Expr.Core
import Rare.Spec.C09
/-!
C09 additions to the shared expression model: builders for *pure* functions (the value is a
function of the argument values, arguments evaluated left to right), the probe registry used by the
correspondence harness, and the bridge from a model context to a spec environment.
-/
namespace Rare.C09
open Rare Rare.Expr

/-- Evaluate stages left to right. -/
def seqStages : List Stage → Comp (List Bytes)
  | [] => .ret []
  | s :: rest => s.bind fun a => (seqStages rest).bind fun b => .ret (a :: b)

/-- A `KeyBuilderFunction` that evaluates all its arguments in order and applies `sem`. -/
def pureBuilder (sem : List Bytes → Bytes) : Builder := fun args =>
  .ok ⟨some ((seqStages args).bind fun vs => .ret (sem vs)), none⟩

/-- Registry in which every name of `names` is the pure function `fn name`. -/
def pureRegistry (names : List (List Char)) (fn : List Char → List Bytes → Bytes) : Registry :=
  fun name => if names.contains name then some (pureBuilder (fn name)) else none

/-- The probe: `name(len:arg…)` – injective in the argument list. -/
def probeSem (name : List Char) (args : List Bytes) : Bytes :=
  utf8 name ++ ascii "(" ++ args.flatMap (fun a => itoa a.length ++ ascii ":" ++ a) ++ ascii ")"

def probeNames : List (List Char) :=
  ["a".toList, "f".toList, "g".toList, "cat".toList, "a1".toList, "1a".toList, "é+".toList, "-".toList]

/-- Registry of the correspondence ops `tpl`/`tree`: probes, a builder that fails with a stage
    (`bad`) and one that fails without a stage (`nil`). -/
def testRegistry : Registry := fun name =>
  if name = "bad".toList then some (fun _ => .ok ⟨some (Stage.lit (ascii "<ARGN>")), some "argcount"⟩)
  else if name = "nil".toList then some (fun _ => .ok ⟨none, some "argcount"⟩)
  else pureRegistry probeNames probeSem name

mutual
/-- Every function called in the tree is registered as the pure function `fn` says. -/
def RegOk (reg : Registry) (fn : List Char → List Bytes → Bytes) : C09.Expr → Prop
  | .call f args => reg f = some (pureBuilder (fn f)) ∧ RegOkArgs reg fn args
  | .lit _ => True
  | .group _ => True
  | .key _ => True
def RegOkArgs (reg : Registry) (fn : List Char → List Bytes → Bytes) : List C09.Expr → Prop
  | [] => True
  | a :: rest => RegOk reg fn a ∧ RegOkArgs reg fn rest
end

def envOf (ctx : Ctx) (fn : List Char → List Bytes → Bytes) : Env :=
  { getMatch := fun n => ctx.getMatch n, getKey := ctx.getKey, fn := fn }

/-- What `monitorContext` answers: "" to every look-up. -/
def emptyCtx : Ctx := ⟨fun _ => [], fun _ => []⟩

/-- The meaning of function names, possibly depending on the match context (user-defined functions read
    named keys and negative indices of the caller's match). -/
abbrev Sem := Ctx → List Char → List Bytes → Bytes

/-- The spec environment of a model context under `sem`. -/
def envC (sem : Sem) (ctx : Ctx) : Env :=
  { getMatch := fun n => ctx.getMatch n, getKey := ctx.getKey, fn := sem ctx }

end Rare.C09
