/-!
The synchronisation skeleton the pipeline transition system (`Rare/Model/Pipeline.lean`) and the
aggregation-loop transition system (`Rare/Model/AggLoop.lean`) were written against, as literal
data.  `harness/extract/skeleton.go` regenerates the same lists from /repo on every run
(`Rare.Gen.Skeleton`); `Props` proves them equal.  Reading guide (token → transition):

* `openFilesToChan`: `send:sema` + `go{` = `Step.start`; `call:out.syncReaderToBatcher` = the `Step.send`s
  of that source; the deferred `recv:sema`, `call:out.stopFileReading` (status bookkeeping, a stuttering step),
  `call:wg.Done` = `Step.finish`; `call:wg.Wait`,
  `call:out.close` (after the spawn loop) = `Step.closeC`.
* `syncReaderToBatcher*`: one `send:s.c` inside the scan loop and one after it (the remainder) =
  exactly the batches of `Rare.Batcher.run`.
* `asyncWorker`: `recv:inputBatch` = `Step.wrecv` / (`break`) `Step.wexit`; `call:si.processLineSync` in
  the range loop = `Step.wproc`; `send:s.readChan` = `Step.wsend` (guarded by `len(matchBatch) > 0`,
  else `Step.wskip`); `defer:wg.Done` = part of `Step.wexit`.
* `extractorNew`: `makechan:5` = capacity `K`; `go{ call:wg.Wait, close:extractor.readChan }` = `Step.closeRC`.
* `processLineSync`: the three `atomic.AddUint64` counters, read first.
-/
namespace Rare.PipelineSkeleton

def openFilesToChan : List String := ["makechan:concurrency", "go{", "range:bufferedFilenames{", "send:sema", "call:wg.Add", "call:out.setSourceCount", "go{", "defer{", "recv:sema", "call:out.stopFileReading", "call:wg.Done", "}", "call:out.incErrors", "return", "defer:file.Close", "call:out.startFileReading", "call:out.syncReaderToBatcher", "}", "}", "call:wg.Wait", "call:out.close", "}", "return"]

def openReaderToChan : List String := ["go{", "defer:reader.Close", "defer:out.close", "call:out.startFileReading", "call:out.syncReaderToBatcherWithTimeFlush", "}", "return"]

def syncReaderToBatcher : List String := ["func{", "call:s.incErrors", "}", "for{", "call:readahead.Scan", "send:s.c", "call:s.incReadBytes", "}", "send:s.c", "call:s.incReadBytes"]

def batcherClose : List String := ["close:s.c"]

def processLineSync : List String := ["atomic.AddUint64:&s.readLines", "call:s.matcher.FindSubmatchIndex", "call:s.ignore.IgnoreMatch", "call:s.keyBuilder.BuildKey", "atomic.AddUint64:&s.matchedLines", "return", "atomic.AddUint64:&s.ignoredLines", "atomic.AddUint64:&s.ignoredLines", "return"]

def asyncWorker : List String := ["defer:wg.Done", "for{", "recv:inputBatch", "break", "range:batch.Batch{", "call:si.processLineSync", "}", "send:s.readChan", "}"]

def extractorNew : List String := ["return", "makechan:5", "for{", "call:wg.Add", "go:extractor.asyncWorker", "}", "go{", "call:wg.Wait", "close:extractor.readChan", "}", "return"]

def runAggregationLoop : List String := ["makechan:0", "go{", "for{", "select{", "recv:outputDone", "return", "recv:time.After(100*time.Millisecond)", "call:outputMutex.Lock", "call:writeOutput", "call:outputMutex.Unlock", "}", "}", "}", "makechan:1", "for{", "select{", "recv:exitSignal", "break:PROCESSING_LOOP", "recv:reader", "break:PROCESSING_LOOP", "call:outputMutex.Lock", "range:matchBatch{", "call:aggregator.Sample", "}", "call:outputMutex.Unlock", "}", "}", "send:outputDone", "call:writeOutput"]

end Rare.PipelineSkeleton
