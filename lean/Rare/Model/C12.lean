import Rare.Spec.C12
/-!
Executable model of `pkg/matchers/dissect/{dissect,case}.go` and `pkg/slicepool/intpool.go`
(as repaired by the two `fix:` commits for F16/F17: delimiters end at the next `%{`, and
ignore-case folds ASCII letters byte-wise on both the pattern and the line).

* `strings.Index` is a library call, written here as its documented contract (`stringsIndex`,
  = least index of an occurrence or -1).  What Go really runs (go1.23 `stringslite.Index`:
  switch arms, IndexByte-skip loop, Rabin–Karp fall-back) is mirrored in `Model/C12Go.lean`
  (`goIndex`) and PROVED equal to this contract (`go_index_eq_contract` in `Props/C12.lean`).
* `indexIgnoreCase` is mirrored branch by branch (four `switch` arms, two nested loops).
* `CompileEx` is the loop `compileLoop` over `compileStep` (fuel = len(expr)+1, the expression strictly shrinks).
  The Go map `groupNames` is an association list in insertion order.
* `FindSubmatchIndex` writes into an `IntPool` slice.  The pool is explicit memory:
  `heap` holds every array ever `make`d, a slice is a `View (arr, start, len)`, `ret[i] = x`
  is `Pool.write`, and a result is read back through `Pool.read` at any later state.
* Go panics (`index out of range`, `slice bounds`, `pool not large enough`) are `Except String`.
-/
namespace Rare.C12

/-! ### strings.Index / indexIgnoreCase -/

/-- `strings.Index(s, sub)` by contract. -/
def stringsIndex (s sub : Bytes) : Int :=
  match firstIndex sub s with
  | some i => (i : Int)
  | none => -1

/-- inner loop `for j := 0; j < n; j++ { if lowerByte(s[i+j]) != low[j] {…break} }` on `s[i:]`;
running out of `s` would be an index panic in Go – unreachable because `len(s[i:]) ≥ n`,
reported as "no match" here and excluded by `foldEq_eq` -/
def foldEq : Bytes → Bytes → Bool
  | _, [] => true
  | [], _ :: _ => false
  | c :: cs, l :: ls => if lowerByte c != l then false else foldEq cs ls

/-- outer loop of the `default` arm: `rest = s[i:]`, condition `i <= len(s)-n` is `len(rest) ≥ n`. -/
def icLoop (low : Bytes) (n : Nat) : Bytes → Nat → Int
  | [], i => if n = 0 then (if foldEq [] low then (i : Int) else -1) else -1
  | c :: cs, i =>
    if (c :: cs).length < n then -1
    else if foldEq (c :: cs) low then (i : Int)
    else icLoop low n cs (i + 1)

def indexIgnoreCase (s low : Bytes) : Int :=
  let n := low.length
  if n = 0 then 0
  else if s.length < n then -1
  else if s.length = n then (if foldEq s low then 0 else -1)
  else icLoop low n s 0

/-! ### CompileEx -/

structure Token where
  name : Bytes
  until_ : Bytes
  skip : Bool
  deriving Repr, DecidableEq

structure Dissect where
  tokens : List Token
  pre : Bytes
  ic : Bool                        -- which `indexOf` was installed
  groupNames : List (Bytes × Nat)  -- the map, in insertion order
  groupCount : Nat
  deriving Repr, DecidableEq

def Dissect.indexOf (d : Dissect) (src of_ : Bytes) : Int :=
  if d.ic then indexIgnoreCase src of_ else stringsIndex src of_

structure CState where
  parts : List Token := []
  groupNames : List (Bytes × Nat) := []
  pre : Bytes := []
  groupIndex : Nat := 0
  deriving Repr

inductive CErr | unclosed | sequential | conflict | fuel
  deriving Repr, DecidableEq

def lookupName (m : List (Bytes × Nat)) (k : Bytes) : Bool := m.any (fun e => e.1 == k)

/-- the `switch` on the key name ("special flags"): `(skipped, keyName)` -/
def specialFlags (keyName : Bytes) : Bool × Bytes :=
  if keyName.length = 0 then (true, keyName)
  else if keyName.head? = some qmark then (true, keyName.drop 1)
  else (false, keyName)

/-- One iteration of the `for { … }` loop of `CompileEx`; `expr` is the not yet consumed pattern
text.  `.inl st` = `break`, `.inr (expr, st)` = next iteration. -/
def compileStep (ic : Bool) (expr : Bytes) (st : CState) : Except CErr (CState ⊕ (Bytes × CState)) :=
  let start := stringsIndex expr [pct, lbrace]
  if start < 0 then
    -- no tokens left
    .ok (.inl (if st.parts.length = 0 then { st with pre := expr } else st))
  else
    let st := if st.parts.length = 0 then { st with pre := expr.take start.toNat } else st
    let expr := expr.drop (start.toNat + 2)
    let stop := stringsIndex expr [rbrace]
    if stop < 0 then .error .unclosed
    else
      let keyName := expr.take stop.toNat
      let expr := expr.drop (stop.toNat + 1)
      -- end is the next token OR end of expr
      let end0 := stringsIndex expr [pct, lbrace]
      if ¬ end0 < 0 ∧ end0 = 0 then .error .sequential
      else
        let end_ : Nat := if end0 < 0 then expr.length else end0.toNat
        let keyUntil := expr.take end_
        let expr := expr.drop end_
        let keyUntil := if ic then lower keyUntil else keyUntil
        let sf := specialFlags keyName
        let st := { st with parts := st.parts ++ [⟨sf.2, keyUntil, sf.1⟩] }
        if !sf.1 then
          if lookupName st.groupNames sf.2 then .error .conflict
          else
            let gi := st.groupIndex + 1
            .ok (.inr (expr, { st with groupIndex := gi, groupNames := st.groupNames ++ [(sf.2, gi)] }))
        else .ok (.inr (expr, st))

def compileLoop (ic : Bool) : Nat → Bytes → CState → Except CErr CState
  | 0, _, _ => .error .fuel
  | fuel + 1, expr, st =>
    match compileStep ic expr st with
    | .error e => .error e
    | .ok (.inl st) => .ok st
    | .ok (.inr (expr, st)) => compileLoop ic fuel expr st

def compileEx (expr : Bytes) (ic : Bool) : Except CErr Dissect :=
  match compileLoop ic (expr.length + 1) expr {} with
  | .error e => .error e
  | .ok st =>
    .ok { groupNames := st.groupNames, groupCount := st.groupIndex, tokens := st.parts,
          pre := if ic then lower st.pre else st.pre, ic := ic }

/-! ### slicepool.IntPool as explicit memory -/

structure View where
  arr : Nat
  start : Nat
  len : Nat
  deriving Repr, DecidableEq

structure Pool where
  size : Nat
  heap : List (List Int)   -- every array ever allocated (nothing is ever freed in the model)
  cur : Nat                -- `s.pool` is a slice of `heap[cur]` …
  off : Nat                -- … starting at `off`
  deriving Repr

def Pool.new (size : Nat) : Pool := ⟨size, [List.replicate size 0], 0, 0⟩

/-- `len(s.pool)` -/
def Pool.remaining (p : Pool) : Nat := (p.heap.getD p.cur []).length - p.off

def Pool.get (p : Pool) (n : Nat) : Except String (View × Pool) :=
  if p.remaining < n then
    if n > p.size then .error "pool not large enough"
    else
      -- s.pool = make([]int, s.size); ret = s.pool[:n]; s.pool = s.pool[n:]
      let p' : Pool := { p with heap := p.heap ++ [List.replicate p.size 0], cur := p.heap.length, off := 0 }
      .ok (⟨p'.cur, 0, n⟩, { p' with off := n })
  else
    .ok (⟨p.cur, p.off, n⟩, { p with off := p.off + n })

/-- `ret[i] = x` -/
def Pool.write (p : Pool) (v : View) (i : Nat) (x : Int) : Except String Pool :=
  if i < v.len then .ok { p with heap := p.heap.modify v.arr (fun a => a.set (v.start + i) x) }
  else .error "index out of range"

/-- contents of a slice in the current memory -/
def Pool.read (p : Pool) (v : View) : List Int := ((p.heap.getD v.arr []).drop v.start).take v.len

/-! ### FindSubmatchIndex -/

structure Instance where
  d : Dissect
  pool : Pool
  deriving Repr

/-- `CreateInstance` -/
def Dissect.createInstance (d : Dissect) : Instance := ⟨d, Pool.new ((d.groupCount * 2 + 2) * 1024)⟩

/-- The `for _, token := range s.tokens` loop.  Result `none` = `return nil` inside the loop,
`some start` = fell through with the final `start`. -/
def tokenLoop (d : Dissect) (str : Bytes) (ret : View) :
    List Token → Int → Nat → Pool → Except String (Option Int × Pool)
  | [], start, _, pool => .ok (some start, pool)
  | t :: ts, start, idx, pool =>
    if start < 0 ∨ (str.length : Int) < start then .error "slice bounds out of range"
    else
      let rest := str.drop start.toNat
      let endOffset : Int := if t.until_ = [] then rest.length else d.indexOf rest t.until_
      if endOffset < 0 then .ok (none, pool)
      else
        if !t.skip then
          match pool.write ret idx start with
          | .error e => .error e
          | .ok pool =>
            match pool.write ret (idx + 1) (start + endOffset) with
            | .error e => .error e
            | .ok pool => tokenLoop d str ret ts (start + endOffset + t.until_.length) (idx + 2) pool
        else tokenLoop d str ret ts (start + endOffset + t.until_.length) idx pool

def findSubmatchIndex (s : Instance) (str : Bytes) : Except String (Option View × Instance) :=
  let d := s.d
  let startE : Option Int :=
    if d.pre ≠ [] then
      let st := d.indexOf str d.pre
      if st < 0 then none else some (st + d.pre.length)
    else some 0
  match startE with
  | none => .ok (none, s)
  | some start =>
    match s.pool.get (d.groupCount * 2 + 2) with
    | .error e => .error e
    | .ok (ret, pool) =>
      match pool.write ret 0 (start - d.pre.length) with
      | .error e => .error e
      | .ok pool =>
        match tokenLoop d str ret d.tokens start 2 pool with
        | .error e => .error e
        | .ok (none, pool) => .ok (none, { s with pool := pool })
        | .ok (some start, pool) =>
          match pool.write ret 1 start with
          | .error e => .error e
          | .ok pool => .ok (some ret, { s with pool := pool })

/-- Match a sequence of lines with ONE instance, keeping every returned slice (no copy). -/
def runLines : Instance → List Bytes → Except String (List (Option View) × Instance)
  | s, [] => .ok ([], s)
  | s, l :: ls =>
    match findSubmatchIndex s l with
    | .error e => .error e
    | .ok (r, s) =>
      match runLines s ls with
      | .error e => .error e
      | .ok (rs, s) => .ok (r :: rs, s)

/-- The observable of the property: compile once, create ONE instance, match all lines, and only
then read every returned slice (`none` = no match). -/
def matchAll (d : Dissect) (lines : List Bytes) : Except String (List (Option (List Int))) :=
  match runLines d.createInstance lines with
  | .error e => .error e
  | .ok (vs, s) => .ok (vs.map fun o => o.map s.pool.read)

end Rare.C12
