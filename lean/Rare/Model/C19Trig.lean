import Rare.Base.F64
/-!
# C19 (round 4c): `sin cos tan asin acos atan` of `uniOps` – Go's `math` package as it runs

`ops.go` binds the keys `sin cos tan asin acos atan` to `math.Sin` … `math.Atan`.  On amd64 (the platform of the
check) none of them has an assembly routine (`haveArchSin` … are false; only s390x has some): they are the pure-Go
Cephes translations `src/math/sin.go`, `tan.go`, `atan.go`, `asin.go`, `trig_reduce.go` – fixed sequences of
binary64 `+ - * /`, comparisons, `uint64(x)`/`float64(j)` conversions, `Sqrt`, and – for arguments ≥ 2^29 – the
Payne-Hanek reduction on 64-bit integers against 1216 bits of 4/π.  The amd64 back end of the compiler fuses no
multiply-add (only an explicit `math.FMA` becomes VFMADD231SD), so every operation rounds once.  They are mirrored here operation by operation on the software binary64
model (`Rare.F64`), in the association order Go's grammar gives the source expressions; untyped constant
expressions (`4 / Pi`, `Pi / 2`, `0.5 * Morebits`) are the exact value rounded once, as the compiler does.

`Props/C19.lean` `trig_platform` evaluates these definitions in the kernel at probe arguments whose values the
toolchain computed (`Gen.C19.trigProbes`, regenerated on every run) – another routine behind `math.Sin` breaks it.

Core Lean only.
-/
namespace Rare.C19.Trig
open Rare

/-- A constant given by its bit pattern. -/
def c (bits : Nat) : F64 := F64.ofSM (decide (9223372036854775808 ≤ bits)) bits

def zeroP : F64 := F64.zero false
def half : F64 := c 0x3fe0000000000000
def negOne : F64 := c 0xbff0000000000000

/-! ## `sin.go` -/

/-- `4 / Pi` (constant expression, rounded once) -/
def fourOverPi : F64 := c 0x3ff45f306dc9c883
/-- `PI4A`, `PI4B`, `PI4C`: π/4 split into three parts -/
def pi4a : F64 := c 0x3fe921fb40000000
def pi4b : F64 := c 0x3e64442d00000000
def pi4c : F64 := c 0x3ce8469898cc5170
/-- `_sin[0..5]` -/
def sin0 : F64 := c 0x3de5d8fd1fd19ccd
def sin1 : F64 := c 0xbe5ae5e5a9291f5d
def sin2 : F64 := c 0x3ec71de3567d48a1
def sin3 : F64 := c 0xbf2a01a019bfdf03
def sin4 : F64 := c 0x3f8111111110f7d0
def sin5 : F64 := c 0xbfc5555555555548
/-- `_cos[0..5]` -/
def cos0 : F64 := c 0xbda8fa49a0861a9b
def cos1 : F64 := c 0x3e21ee9d7b4e3f05
def cos2 : F64 := c 0xbe927e4f7eac4bc6
def cos3 : F64 := c 0x3efa01a019c844f5
def cos4 : F64 := c 0xbf56c16c16c14f91
def cos5 : F64 := c 0x3fa555555555554b
/-- `reduceThreshold = 1 << 29` -/
def reduceThreshold : F64 := c 0x41c0000000000000
/-- `PI4 = Pi / 4` of `trigReduce` -/
def pi4 : F64 := c 0x3fe921fb54442d18

/-! ### `trig_reduce.go`: Payne-Hanek -/

/-- `mPi4`: the binary digits of 4/π, 64 per entry. -/
def mPi4 : List Nat :=
  [0x0000000000000001, 0x45f306dc9c882a53, 0xf84eafa3ea69bb81, 0xb6c52b3278872083, 0xfca2c757bd778ac3,
   0x6e48dc74849ba5c0, 0x0c925dd413a32439, 0xfc3bd63962534e7d, 0xd1046bea5d768909, 0xd338e04d68befc82,
   0x7323ac7306a673e9, 0x3908bf177bf25076, 0x3ff12fffbc0b301f, 0xde5e2316b414da3e, 0xda6cfd9e4f96136e,
   0x9e8c7ecd3cbfd45a, 0xea4f758fd7cbe2f6, 0x7a0e73ef14a525d4, 0xd7f6bf623f1aba10, 0xac06608df8f6d757]

def W : Nat := 18446744073709551616

/-- `a << n` on `uint64` (Go: a count ≥ 64 gives 0). -/
def shl64 (a n : Nat) : Nat := (a <<< n) % W
/-- `bits.LeadingZeros64` -/
def lz64 (a : Nat) : Nat := if a = 0 then 64 else 63 - a.log2

/-- `trigReduce(x)` for `x ≥ reduceThreshold` (finite): `j` = integer part of `x/(π/4)` mod 8 (made even), `z` = the
    fractional part times π/4.  All of it is `uint64` arithmetic on the bit pattern; the two `float64` operations
    are the last ones (`z--`, `z * PI4`). -/
def trigReduce (x : F64) : Nat × F64 :=
  if F64.lt x pi4 then (0, x)
  else
    let exp : Int := (x.expField : Int) - 1023 - 52
    let ix := 4503599627370496 + x.frac               -- ix &^= mask<<shift; ix |= 1<<shift
    let e61 := (exp + 61).toNat
    let digit := e61 / 64
    let bitshift := e61 % 64
    let m := fun i => mPi4.getD i 0
    let z0 := shl64 (m digit) bitshift ||| (m (digit + 1) >>> (64 - bitshift))
    let z1 := shl64 (m (digit + 1)) bitshift ||| (m (digit + 2) >>> (64 - bitshift))
    let z2 := shl64 (m (digit + 2)) bitshift ||| (m (digit + 3) >>> (64 - bitshift))
    let z2hi := (z2 * ix) / W
    let z1hi := (z1 * ix) / W
    let z1lo := (z1 * ix) % W
    let z0lo := (z0 * ix) % W
    let lo := (z1lo + z2hi) % W
    let cy := (z1lo + z2hi) / W
    let hi := (z0lo + z1hi + cy) % W
    let j := hi >>> 61
    let hi := shl64 hi 3 ||| (lo >>> 61)
    let lz := lz64 hi
    let e := 1023 - (lz + 1)                          -- uint64(bias - (lz+1)); lz ≤ 64
    -- `lo >> (64 - (lz+1))`: the count is unsigned, so for lz = 64 it wraps to a huge count and the result is 0
    let hi := shl64 hi (lz + 1) ||| (if lz + 1 ≤ 64 then lo >>> (64 - (lz + 1)) else 0)
    let hi := hi >>> 12
    let hi := hi ||| (e <<< 52)
    let z := c (hi % W)
    if j % 2 = 1 then ((j + 1) % 8, F64.mul (F64.sub z F64.one) pi4)
    else (j, F64.mul z pi4)

/-- The reduction both `sin`, `cos` (and, without `j &= 7`, `tan`) start with, for `x ≥ 0` finite:
    `(j, z)` with `j` the octant (as the code leaves it, `mask7` = apply `j &= 7`). -/
def reduce (mask7 : Bool) (x : F64) : Nat × F64 :=
  if F64.le reduceThreshold x then trigReduce x
  else
    let j0 := (F64.toInt64 (F64.mul x fourOverPi)).toNat      -- uint64(x * (4 / Pi))
    let y0 := F64.ofInt j0                                     -- float64(j)
    let odd := j0 % 2 = 1
    let j1 := if odd then j0 + 1 else j0
    let y := if odd then F64.add y0 F64.one else y0
    let j := if mask7 then j1 % 8 else j1
    (j, F64.sub (F64.sub (F64.sub x (F64.mul y pi4a)) (F64.mul y pi4b)) (F64.mul y pi4c))

/-- `((((((_sin[0]*zz)+_sin[1])*zz+_sin[2])*zz+_sin[3])*zz+_sin[4])*zz+_sin[5])` and `y = z + z*zz*(…)` -/
def sinPoly (z zz : F64) : F64 :=
  let p := F64.add (F64.mul (F64.add (F64.mul (F64.add (F64.mul (F64.add (F64.mul (F64.add (F64.mul sin0 zz) sin1) zz) sin2) zz) sin3) zz) sin4) zz) sin5
  F64.add z (F64.mul (F64.mul z zz) p)

/-- `y = 1.0 - 0.5*zz + zz*zz*(…_cos…)` -/
def cosPoly (zz : F64) : F64 :=
  let p := F64.add (F64.mul (F64.add (F64.mul (F64.add (F64.mul (F64.add (F64.mul (F64.add (F64.mul cos0 zz) cos1) zz) cos2) zz) cos3) zz) cos4) zz) cos5
  F64.add (F64.sub F64.one (F64.mul half zz)) (F64.mul (F64.mul zz zz) p)

/-- `sin` after the special cases: `x > 0` finite, `sign` = the saved sign. -/
def sinBody (x : F64) (sign : Bool) : F64 :=
  let (j, z) := reduce true x
  let sign := if j > 3 then !sign else sign
  let j := if j > 3 then j - 4 else j
  let zz := F64.mul z z
  let y := if j = 1 || j = 2 then cosPoly zz else sinPoly z zz
  if sign then F64.neg y else y

/-- `math.Sin` -/
def sin (x : F64) : F64 :=
  if F64.eq x zeroP || x.isNaN then x
  else if x.isInf then F64.nan
  else if F64.lt x zeroP then sinBody (F64.neg x) true
  else sinBody x false

/-- `cos` after the special cases, on `Abs(x)`. -/
def cosBody (x : F64) : F64 :=
  let (j, z) := reduce true x
  let sign := j > 3
  let j := if j > 3 then j - 4 else j
  let sign := if j > 1 then !sign else sign
  let zz := F64.mul z z
  let y := if j = 1 || j = 2 then sinPoly z zz else cosPoly zz
  if sign then F64.neg y else y

/-- `math.Cos` -/
def cos (x : F64) : F64 :=
  if x.isNaN || x.isInf then F64.nan
  else cosBody (F64.abs x)

/-! ## `tan.go` -/

def tanP0 : F64 := c 0xc0c992d8d24f3f38
def tanP1 : F64 := c 0x413199eca5fc9ddd
def tanP2 : F64 := c 0xc1711fead3299176
def tanQ1 : F64 := c 0x40cab8a5eeb36572
def tanQ2 : F64 := c 0xc13427bc582abc96
def tanQ3 : F64 := c 0x4177d98fc2ead8ef
def tanQ4 : F64 := c 0xc189afe03cbe5a31
/-- `1e-14` -/
def tanEps : F64 := c 0x3d06849b86a12b9b

def tanBody (x : F64) (sign : Bool) : F64 :=
  let (j, z) := reduce false x
  let zz := F64.mul z z
  let y :=
    if F64.lt tanEps zz then
      let p := F64.add (F64.mul (F64.add (F64.mul tanP0 zz) tanP1) zz) tanP2
      let q := F64.add (F64.mul (F64.add (F64.mul (F64.add (F64.mul (F64.add zz tanQ1) zz) tanQ2) zz) tanQ3) zz) tanQ4
      F64.add z (F64.mul z (F64.div (F64.mul zz p) q))
    else z
  let y := if (j / 2) % 2 = 1 then F64.div negOne y else y       -- j&2 == 2
  if sign then F64.neg y else y

/-- `math.Tan` -/
def tan (x : F64) : F64 :=
  if F64.eq x zeroP || x.isNaN then x
  else if x.isInf then F64.nan
  else if F64.lt x zeroP then tanBody (F64.neg x) true
  else tanBody x false

/-! ## `atan.go`, `asin.go` -/

def atP0 : F64 := c 0xbfec007fa1f72594
def atP1 : F64 := c 0xc03028545b6b807a
def atP2 : F64 := c 0xc052c08c36880273
def atP3 : F64 := c 0xc05eb8bf2d05ba25
def atP4 : F64 := c 0xc0503669fd28ec8e
def atQ0 : F64 := c 0x4038dbc45b14603c
def atQ1 : F64 := c 0x4064a0dd43b8fa25
def atQ2 : F64 := c 0x407b0e18d2e2be3b
def atQ3 : F64 := c 0x407e563f13b049ea
def atQ4 : F64 := c 0x4068519efbbd62ec
/-- `Morebits`, `0.5*Morebits`, `Tan3pio8`, `Pi/2`, `Pi/4`, `0.66`, `0.7` -/
def morebits : F64 := c 0x3c91a62633145c07
def halfMorebits : F64 := c 0x3c81a62633145c07
def tan3pio8 : F64 := c 0x4003504f333f9de6
def pio2 : F64 := c 0x3ff921fb54442d18
def c066 : F64 := c 0x3fe51eb851eb851f
def c07 : F64 := c 0x3fe6666666666666

/-- `xatan`: the series on `[0, 0.66]` -/
def xatan (x : F64) : F64 :=
  let z := F64.mul x x
  let p := F64.add (F64.mul (F64.add (F64.mul (F64.add (F64.mul (F64.add (F64.mul atP0 z) atP1) z) atP2) z) atP3) z) atP4
  let q := F64.add (F64.mul (F64.add (F64.mul (F64.add (F64.mul (F64.add (F64.mul (F64.add z atQ0) z) atQ1) z) atQ2) z) atQ3) z) atQ4
  let z := F64.div (F64.mul z p) q
  F64.add (F64.mul x z) x

/-- `satan`: reduction of a positive argument -/
def satan (x : F64) : F64 :=
  if F64.le x c066 then xatan x
  else if F64.lt tan3pio8 x then F64.add (F64.sub pio2 (xatan (F64.div F64.one x))) morebits
  else F64.add (F64.add pi4 (xatan (F64.div (F64.sub x F64.one) (F64.add x F64.one)))) halfMorebits

/-- `math.Atan` -/
def atan (x : F64) : F64 :=
  if F64.eq x zeroP then x
  else if F64.lt zeroP x then satan x
  else F64.neg (satan (F64.neg x))

/-- `math.Asin` -/
def asin (x : F64) : F64 :=
  if F64.eq x zeroP then x
  else
    let sign := F64.lt x zeroP
    let x := if sign then F64.neg x else x
    if F64.lt F64.one x then F64.nan
    else
      let temp := F64.sqrt (F64.sub F64.one (F64.mul x x))
      let temp := if F64.lt c07 x then F64.sub pio2 (satan (F64.div temp x)) else satan (F64.div x temp)
      if sign then F64.neg temp else temp

/-- `math.Acos` -/
def acos (x : F64) : F64 := F64.sub pio2 (asin x)

end Rare.C19.Trig
