import Rare.Spec.C18
import Rare.Base.F64
/-!
# C18 – model of `pkg/expressions/stdlib/funcsTime.go` (after the `fix:` commit for F13)

Two layers.

* **rare's own code**, mirrored branch by branch: the named-format table and
  `namedTimeFormatToFormat`, `timeBucketToFormat` (`isPartialString` prefix matching, first hit
  wins), the attribute functions of `attrType`, the dispatch of `smartDateParseWrapper`
  (`auto` / `cache` with the cached layout as state / explicit layout), `parseTimezoneLocation`,
  unix-second conversion, `kfDuration` / `kfDurationFormat`.
* **the part of Go's `time` package rare calls**, as an executable reference: the layout
  tokenizer (`nextStdChunk`), the layout-driven formatter (`appendFormat`) and parser (`parse`),
  `Duration.String`, `ParseDuration`.  The calendar underneath is the independent one of
  `Rare/Spec/C18.lean`; the zone is a parameter (`off`, `abbr` in force at the instant, supplied
  by the harness from what Go reports), so there is no tz database here.  `dateparse` is an oracle.
-/
namespace Rare.C18

/-- Bytes of an ASCII literal (kernel-reducible). -/
def asc (s : String) : Bytes := s.toList.map (fun c => UInt8.ofNat c.toNat)

def upperB (c : UInt8) : UInt8 := if 97 ≤ c ∧ c ≤ 122 then c - 32 else c
def lowerB (c : UInt8) : UInt8 := if 65 ≤ c ∧ c ≤ 90 then c + 32 else c
/-- `strings.ToUpper` / `strings.ToLower` on ASCII input. -/
def toUpper (s : Bytes) : Bytes := s.map upperB
def toLower (s : Bytes) : Bytes := s.map lowerB

/-! ## rare: the named formats -/

def rfc3339 : Bytes := asc "2006-01-02T15:04:05Z07:00"

/-- Hand copy of `timeFormats` (sorted by key); `Props` proves it equal to the generated table. -/
def timeFormats : List (Bytes × Bytes) := [
  (asc "", rfc3339),
  (asc "ANSIC", asc "Mon Jan _2 15:04:05 2006"),
  (asc "DAY", asc "02"),
  (asc "HOUR", asc "15"),
  (asc "MINUTE", asc "04"),
  (asc "MNTH", asc "Jan"),
  (asc "MONTH", asc "01"),
  (asc "MONTHNAME", asc "January"),
  (asc "NGINX", asc "_2/Jan/2006:15:04:05 -0700"),
  (asc "NTIMEZONE", asc "-0700"),
  (asc "NTZ", asc "-0700"),
  (asc "RFC1123", asc "Mon, 02 Jan 2006 15:04:05 MST"),
  (asc "RFC1123Z", asc "Mon, 02 Jan 2006 15:04:05 -0700"),
  (asc "RFC3339", rfc3339),
  (asc "RFC3339N", asc "2006-01-02T15:04:05.999999999Z07:00"),
  (asc "RFC822", asc "02 Jan 06 15:04 MST"),
  (asc "RFC822Z", asc "02 Jan 06 15:04 -0700"),
  (asc "RUBY", asc "Mon Jan 02 15:04:05 -0700 2006"),
  (asc "SECOND", asc "05"),
  (asc "TIMEZONE", asc "MST"),
  (asc "UNIX", asc "Mon Jan _2 15:04:05 MST 2006"),
  (asc "WDAY", asc "Mon"),
  (asc "WEEKDAY", asc "Monday"),
  (asc "YEAR", asc "2006")]

def lookupB (tbl : List (Bytes × Bytes)) (k : Bytes) : Option Bytes :=
  match tbl.find? (fun e => e.1 == k) with
  | some e => some e.2
  | none => none

/-- `namedTimeFormatToFormat`. -/
def namedTimeFormatToFormat (tbl : List (Bytes × Bytes)) (f : Bytes) : Bytes :=
  match lookupB tbl (toUpper f) with
  | some m => m
  | none => f

/-! ## rare: bucket name → layout -/

/-- `isPartialString(s, word)`: `s` is a prefix of `word`. -/
def isPartialString : Bytes → Bytes → Bool
  | [], _ => true
  | _ :: _, [] => false
  | a :: s, b :: w => a == b && isPartialString s w

/-- Hand copy of the `if … else if` chain of `timeBucketToFormat`, in source order. -/
def bucketTable : List (Bytes × Bytes) := [
  (asc "nanos", asc "2006-01-02 15:04:05.999999999"),
  (asc "seconds", asc "2006-01-02 15:04:05"),
  (asc "minutes", asc "2006-01-02 15:04"),
  (asc "hours", asc "2006-01-02 15"),
  (asc "days", asc "2006-01-02"),
  (asc "months", asc "2006-01"),
  (asc "years", asc "2006")]

/-- `timeBucketToFormat`: the first word `name` (lower-cased) is a prefix of; `""` if none. -/
def timeBucketToFormat (tbl : List (Bytes × Bytes)) (name : Bytes) : Bytes :=
  match tbl.find? (fun e => isPartialString (toLower name) e.1) with
  | some e => e.2
  | none => []

/-! ## Go `time`: layout tokens (`nextStdChunk`) -/

inductive ZKind | hhmm | seconds | short | colon | colonSeconds
  deriving DecidableEq, Repr

inductive Std
  | longMonth | month | numMonth | zeroMonth | longWeekDay | weekDay | day | underDay | zeroDay
  | underYearDay | zeroYearDay | hour | hour12 | zeroHour12 | minute | zeroMinute | second | zeroSecond
  | longYear | year | pm | pmLower | tz
  | isoTZ (k : ZKind) | numTZ (k : ZKind)
  | frac0 (n : Nat) (sep : UInt8) | frac9 (n : Nat) (sep : UInt8)
  deriving DecidableEq, Repr

inductive Tok
  | lit (b : Bytes)
  | std (s : Std)
  deriving DecidableEq, Repr

/-- `some rest` when `l = p ++ rest`. -/
def strip : Bytes → Bytes → Option Bytes
  | [], l => some l
  | _ :: _, [] => none
  | a :: p, b :: l => if a = b then strip p l else none

def isDigitAt (l : Bytes) : Bool :=
  match l with
  | c :: _ => decide (48 ≤ c ∧ c ≤ 57)
  | [] => false

def startsWithLowerCase (l : Bytes) : Bool :=
  match l with
  | c :: _ => decide (97 ≤ c ∧ c ≤ 122)
  | [] => false

/-- The zone-offset spellings, longest first, exactly in the order `nextStdChunk` tries them. -/
def zoneSpellings (lead : String) (mk : ZKind → Std) : List (Bytes × Std) := [
  (asc (lead ++ "070000"), mk .seconds), (asc (lead ++ "07:00:00"), mk .colonSeconds),
  (asc (lead ++ "0700"), mk .hhmm), (asc (lead ++ "07:00"), mk .colon), (asc (lead ++ "07"), mk .short)]

def firstStrip : List (Bytes × Std) → Bytes → Option (Std × Bytes)
  | [], _ => none
  | (p, s) :: r, l => match strip p l with
    | some rest => some (s, rest)
    | none => firstStrip r l

/-- The std chunk starting at the head of `l`, if any: (literal bytes that still belong to the
prefix, the chunk, the rest).  One `case` of the `switch` in `nextStdChunk` per branch. -/
def stdAt (l : Bytes) : Option (Bytes × Std × Bytes) :=
  match l with
  | [] => none
  | c :: rest =>
    if c = 74 then -- 'J'
      match strip (asc "Jan") l with
      | some r3 =>
        match strip (asc "January") l with
        | some r7 => some ([], .longMonth, r7)
        | none => if !startsWithLowerCase r3 then some ([], .month, r3) else none
      | none => none
    else if c = 77 then -- 'M'
      match strip (asc "Mon") l with
      | some r3 =>
        match strip (asc "Monday") l with
        | some r6 => some ([], .longWeekDay, r6)
        | none => if !startsWithLowerCase r3 then some ([], .weekDay, r3) else none
      | none =>
        match strip (asc "MST") l with
        | some r => some ([], .tz, r)
        | none => none
    else if c = 48 then -- '0'
      match rest with
      | 49 :: r => some ([], .zeroMonth, r)
      | 50 :: r => some ([], .zeroDay, r)
      | 51 :: r => some ([], .zeroHour12, r)
      | 52 :: r => some ([], .zeroMinute, r)
      | 53 :: r => some ([], .zeroSecond, r)
      | 54 :: r => some ([], .year, r)
      | 48 :: 50 :: r => some ([], .zeroYearDay, r)
      | _ => none
    else if c = 49 then -- '1'
      match rest with
      | 53 :: r => some ([], .hour, r)
      | _ => some ([], .numMonth, rest)
    else if c = 50 then -- '2'
      match strip (asc "2006") l with
      | some r => some ([], .longYear, r)
      | none => some ([], .day, rest)
    else if c = 95 then -- '_'
      match rest with
      | 50 :: r =>
        match strip (asc "2006") rest with
        | some r4 => some ([95], .longYear, r4)
        | none => some ([], .underDay, r)
      | 95 :: 50 :: r => some ([], .underYearDay, r)
      | _ => none
    else if c = 51 then some ([], .hour12, rest)
    else if c = 52 then some ([], .minute, rest)
    else if c = 53 then some ([], .second, rest)
    else if c = 80 then -- 'P'
      match rest with
      | 77 :: r => some ([], .pm, r)
      | _ => none
    else if c = 112 then -- 'p'
      match rest with
      | 109 :: r => some ([], .pmLower, r)
      | _ => none
    else if c = 45 then -- '-'
      match firstStrip (zoneSpellings "-" .numTZ) l with
      | some (s, r) => some ([], s, r)
      | none => none
    else if c = 90 then -- 'Z'
      match firstStrip (zoneSpellings "Z" .isoTZ) l with
      | some (s, r) => some ([], s, r)
      | none => none
    else if c = 46 ∨ c = 44 then -- '.' ','
      match rest with
      | ch :: _ =>
        if ch = 48 ∨ ch = 57 then
          let run := rest.takeWhile (· == ch)
          let after := rest.dropWhile (· == ch)
          if !isDigitAt after then
            some ([], (if ch = 57 then Std.frac9 run.length c else Std.frac0 run.length c), after)
          else none
        else none
      | [] => none
    else none

def flushLit (acc : Bytes) : List Tok := if acc.isEmpty then [] else [.lit acc.reverse]

/-- Repeated `nextStdChunk`: the layout as literal / std tokens. -/
def tokenizeAux : Nat → Bytes → Bytes → List Tok
  | 0, _, acc => flushLit acc
  | _ + 1, [], acc => flushLit acc
  | fuel + 1, c :: rest, acc =>
    match stdAt (c :: rest) with
    | some (pre, s, suf) => flushLit (pre.reverse ++ acc) ++ (.std s :: tokenizeAux fuel suf [])
    | none => tokenizeAux fuel rest (c :: acc)

def tokenize (layout : Bytes) : List Tok := tokenizeAux (layout.length + 1) layout []

/-! ## Go `time`: formatting (`appendFormat`) -/

/-- What `Format` reads off a `Time`: wall-clock fields, weekday, 1-based day of the year, the
zone's offset and abbreviation. -/
structure TimeV where
  dt : DateTime
  wd : Int
  yday : Int
  off : Int
  abbr : Bytes
  deriving Repr

def natPad (n w : Nat) : Bytes :=
  let ds := natDigits n
  List.replicate (w - ds.length) 48 ++ ds

/-- `appendInt(b, x, width)`. -/
def appendInt (x : Int) (w : Nat) : Bytes :=
  if x < 0 then 45 :: natPad x.natAbs w else natPad x.natAbs w

def longMonthNames : List Bytes := ["January", "February", "March", "April", "May", "June", "July", "August",
  "September", "October", "November", "December"].map asc
def longDayNames : List Bytes := ["Sunday", "Monday", "Tuesday", "Wednesday", "Thursday", "Friday", "Saturday"].map asc
def shortMonthNames : List Bytes := longMonthNames.map (·.take 3)
def shortDayNames : List Bytes := longDayNames.map (·.take 3)

def nameAt (tab : List Bytes) (i : Int) : Bytes := tab.getD i.toNat (asc "%!")

def zoneHasColon : ZKind → Bool
  | .colon | .colonSeconds => true
  | _ => false
def zoneHasSeconds : ZKind → Bool
  | .seconds | .colonSeconds => true
  | _ => false

/-- `±hh[:]mm[[:]ss]` as printed by `appendFormat`. -/
def formatOffset (k : ZKind) (offset : Int) : Bytes :=
  let zone := Int.tdiv offset 60
  let neg := decide (zone < 0)
  let zone := if neg then -zone else zone
  let absoffset := if neg then -offset else offset
  (if neg then [45] else [43]) ++ appendInt (zone / 60) 2
    ++ (if zoneHasColon k then [58] else [])
    ++ (if k = .short then [] else appendInt (zone % 60) 2)
    ++ (if zoneHasSeconds k then (if k = .colonSeconds then [58] else []) ++ appendInt (Int.tmod absoffset 60) 2 else [])

def dropTrailingZeros (b : Bytes) : Bytes := (b.reverse.dropWhile (· == 48)).reverse

/-- `appendNano`. -/
def appendNano (nanosec : Int) (trim : Bool) (n : Nat) (sep : UInt8) : Bytes :=
  if trim && (n == 0 || nanosec == 0) then []
  else
    let digits := (appendInt nanosec 9).take n
    if trim then
      let d := dropTrailingZeros digits
      if d.isEmpty then [] else sep :: d
    else sep :: digits

def hour12 (h : Int) : Int := if h % 12 = 0 then 12 else h % 12

def formatStd (t : TimeV) : Std → Bytes
  | .year => appendInt ((if t.dt.y < 0 then -t.dt.y else t.dt.y) % 100) 2
  | .longYear => appendInt t.dt.y 4
  | .month => nameAt shortMonthNames (t.dt.m - 1)
  | .longMonth => nameAt longMonthNames (t.dt.m - 1)
  | .numMonth => appendInt t.dt.m 0
  | .zeroMonth => appendInt t.dt.m 2
  | .weekDay => nameAt shortDayNames t.wd
  | .longWeekDay => nameAt longDayNames t.wd
  | .day => appendInt t.dt.d 0
  | .underDay => (if t.dt.d < 10 then [32] else []) ++ appendInt t.dt.d 0
  | .zeroDay => appendInt t.dt.d 2
  | .underYearDay => (if t.yday < 100 then (32 :: (if t.yday < 10 then [32] else [])) else []) ++ appendInt t.yday 0
  | .zeroYearDay => appendInt t.yday 3
  | .hour => appendInt t.dt.hh 2
  | .hour12 => appendInt (hour12 t.dt.hh) 0
  | .zeroHour12 => appendInt (hour12 t.dt.hh) 2
  | .minute => appendInt t.dt.mi 0
  | .zeroMinute => appendInt t.dt.mi 2
  | .second => appendInt t.dt.ss 0
  | .zeroSecond => appendInt t.dt.ss 2
  | .pm => if t.dt.hh ≥ 12 then asc "PM" else asc "AM"
  | .pmLower => if t.dt.hh ≥ 12 then asc "pm" else asc "am"
  | .isoTZ k => if t.off = 0 then [90] else formatOffset k t.off
  | .numTZ k => formatOffset k t.off
  | .tz => if t.abbr ≠ [] then t.abbr else formatOffset .hhmm t.off
  | .frac0 n sep => appendNano t.dt.ns false n sep
  | .frac9 n sep => appendNano t.dt.ns true n sep

def formatTok (t : TimeV) : Tok → Bytes
  | .lit b => b
  | .std s => formatStd t s

def formatToks (ts : List Tok) (t : TimeV) : Bytes := ts.flatMap (formatTok t)

/-- `t.Format(layout)`. -/
def formatLayout (layout : Bytes) (t : TimeV) : Bytes := formatToks (tokenize layout) t

/-- The `Time` of `time.Unix(unix, 0).In(zone)` when the zone's offset/abbreviation at that
instant are `off` / `abbr`. -/
def timeVOf (unix off : Int) (abbr : Bytes) : TimeV :=
  let days := localDays unix off
  ⟨civilOf unix off, weekday days, yearDay days + 1, off, abbr⟩

/-! ## Go `time`: parsing (`parse`) -/

structure PState where
  year : Int := 0
  month : Int := -1
  day : Int := -1
  yday : Int := -1
  hour : Int := 0
  min : Int := 0
  sec : Int := 0
  nsec : Int := 0
  zUTC : Bool := false
  zoneOffset : Int := -1
  zoneName : Bytes := []
  pmSet : Bool := false
  amSet : Bool := false
  deriving DecidableEq, Repr

abbrev PRes := Except String (Bytes × PState)

def digitVal (c : UInt8) : Int := (c.toNat - 48 : Nat)

/-- `getnum(s, fixed)`. -/
def getnum (s : Bytes) (fixed : Bool) : Except String (Int × Bytes) :=
  match s with
  | a :: r =>
    if 48 ≤ a ∧ a ≤ 57 then
      match r with
      | b :: r2 =>
        if 48 ≤ b ∧ b ≤ 57 then .ok (digitVal a * 10 + digitVal b, r2)
        else if fixed then .error "bad" else .ok (digitVal a, r)
      | [] => if fixed then .error "bad" else .ok (digitVal a, r)
    else .error "bad"
  | [] => .error "bad"

/-- `getnum3(s, fixed)`. -/
def getnum3 (s : Bytes) (fixed : Bool) : Except String (Int × Bytes) :=
  let ds := (s.take 3).takeWhile (fun c => decide (48 ≤ c ∧ c ≤ 57))
  if ds.isEmpty || (fixed && ds.length != 3) then .error "bad"
  else .ok ((digitsVal ds 0 : Nat), s.drop ds.length)

/-- `atoi` of package `time` (optional sign, digits only; overflow cannot occur at ≤ 10 digits). -/
def timeAtoi (s : Bytes) : Option Int :=
  let (neg, ds) := match s with
    | 45 :: r => (true, r)
    | 43 :: r => (false, r)
    | r => (false, r)
  if ds.all isDigitB then
    let n : Int := (digitsVal ds 0 : Nat)
    some (if neg then -n else n)
  else none

def cutspace (s : Bytes) : Bytes := s.dropWhile (· == 32)

/-- `skip(value, prefix)`: literal text, runs of spaces equivalent.  Go cuts a run of spaces off
both strings at once; here the prefix is walked byte by byte and `sp` records that the previous
prefix byte was a space (so the value has been cut already). -/
def skipAux : Bool → Bytes → Bytes → Except String Bytes
  | _, v, [] => .ok v
  | sp, v, p :: ps =>
    if p = 32 then
      if sp then skipAux true v ps
      else match v with
        | c :: _ => if c ≠ 32 then .error "bad" else skipAux true (cutspace v) ps
        | [] => skipAux true [] ps
    else
      match v with
      | c :: vs => if c = p then skipAux false vs ps else .error "bad"
      | [] => .error "bad"

def skip (v p : Bytes) : Except String Bytes := skipAux false v p

/-- `len(val) >= len(v) && match(val[0:len(v)], v)`, returning the rest: ASCII case-insensitive
prefix. -/
def stripCI : Bytes → Bytes → Option Bytes
  | [], val => some val
  | _ :: _, [] => none
  | b :: name, a :: val =>
    if a = b then stripCI name val
    else
      let a' := a ||| 0x20
      let b' := b ||| 0x20
      if a' = b' ∧ 97 ≤ a' ∧ a' ≤ 122 then stripCI name val else none

def lookupGo : List Bytes → Nat → Bytes → Except String (Int × Bytes)
  | [], _, _ => .error "bad"
  | v :: r, i, val =>
    match stripCI v val with
    | some rest => .ok (i, rest)
    | none => lookupGo r (i + 1) val

/-- `lookup(tab, val)`. -/
def lookupName (tab : List Bytes) (val : Bytes) : Except String (Int × Bytes) := lookupGo tab 0 val

def commaOrPeriod (b : UInt8) : Bool := b = 46 || b = 44

/-- `parseNanoseconds(value, nbytes)`: `.ok ns` or an error (bad / out of range). -/
def parseNanoseconds (value : Bytes) (nbytes : Nat) : Except String Int :=
  match value with
  | c :: _ =>
    if !commaOrPeriod c then .error "bad"
    else
      let nbytes := if nbytes > 10 then 10 else nbytes
      let value := if value.length > 10 && nbytes = 10 then value.take 10 else value
      match timeAtoi ((value.take nbytes).drop 1) with
      | none => .error "bad"
      | some ns =>
        if ns < 0 then .error "range"
        else .ok (ns * (10 : Int) ^ (10 - nbytes))
  | [] => .error "bad"

def leadingDigits (s : Bytes) : Nat := (s.takeWhile isDigitB).length

/-- `leadingInt`: value of the leading digits, `none` on overflow – by VALUE (`x > 1<<63/10` before the
multiplication, `x > 1<<63` after it), so leading zeros never overflow.  Shared by `parseSignedOffset`
and `ParseDuration`. -/
def leadingInt : Bytes → Nat → Option (Nat × Bytes)
  | [], x => some (x, [])
  | c :: r, x =>
    if c < 48 ∨ c > 57 then some (x, c :: r)
    else if x > 9223372036854775808 / 10 then none
    else
      let x' := x * 10 + (c.toNat - 48)
      if x' > 9223372036854775808 then none else leadingInt r x'

/-- `parseSignedOffset`: length of `[+-]\d+` with value ≤ 23, else 0.  The digits are read by
`leadingInt` (so `GMT+0000000000000000000007` is a 26-byte abbreviation, while 20 digits whose value
passes 2^63 are refused); "nothing consumed" is `value[1:] == rem`. -/
def parseSignedOffset (value : Bytes) : Nat :=
  match value with
  | sign :: r =>
    if sign ≠ 45 ∧ sign ≠ 43 then 0
    else match leadingInt r 0 with
      | none => 0
      | some (x, rem) =>
        if rem.length = r.length then 0
        else if x > 23 then 0
        else 1 + (r.length - rem.length)
  | [] => 0

/-- `parseTimeZone(value)`: length of the zone abbreviation at the head of `value`. -/
def parseTimeZone (value : Bytes) : Option Nat :=
  if value.length < 3 then none
  else if value.take 4 = asc "ChST" ∨ value.take 4 = asc "MeST" then some 4
  else if value.take 3 = asc "GMT" then
    let r := value.drop 3
    if r.isEmpty then some 3 else some (3 + parseSignedOffset r)
  else if value.head? = some 43 ∨ value.head? = some 45 then
    let n := parseSignedOffset value
    if n > 0 then some n else none
  else
    let nUpper := ((value.take 6).takeWhile (fun c => decide (65 ≤ c ∧ c ≤ 90))).length
    if nUpper = 5 then (if value.getD 4 0 = 84 then some 5 else none)
    else if nUpper = 4 then (if value.getD 3 0 = 84 ∨ value.take 4 = asc "WITA" then some 4 else none)
    else if nUpper = 3 then some 3
    else none

/-- drop one leading space, if any -/
def dropSpace1 (v : Bytes) : Bytes :=
  match v with
  | 32 :: r => r
  | v => v

/-- The numeric zone cases of `parse` (`-0700`, `Z07:00`, …), after the optional `Z`. -/
def parseNumZone (k : ZKind) (value : Bytes) (st : PState) : PRes :=
  let fields : Option (Bytes × Bytes × Bytes × Bytes × Bytes) :=
    match k with
    | .colon =>
      if value.length < 6 then none
      else if value.getD 3 0 ≠ 58 then none
      else some (value.take 1, (value.drop 1).take 2, (value.drop 4).take 2, asc "00", value.drop 6)
    | .short =>
      if value.length < 3 then none
      else some (value.take 1, (value.drop 1).take 2, asc "00", asc "00", value.drop 3)
    | .colonSeconds =>
      if value.length < 9 then none
      else if value.getD 3 0 ≠ 58 ∨ value.getD 6 0 ≠ 58 then none
      else some (value.take 1, (value.drop 1).take 2, (value.drop 4).take 2, (value.drop 7).take 2, value.drop 9)
    | .seconds =>
      if value.length < 7 then none
      else some (value.take 1, (value.drop 1).take 2, (value.drop 3).take 2, (value.drop 5).take 2, value.drop 7)
    | .hhmm =>
      if value.length < 5 then none
      else some (value.take 1, (value.drop 1).take 2, (value.drop 3).take 2, asc "00", value.drop 5)
  match fields with
  | none => .error "bad"
  | some (sign, hour, min, seconds, rest) =>
    match getnum hour true, getnum min true, getnum seconds true with
    | .ok (hr, _), .ok (mm, _), .ok (ss, _) =>
      if hr > 24 ∨ mm > 60 ∨ ss > 60 then .error "range"
      else
        let zo := (hr * 60 + mm) * 60 + ss
        if sign = [43] then .ok (rest, { st with zoneOffset := zo })
        else if sign = [45] then .ok (rest, { st with zoneOffset := -zo })
        else .error "bad"
    | _, _, _ => .error "bad"

def isFrac : Option Std → Bool
  | some (.frac0 _ _) | some (.frac9 _ _) => true
  | _ => false

/-- One iteration of the loop of `parse` for std chunk `s`; `next` is the std chunk that follows in
the layout (the look-ahead of the seconds case). -/
def parseStd (s : Std) (next : Option Std) (value : Bytes) (st : PState) : PRes :=
  match s with
  | .year =>
    if value.length < 2 then .error "bad"
    else match timeAtoi (value.take 2) with
      | none => .error "bad"
      | some y => .ok (value.drop 2, { st with year := if y ≥ 69 then y + 1900 else y + 2000 })
  | .longYear =>
    if value.length < 4 || !isDigitAt value then .error "bad"
    else match timeAtoi (value.take 4) with
      | none => .error "bad"
      | some y => .ok (value.drop 4, { st with year := y })
  | .month => do
    let (i, r) ← lookupName shortMonthNames value
    pure (r, { st with month := i + 1 })
  | .longMonth => do
    let (i, r) ← lookupName longMonthNames value
    pure (r, { st with month := i + 1 })
  | .numMonth | .zeroMonth => do
    let (m, r) ← getnum value (s = .zeroMonth)
    if m ≤ 0 ∨ 12 < m then .error "range" else pure (r, { st with month := m })
  | .weekDay => do
    let (_, r) ← lookupName shortDayNames value
    pure (r, st)
  | .longWeekDay => do
    let (_, r) ← lookupName longDayNames value
    pure (r, st)
  | .day | .underDay | .zeroDay => do
    let value := if s = .underDay then dropSpace1 value else value
    let (d, r) ← getnum value (s = .zeroDay)
    pure (r, { st with day := d })
  | .underYearDay | .zeroYearDay => do
    let strip1 (v : Bytes) : Bytes := if s = .underYearDay then dropSpace1 v else v
    let (d, r) ← getnum3 (strip1 (strip1 value)) (s = .zeroYearDay)
    pure (r, { st with yday := d })
  | .hour => do
    let (h, r) ← getnum value false
    if h < 0 ∨ 24 ≤ h then .error "range" else pure (r, { st with hour := h })
  | .hour12 | .zeroHour12 => do
    let (h, r) ← getnum value (s = .zeroHour12)
    if h < 0 ∨ 12 < h then .error "range" else pure (r, { st with hour := h })
  | .minute | .zeroMinute => do
    let (m, r) ← getnum value (s = .zeroMinute)
    if m < 0 ∨ 60 ≤ m then .error "range" else pure (r, { st with min := m })
  | .second | .zeroSecond => do
    let (sec, r) ← getnum value (s = .zeroSecond)
    if sec < 0 ∨ 60 ≤ sec then .error "range"
    else
      let st := { st with sec := sec }
      match r with
      | c :: r1 =>
        if commaOrPeriod c && isDigitAt r1 && !isFrac next then
          -- fractional second in the input but not in the layout
          let n := 1 + leadingDigits r1
          match parseNanoseconds r n with
          | .ok ns => pure (r.drop n, { st with nsec := ns })
          | .error e => .error e
        else pure (r, st)
      | [] => pure (r, st)
  | .pm =>
    if value.length < 2 then .error "bad"
    else if value.take 2 = asc "PM" then .ok (value.drop 2, { st with pmSet := true })
    else if value.take 2 = asc "AM" then .ok (value.drop 2, { st with amSet := true })
    else .error "bad"
  | .pmLower =>
    if value.length < 2 then .error "bad"
    else if value.take 2 = asc "pm" then .ok (value.drop 2, { st with pmSet := true })
    else if value.take 2 = asc "am" then .ok (value.drop 2, { st with amSet := true })
    else .error "bad"
  | .isoTZ k =>
    match value with
    | 90 :: r => .ok (r, { st with zUTC := true })
    | _ => parseNumZone k value st
  | .numTZ k => parseNumZone k value st
  | .tz =>
    if value.take 3 = asc "UTC" then .ok (value.drop 3, { st with zUTC := true })
    else match parseTimeZone value with
      | none => .error "bad"
      | some n => .ok (value.drop n, { st with zoneName := value.take n })
  | .frac0 n _ =>
    let ndigit := 1 + n
    if value.length < ndigit then .error "bad"
    else match parseNanoseconds value ndigit with
      | .ok ns => .ok (value.drop ndigit, { st with nsec := ns })
      | .error e => .error e
  | .frac9 _ _ =>
    match value with
    | c :: r1 =>
      if !commaOrPeriod c || !isDigitAt r1 then .ok (value, st)
      else
        let n := 1 + leadingDigits r1
        match parseNanoseconds value n with
        | .ok ns => .ok (value.drop n, { st with nsec := ns })
        | .error e => .error e
    | [] => .ok (value, st)

/-- The std chunk `nextStdChunk` would find in the rest of the layout. -/
def nextStd : List Tok → Option Std
  | [] => none
  | .std s :: _ => some s
  | .lit _ :: r => nextStd r

/-- The loop of `parse` over the tokens of the layout. -/
def parseToks : List Tok → Bytes → PState → Except String PState
  | [], v, st => if v.isEmpty then .ok st else .error "extra text"
  | .lit p :: ts, v, st =>
    match skip v p with
    | .ok v' => parseToks ts v' st
    | .error e => .error e
  | .std s :: ts, v, st =>
    match parseStd s (nextStd ts) v st with
    | .ok (v', st') => parseToks ts v' st'
    | .error e => .error e

/-- Where the zone of a parsed time comes from. -/
inductive ZoneSrc
  | utc                    -- `Z` or `UTC` in the text
  | offset (secs : Int)    -- numeric offset in the text
  | name (n : Bytes)       -- abbreviation in the text
  | default                -- nothing in the text: the location argument applies
  deriving DecidableEq, Repr

structure Parsed where
  dt : DateTime
  zone : ZoneSrc
  deriving DecidableEq, Repr

/-- The tail of `parse`: AM/PM, defaults, day-of-month validation (day-of-year layouts are declined
by the caller). -/
def finish (st : PState) : Except String Parsed :=
  let hour := if st.pmSet && decide (st.hour < 12) then st.hour + 12
    else if st.amSet && decide (st.hour = 12) then 0 else st.hour
  let month := if st.month < 0 then 1 else st.month
  let day := if st.day < 0 then 1 else st.day
  if day < 1 ∨ day > daysIn month st.year then .error "day out of range"
  else
    let z := if st.zUTC then ZoneSrc.utc
      else if st.zoneOffset ≠ -1 then .offset st.zoneOffset
      else if st.zoneName ≠ [] then .name st.zoneName
      else .default
    .ok ⟨⟨st.year, month, day, hour, st.min, st.sec, st.nsec⟩, z⟩

/-- `time.ParseInLocation(layout, value, loc)` up to the choice of the zone. -/
def parseLayout (layout value : Bytes) : Except String Parsed :=
  match parseToks (tokenize layout) value {} with
  | .ok st => finish st
  | .error e => .error e

def usesYearDay (ts : List Tok) : Bool :=
  ts.any fun t => t == .std .underYearDay || t == .std .zeroYearDay

/-- The instant of a parsed time.  `locOff` / `locAbbr`: offset and abbreviation the location
argument has at the instant Go returned (oracle).  `none`: the model declines (an abbreviation
other than the one in force – whether the location knows it is a tz-database fact). -/
def instantOf (p : Parsed) (locOff : Int) (locAbbr : Bytes) : Option Int :=
  let w := wallSeconds p.dt
  match p.zone with
  | .utc => some w
  | .offset o => some (w - o)
  | .name n => if n = locAbbr then some (w - locOff) else none
  | .default => some (w - locOff)

/-! ## rare: the attribute functions (`attrType`) -/

def attrKeys : List Bytes := [asc "QUARTER", asc "WEEK", asc "WEEKDAY", asc "YEARWEEK"]

/-- Hand copy of the `QUARTER` arithmetic (Go `int`, so wrapped; `month` is 1..12). -/
def quarterExpr (month : Int) : Int := wrap64 (goDiv (wrap64 (month - 1)) 3 + 1)

/-- `attrType[strings.ToUpper(name)]` applied to the time. -/
def timeAttr (name : Bytes) (unix off : Int) : Option Bytes :=
  let days := localDays unix off
  let up := toUpper name
  if up = asc "WEEKDAY" then some (itoa (weekday days))
  else if up = asc "WEEK" then some (itoa (isoYearWeek days).2)
  else if up = asc "YEARWEEK" then some (itoa (isoYearWeek days).1 ++ [45] ++ itoa (isoYearWeek days).2)
  else if up = asc "QUARTER" then some (itoa (quarterExpr (civilFromDays days).m))
  else none

/-! ## rare: zone argument (`parseTimezoneLocation`) -/

inductive Loc
  | utc | «local» | named (n : Bytes)
  deriving DecidableEq, Repr

/-- `parseTimezoneLocation`; `loadOk`: whether `time.LoadLocation(tzf)` succeeds (oracle). -/
def parseTimezoneLocation (tzf : Bytes) (loadOk : Bool) : Loc × Bool :=
  let up := toUpper tzf
  if up = [] ∨ up = asc "UTC" then (.utc, true)
  else if up = asc "LOCAL" then (.local, true)
  else if loadOk then (.named tzf, true) else (.utc, false)

/-- Offset and abbreviation in force: rare's UTC needs no oracle. -/
def zoneAt (l : Loc) (off : Int) (abbr : Bytes) : Int × Bytes :=
  match l with
  | .utc => (0, asc "UTC")
  | _ => (off, abbr)

/-! ## rare: `smartDateParseWrapper` -/

inductive Mode
  | auto | cache | explicit (layout : Bytes)
  deriving DecidableEq, Repr

def modeOf (tbl : List (Bytes × Bytes)) (format : Bytes) : Mode :=
  let lo := toLower format
  if lo = asc "auto" then .auto
  else if lo = [] ∨ lo = asc "cache" then .cache
  else .explicit (namedTimeFormatToFormat tbl format)

/-- Result of evaluating one stage on one input: the text, or the model declines. -/
inductive Out
  | val (b : Bytes)
  | unmodelled (why : String)
  deriving DecidableEq, Repr

/-- `time.ParseInLocation(layout, str, tz)` followed by `f`, or `ErrorParsing`. -/
def parseThen (layout str : Bytes) (f : Parsed → Out) : Out :=
  if usesYearDay (tokenize layout) then .unmodelled "yearday-layout"
  else match parseLayout layout str with
    | .ok p => f p
    | .error _ => .val errorParsing

/-- One evaluation of the `cache` stage.  `st`: the cached layout (`[]` = none yet);
`detect`: what `dateparse.ParseFormat(str)` answers (oracle; `none` = error). -/
def cacheStep (st : Bytes) (str : Bytes) (detect : Option Bytes) (f : Parsed → Out) : Out × Bytes :=
  if str = [] then (.val errorParsing, st)
  else if st = [] then
    match detect with
    | none => (.val errorParsing, st)
    | some live => (parseThen live str f, live)
  else (parseThen st str f, st)

/-- One evaluation of the `cache` stage as it is now (after cb6fa4b / 3acd3a0 / 6998c9c in /repo): an
empty text is an error; the format is detected on the first text that has one; it is remembered
unless the text is `emptyTime` – what the date expression yields when every look-up is empty
(`EvalStaticStage(dateStage)`, e.g. `2020-01-` for `2020-01-{0}`) – which is parsed like any other
text.  (The second memory and – since /repo 1dba502 – the touch of the context `context.GetMatch(-1)`, both used
only while the optimizer analyses the expression, are C10's concern: an evaluation on input does neither.) -/
def cacheStepE (emptyTime : Bytes) (st : Bytes) (str : Bytes) (detect : Option Bytes) (f : Parsed → Out) : Out × Bytes :=
  if str = [] then (.val errorParsing, st)
  else if st = [] then
    match detect with
    | none => (.val errorParsing, st)
    | some live => (parseThen live str f, if str = emptyTime then st else live)
  else (parseThen st str f, st)

/-- One compiled `cache` stage evaluated on a sequence of texts (each with what `dateparse.ParseFormat`
answers for it, and the continuation to apply – the zone oracle may differ per text). -/
def cacheRun (emptyTime : Bytes) : Bytes → List (Bytes × Option Bytes × (Parsed → Out)) → List Out
  | _, [] => []
  | st, (str, det, f) :: r =>
    (cacheStepE emptyTime st str det f).1 :: cacheRun emptyTime (cacheStepE emptyTime st str det f).2 r

/-- The memory after such a sequence. -/
def cacheState (emptyTime : Bytes) : Bytes → List (Bytes × Option Bytes × (Parsed → Out)) → Bytes
  | st, [] => st
  | st, (str, det, f) :: r => cacheState emptyTime (cacheStepE emptyTime st str det f).2 r

/-! ## rare: the key-words of `{time …}` and the compile-time checks of the time helpers -/

inductive TimeKeyword | now | live | delta
  deriving DecidableEq, Repr

/-- `kfTimeParse`: a CONSTANT first argument equal (case-insensitively) to `now`, `live` or `delta`
is not parsed as a date. -/
def timeKeyword (arg0 : Bytes) : Option TimeKeyword :=
  let lo := toLower arg0
  if lo = asc "now" then some .now
  else if lo = asc "live" then some .live
  else if lo = asc "delta" then some .delta
  else none

/-- Compile-time outcome of a time helper called with `argc` arguments: the error kind and marker, or
`none` (the stage is built).  `constArgs`: which arguments are constants; `bucketOk` / `attrOk` /
`zoneOk`: the enum / zone checks.  Order of the checks as in the source. -/
def compileCheck (fn : String) (argc : Nat) (isConst : Nat → Bool) (enumOk zoneOk : Bool) : Option (String × String) :=
  let argRange := some ("func.argcount", "<ARGN>")
  if fn = "time" then
    if argc < 1 ∨ argc > 3 then argRange else if !zoneOk then some ("func.parsing", "<PARSE-ERROR>") else none
  else if fn = "timeformat" then
    if argc < 1 ∨ argc > 3 then argRange else if !zoneOk then some ("func.parsing", "<PARSE-ERROR>") else none
  else if fn = "duration" ∨ fn = "durationformat" then
    if argc ≠ 1 then argRange else none
  else if fn = "buckettime" then
    if argc < 2 ∨ argc > 4 then argRange
    else if !isConst 1 then some ("func.const", "<CONST>")
    else if !enumOk then some ("func.enum", "<ENUM>")
    else if !zoneOk then some ("func.parsing", "<PARSE-ERROR>") else none
  else if fn = "timeattr" then
    if argc < 2 ∨ argc > 3 then argRange
    else if !isConst 1 then some ("func.const", "<CONST>")
    else if !zoneOk then some ("func.parsing", "<PARSE-ERROR>")
    else if !enumOk then some ("func.enum", "<ENUM>") else none
  else none

/-! ## Go `time`: durations -/

/-- `fmtFrac(buf, v, prec)` followed by `fmtInt`: `v / 10^prec`, then the `prec` digits of the remainder
without trailing zeros, the point omitted when nothing is left. -/
def fmtFracInt (v prec : Nat) : Bytes :=
  let frac := dropTrailingZeros (natPad (v % 10 ^ prec) prec)
  natDigits (v / 10 ^ prec) ++ (if frac.isEmpty then [] else 46 :: frac)

/-- The special case of `Duration.format` for magnitudes below one second: `ns` without fraction,
`µs` (the micro sign U+00B5, two bytes) with up to 3 digits, `ms` with up to 6. -/
def subSecondString (u : Nat) : Bytes :=
  if u < 1000 then natDigits u ++ asc "ns"
  else if u < 1000000 then fmtFracInt u 3 ++ [0xC2, 0xB5, 115]
  else fmtFracInt u 6 ++ asc "ms"

/-- `Duration.String()`.  (Always `some`; the `Option` is kept from the rounds in which sub-second
magnitudes – `{durationformat n}` with `n·10^9 mod 2^64` below 10^9 in magnitude – were declined.) -/
def durationString (d : Int) : Option Bytes :=
  let u := d.natAbs
  if u = 0 then some (asc "0s")
  else if u < 1000000000 then some (if d < 0 then 45 :: subSecondString u else subSecondString u)
  else
    let frac := dropTrailingZeros (natPad (u % 1000000000) 9)
    let s := u / 1000000000
    let secPart := natDigits (s % 60) ++ (if frac.isEmpty then [] else 46 :: frac) ++ [115]
    let m := s / 60
    let body := if m > 0 then
        let h := m / 60
        (if h > 0 then natDigits h ++ [104] else []) ++ natDigits (m % 60) ++ [109] ++ secPart
      else secPart
    some (if d < 0 then 45 :: body else body)

/-- `kfDurationFormat` on the evaluated argument. -/
def durationFormat (arg : Bytes) : Out :=
  match atoi arg with
  | none => .val errorNum
  | some secs =>
    match durationString (wrap64 (secs * 1000000000)) with
    | some b => .val b
    | none => .unmodelled "subsecond-duration"

def unitOf (u : Bytes) : Option Nat :=
  if u = asc "ns" then some 1
  else if u = asc "us" ∨ u = [0xC2, 0xB5, 115] ∨ u = [0xCE, 0xBC, 115] then some 1000
  else if u = asc "ms" then some 1000000
  else if u = asc "s" then some 1000000000
  else if u = asc "m" then some 60000000000
  else if u = asc "h" then some 3600000000000
  else none

inductive DurRes
  | ok (d : Int) | err
  deriving DecidableEq, Repr

/-- a byte that can start a number: `[0-9.]` -/
def isNumChar (c : UInt8) : Bool := c = 46 || (48 ≤ c && c ≤ 57)

/-- `(\.[0-9]*)?`: the digits after the point, the rest, whether there was a point. -/
def splitFrac (s1 : Bytes) : Bytes × Bytes × Bool :=
  match s1 with
  | 46 :: r => (r.takeWhile isDigitB, r.dropWhile isDigitB, true)
  | r => ([], r, false)

/-- `leadingFraction` on the run of digits after the point: the value `x` of the digits taken and their
number `k` (Go's `scale` is `10^k`, an exact float64 since `k ≤ 19`).  Digits are taken until the next
one would push `x` over `2^63`; the remaining ones are skipped (Go's `overflow` flag), so they do not
count. -/
def leadingFraction : Bytes → Nat → Nat → Nat × Nat
  | [], x, k => (x, k)
  | c :: r, x, k =>
    if x > 9223372036854775807 / 10 then (x, k)
    else
      let y := x * 10 + (c.toNat - 48)
      if y > 9223372036854775808 then (x, k) else leadingFraction r y (k + 1)

/-- `uint64(float64(f) * (float64(unit) / scale))` with `scale = 10^k`: two correctly rounded binary64
operations (a division, a product – no fused multiply-add is possible, there is no addition) and a
truncation, in the shared bit-exact model of `Rare/Base/F64.lean`. -/
def fracTerm (f unit k : Nat) : Nat :=
  (F64.toInt64 (F64.mul (F64.ofInt f) (F64.div (F64.ofInt unit) (F64.ofInt (10 ^ k : Nat))))).toNat

/-- The loop of `ParseDuration` (magnitude in ns accumulated in the uint64 `d`); `none` = error. -/
def parseDurLoop : Nat → Bytes → Nat → Option Nat
  | 0, _, _ => none
  | fuel + 1, s, d =>
    match s with
    | [] => some d
    | c :: _ =>
      if !isNumChar c then none
      else match leadingInt s 0 with
        | none => none
        | some (v, s1) =>
          let pre := s1.length != s.length
          let fr := splitFrac s1
          let post := fr.2.2 && !fr.1.isEmpty
          if !pre && !post then none
          else
            let u := fr.2.1.takeWhile (fun c => !isNumChar c)
            let s3 := fr.2.1.dropWhile (fun c => !isNumChar c)
            if u.isEmpty then none
            else match unitOf u with
              | none => none
              | some unit =>
                if v > 9223372036854775808 / unit then none
                else
                  let fk := leadingFraction fr.1 0 0
                  let v' := if fk.1 > 0 then v * unit + fracTerm fk.1 unit fk.2 else v * unit
                  if v' > 9223372036854775808 then none
                  else
                    let d' := (d + v') % 18446744073709551616 -- uint64: 2^63 + 2^63 wraps to 0 and passes the check below (Go's own quirk)
                    if d' > 9223372036854775808 then none else parseDurLoop fuel s3 d'

/-- `time.ParseDuration`. -/
def parseDuration (s : Bytes) : DurRes :=
  let (neg, s1) := match s with
    | 45 :: r => (true, r)
    | 43 :: r => (false, r)
    | r => (false, r)
  if s1 = [48] then .ok 0
  else if s1 = [] then .err
  else match parseDurLoop (s1.length + 1) s1 0 with
    | none => .err
    | some d =>
      if neg then .ok (-(d : Int))
      else if d > 9223372036854775807 then .err else .ok d

/-- `kfDuration` on the evaluated argument: `int64(duration / time.Second)` – the whole seconds of the
parsed duration, truncated toward zero in integer arithmetic (after 7d50a89 in /repo; before, the
float64 sum of `duration.Seconds()` rounded `16777216.999999999s` up to 16777217). -/
def duration (arg : Bytes) : Out :=
  match parseDuration arg with
  | .err => .val errorParsing
  | .ok d => .val (itoa (Int.tdiv d 1000000000))

/-! ## rare: the stages -/

/-- Years the layout formatter is exercised on (`appendInt(year, 4)`; beyond, Go prints more digits
or a sign – correct there too, but outside the property's range). -/
def yearInRange (unix off : Int) : Bool :=
  let y := (civilFromDays (localDays unix off)).y
  decide (0 ≤ y ∧ y ≤ 9999)

/-- The closure of `kfTimeFormat`: `format` is the resolved layout. -/
def timeFormatStage (layout : Bytes) (loc : Loc) (arg : Bytes) (off : Int) (abbr : Bytes) : Out :=
  match atoi arg with
  | none => .val errorNum
  | some unix =>
    let z := zoneAt loc off abbr
    if !yearInRange unix z.1 then .unmodelled "year-range"
    else .val (formatLayout layout (timeVOf unix z.1 z.2))

/-- The closure of `kfTimeAttr`. -/
def timeAttrStage (attr : Bytes) (loc : Loc) (arg : Bytes) (off : Int) : Out :=
  match atoi arg with
  | none => .val errorNum
  | some unix =>
    let z := zoneAt loc off []
    if !yearInRange unix z.1 then .unmodelled "year-range"
    else match timeAttr attr unix z.1 with
      | some b => .val b
      | none => .unmodelled "no-such-attr"

/-- `f` of `kfTimeParse`: `strconv.FormatInt(t.Unix(), 10)`.  An abbreviation other than the one in
force: rare's UTC is `time.UTC`, whose zone list is empty, so `lookupName` knows no name at all – Go
fabricates a zone and does NOT shift the instant (also for `GMT+7`): the wall clock is read as UTC, no
oracle needed.  For a named location whether the name is known is a tz-database fact (op `zn` /
`instantInN` have the zone list; this older op declines). -/
def unixOut (loc : Loc) (off : Int) (abbr : Bytes) (p : Parsed) : Out :=
  let z := zoneAt loc off abbr
  match instantOf p z.1 z.2 with
  | some u => .val (itoa u)
  | none =>
    match loc with
    | .utc => .val (itoa (wallSeconds p.dt))
    | _ => .unmodelled "zone-abbreviation"

/-- `f` of `kfBucketTime`: `t.Format(bucketFormat)`.  The wall clock of a parsed time is the one
that was written when the text carries `Z`/`UTC`, a numeric offset, nothing (the location applies),
or the abbreviation in force in the location at the resulting instant (`locAbbr`, oracle).  For any
other abbreviation Go either shifts the clock (`GMT+3`, or a name the location uses at other times)
or not (a name it does not know) – a tz-database fact, so the model declines.  Weekday / year-day /
zone tokens do not occur in bucket layouts. -/
def bucketOut (bucketLayout : Bytes) (locAbbr : Bytes) (p : Parsed) : Out :=
  let known := match p.zone with
    | .name n => decide (n = locAbbr)
    | _ => true
  if !known then .unmodelled "zone-abbreviation"
  else if decide (0 ≤ p.dt.y ∧ p.dt.y ≤ 9999) then
    .val (formatLayout bucketLayout ⟨p.dt, 0, 1, 0, []⟩)
  else .unmodelled "year-range"

end Rare.C18
