import Rare.Base.Bytes
/-!
A SMALL model of the regex engine behind `--match` (Go's `regexp`, reached through
`fastregex.CompileEx` / `FindSubmatchIndex`), for a fragment of the syntax: literals, byte classes,
`.`, the empty-width assertions (`^`, `$`, `\A`, `\z`, `\b`, `\B`, and the line-wise `^` `$` of POSIX mode),
concatenation, alternation, `*` `+` `?` (greedy and lazy) over bodies that cannot match the empty text,
counted repetition `{n}` `{n,}` `{n,m}` (unfolded by the parser the way `syntax.Simplify` does), capture groups.  Semantics = leftmost-first (Perl/RE2 backtracking priority): the
unanchored search tries the start offsets `0, 1, …` in turn and, at a start offset, explores the
alternatives in priority order (left branch of `|` first, one more iteration before stopping for a
greedy loop, the other way round for a lazy one).

* `den` – the *priority-ordered list* of all ways the expression can match from an offset (offset
  reached + capture log); the head of the list is what a leftmost-first engine reports.
* `mk` – the executable backtracking matcher (continuation passing, stops at the first success);
  `Proofs/C02Rx` proves it returns the head of `den`'s list.
* `search` / `findSubmatchIndex` – the unanchored search and the `[]int` that
  `FindSubmatchIndex` returns (`-1,-1` for a group that did not participate).

The capture log is append-only: `(n, a, b)` is pushed when group `n` closes; the value of a group is
its most recent entry (a group inside a loop keeps its last iteration, a group in an iteration that
did not happen again keeps the earlier value – as in Go).
-/
namespace Rare.C02.Rx

/-- the empty-width assertions (`syntax.EmptyOp`): begin / end of text (`^` `$` `\A` `\z` in Perl mode),
begin / end of line (`^` `$` in POSIX mode, which has no `OneLine` flag), `\b`, `\B` -/
inductive Look where
  | bot | eot | bol | eol | wb | nwb
  deriving Repr, Inhabited, DecidableEq

inductive Re where
  | eps
  | cls (neg : Bool) (ranges : List (UInt8 × UInt8))
  | look (k : Look)
  | cat (a b : Re)
  | alt (a b : Re)
  | star (greedy : Bool) (a : Re)
  | grp (n : Nat) (a : Re)
  deriving Repr, Inhabited

abbrev Caps := List (Nat × Nat × Nat)
abbrev Res := Nat × Caps

/-- membership of a byte in a class given as inclusive ranges, possibly negated -/
def inCls (neg : Bool) (rs : List (UInt8 × UInt8)) (b : UInt8) : Bool :=
  neg != rs.any fun r => decide (r.1 ≤ b) && decide (b ≤ r.2)

/-- `syntax.IsWordChar` on bytes -/
def isWord (b : UInt8) : Bool :=
  (48 ≤ b && b ≤ 57) || (65 ≤ b && b ≤ 90) || (97 ≤ b && b ≤ 122) || b = 95

/-- is there a word character just before offset `i` / at offset `i`? (outside the text: no) -/
def wordBefore (s : Bytes) (i : Nat) : Bool :=
  if i = 0 then false else match s[i - 1]? with | some b => isWord b | none => false
def wordAt (s : Bytes) (i : Nat) : Bool :=
  match s[i]? with | some b => isWord b | none => false

/-- `syntax.EmptyOpContext(r1, r2)` asked for one assertion at offset `i` of `s` -/
def holds (s : Bytes) : Look → Nat → Bool
  | .bot, i => i = 0
  | .eot, i => i = s.length
  | .bol, i => i = 0 || s[i - 1]? = some 10
  | .eol, i => i = s.length || s[i]? = some 10
  | .wb, i => wordBefore s i != wordAt s i
  | .nwb, i => wordBefore s i == wordAt s i

/-- can the expression match the empty text somewhere? (syntactic) -/
def nullable : Re → Bool
  | .eps => true
  | .cls _ _ => false
  | .look _ => true
  | .cat a b => nullable a && nullable b
  | .alt a b => nullable a || nullable b
  | .star _ _ => true
  | .grp _ a => nullable a

/-- loops: all ways to iterate `step` (every iteration must advance), in priority order;
first argument = fuel (`len(s)` iterations are always enough) -/
def iter (step : Nat → Caps → List Res) (greedy : Bool) : Nat → Nat → Caps → List Res
  | 0, i, c => [(i, c)]
  | f + 1, i, c =>
    let more := ((step i c).filter fun r => i < r.1).flatMap fun r => iter step greedy f r.1 r.2
    if greedy then more ++ [(i, c)] else (i, c) :: more

/-- all matches of `r` starting at offset `i` of `s` with capture log `c`, highest priority first -/
def den (s : Bytes) : Re → Nat → Caps → List Res
  | .eps, i, c => [(i, c)]
  | .cls neg rs, i, c =>
    match s[i]? with
    | some b => if inCls neg rs b then [(i + 1, c)] else []
    | none => []
  | .look k, i, c => if holds s k i then [(i, c)] else []
  | .cat a b, i, c => (den s a i c).flatMap fun r => den s b r.1 r.2
  | .alt a b, i, c => den s a i c ++ den s b i c
  | .star g a, i, c => iter (den s a) g s.length i c
  | .grp n a, i, c => (den s a i c).map fun r => (r.1, (n, i, r.1) :: r.2)

/-- the loop of the backtracking matcher -/
def iterK {β : Type} (stepK : Nat → Caps → (Nat → Caps → Option β) → Option β) (greedy : Bool) :
    Nat → Nat → Caps → (Nat → Caps → Option β) → Option β
  | 0, i, c, k => k i c
  | f + 1, i, c, k =>
    if greedy then
      match stepK i c (fun j c' => if i < j then iterK stepK greedy f j c' k else none) with
      | some x => some x
      | none => k i c
    else
      match k i c with
      | some x => some x
      | none => stepK i c (fun j c' => if i < j then iterK stepK greedy f j c' k else none)

/-- the backtracking matcher: `k` is the rest of the match; the first success wins -/
def mk {β : Type} (s : Bytes) : Re → Nat → Caps → (Nat → Caps → Option β) → Option β
  | .eps, i, c, k => k i c
  | .cls neg rs, i, c, k =>
    match s[i]? with
    | some b => if inCls neg rs b then k (i + 1) c else none
    | none => none
  | .look l, i, c, k => if holds s l i then k i c else none
  | .cat a b, i, c, k => mk s a i c (fun j c' => mk s b j c' k)
  | .alt a b, i, c, k =>
    match mk s a i c k with
    | some x => some x
    | none => mk s b i c k
  | .star g a, i, c, k => iterK (mk s a) g s.length i c k
  | .grp n a, i, c, k => mk s a i c (fun j c' => k j ((n, i, j) :: c'))

/-- the match of `r` anchored at `p`: end offset and capture log -/
def matchAt (s : Bytes) (r : Re) (p : Nat) : Option Res :=
  mk s r p [] (fun j c => some (j, c))

/-- the unanchored search: start offsets `p, p+1, …` (fuel many) -/
def searchFrom (s : Bytes) (r : Re) : Nat → Nat → Option (Nat × Res)
  | 0, _ => none
  | f + 1, p =>
    match matchAt s r p with
    | some res => some (p, res)
    | none => searchFrom s r f (p + 1)

def search (s : Bytes) (r : Re) : Option (Nat × Res) := searchFrom s r (s.length + 1) 0

/-- POSIX mode (`CompilePOSIX`, leftmost-LONGEST): among the matches from one start offset the engine
reports the longest, and among the longest the one a backtracking search finds first – the first
element of the priority list that reaches the largest end offset -/
def pickLongest : List Res → Option Res
  | [] => none
  | x :: xs =>
    match pickLongest xs with
    | none => some x
    | some y => if x.1 < y.1 then some y else some x

def matchAtL (s : Bytes) (r : Re) (p : Nat) : Option Res := pickLongest (den s r p [])

def searchFromL (s : Bytes) (r : Re) : Nat → Nat → Option (Nat × Res)
  | 0, _ => none
  | f + 1, p =>
    match matchAtL s r p with
    | some res => some (p, res)
    | none => searchFromL s r f (p + 1)

def searchL (s : Bytes) (r : Re) : Option (Nat × Res) := searchFromL s r (s.length + 1) 0

/-- the current value of group `n` -/
def lookup (c : Caps) (n : Nat) : Option (Nat × Nat) := (c.find? fun e => e.1 == n).map (·.2)

/-- the index pair of group `n`: `(-1, -1)` when it did not participate -/
def spanOf (c : Caps) (n : Nat) : Int × Int :=
  match lookup c n with
  | some (a, b) => ((a : Int), (b : Int))
  | none => (-1, -1)

/-- groups `n … n+cnt-1` as index pairs -/
def groupPairs (c : Caps) : Nat → Nat → List Int
  | 0, _ => []
  | cnt + 1, n => (spanOf c n).1 :: (spanOf c n).2 :: groupPairs c cnt (n + 1)

/-- the `[]int` of `FindSubmatchIndex` for an expression with groups `1 … ng` -/
def indicesOf (ng : Nat) (m : Nat × Res) : List Int :=
  [(m.1 : Int), (m.2.1 : Int)] ++ groupPairs m.2.2 ng 1

/-- `re.FindSubmatchIndex(line)`; `[]` (nil) = no match -/
def findSubmatchIndex (s : Bytes) (r : Re) (ng : Nat) : List Int :=
  match search s r with
  | none => []
  | some m => indicesOf ng m

end Rare.C02.Rx

namespace Rare.C02.Rx

/-- `CompilePOSIX(…).FindSubmatchIndex(line)` -/
def findSubmatchIndexL (s : Bytes) (r : Re) (ng : Nat) : List Int :=
  match searchL s r with
  | none => []
  | some m => indicesOf ng m

/-- `n` copies of `a` in a row, then `tail` -/
def copies (a : Re) : Nat → Re → Re
  | 0, tail => tail
  | n + 1, tail => .cat a (copies a n tail)

/-- the optional tail of `x{n,m}`: `(x(x(x)?)?)?` with `k` levels (`syntax.Simplify`) -/
def optNest (greedy : Bool) (a : Re) : Nat → Re
  | 0 => .eps
  | k + 1 => if greedy then .alt (.cat a (optNest greedy a k)) .eps else .alt .eps (.cat a (optNest greedy a k))

/-- counted repetition as `syntax.Simplify` unfolds it: `x{n,m}` = `n` copies and `m-n` nested optional
copies; `x{n,}` = `n` copies and `x*` (Go: `n-1` copies and `x+`) -/
def repeatRe (greedy : Bool) (a : Re) (min : Nat) : Option Nat → Re
  | some max => copies a min (optNest greedy a (max - min))
  | none => copies a min (.star greedy a)

end Rare.C02.Rx
