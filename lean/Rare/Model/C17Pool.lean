/-!
`pkg/slicepool/objpool.go` (property C17): the object pool as a heap of object identities.

Objects are numbered: the `size` objects `NewObjectPoolEx` creates are `0 … size-1` (in slice order), every
object `newer()` makes later gets the next number.  `free` is the slice `s.pool`.  The mutex makes `Get` and
`Return` atomic, so any concurrent use is some interleaving of these two functions.
-/
namespace Rare.C17Pool

structure Pool where
  /-- `s.pool`, first slot first -/
  free : List Nat
  /-- the number the next `newer()` object gets -/
  next : Nat
deriving Repr, DecidableEq

/-- `NewObjectPool(size)` -/
def Pool.new (size : Nat) : Pool := ⟨List.range size, size⟩

/-- `Get()`: a fresh object when the slice is empty, else the LAST slot, which is cut off. -/
def Pool.get (p : Pool) : Nat × Pool :=
  match p.free.getLast? with
  | none => (p.next, { p with next := p.next + 1 })
  | some o => (o, { p with free := p.free.dropLast })

/-- `Return(obj)`: `s.pool = append(s.pool, obj)` -/
def Pool.ret (p : Pool) (o : Nat) : Pool := { p with free := p.free ++ [o] }

/-- A client event of the `pool` correspondence op: `Get`, or `Return` of the object the k-th `Get` handed out. -/
inductive Ev where
  | get
  | ret (k : Nat)
deriving Repr, DecidableEq

/-- Run a script; the result lists the object every `Get` handed out. -/
def runScript : List Ev → Pool → List Nat → List Nat
  | [], _, got => got
  | .get :: r, p, got => let (o, p') := p.get; runScript r p' (got ++ [o])
  | .ret k :: r, p, got =>
    match got[k]? with
    | some o => runScript r (p.ret o) got
    | none => runScript r p got

/-- Objects renamed by first appearance (the harness cannot see the numbers, only identities). -/
def canon : List Nat → List Nat → List Nat
  | [], _ => []
  | o :: r, seen =>
    match seen.idxOf? o with
    | some i => i :: canon r seen
    | none => seen.length :: canon r (seen ++ [o])

end Rare.C17Pool
