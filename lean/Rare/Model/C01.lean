import Rare.Spec.C04
import Rare.Model.Expr.Build
import Rare.Model.Pipeline
import Rare.Model.Batcher
/-!
Sequential reference semantics of extraction (C01/C02): what one-line-at-a-time evaluation
produces for a set of inputs, and the classification performed by `processLineSync`.
-/
namespace Rare.C01
open Rare.Pipeline

/-- `processLineSync`: a line whose matcher result is empty is unmatched; otherwise it is ignored when
    an ignore expression is truthy or the extracted key is empty, and matched otherwise. -/
def classify (hasMatch : Bool) (ignoreResults : List Bytes) (key : Bytes) : Cls :=
  if hasMatch then
    if !(ignoreResults.any Expr.truthy) then
      if key.length > 0 then .matched else .ignored
    else .ignored
  else .unmatched

/-- A line with its provenance, as the pipeline model carries it. -/
structure Line where
  src : Nat
  num : Nat        -- 1-based line number within its source
  text : Bytes
  deriving DecidableEq, Repr

/-- The lines of source number `i` with content `data` (C04 specification + numbering from 1). -/
def linesOf (i : Nat) (data : Bytes) : List Line :=
  (C04.splitLines data).zipIdx 1 |>.map fun p => ⟨i, p.2, p.1⟩

def allLines (inputs : List Bytes) : List Line :=
  (inputs.zipIdx 0).flatMap fun p => linesOf p.2 p.1

structure Totals where
  read : Nat
  matched : Nat
  ignored : Nat
  deriving Repr, DecidableEq

/-- Sequential one-line-at-a-time evaluation. -/
def seqTotals (cls : Line → Cls) (ls : List Line) : Totals :=
  ⟨ls.length, (ls.filter (isMatched cls)).length, (ls.filter (isIgnored cls)).length⟩

def seqMatches (cls : Line → Cls) (ls : List Line) : List Line := ls.filter (isMatched cls)

/-! The matcher used by the correspondence harness (a stand-in for a regex: the regex engine is a
    trusted library).  A line containing `x` does not match; group 1 is the text after the first `:`. -/

def harnessHasMatch (l : Bytes) : Bool := !l.contains 120

def harnessGroup1 : Bytes → Bytes
  | [] => []
  | b :: r => if b = 58 then r else harnessGroup1 r

/-- extract `{0}`, ignore `{1}` -/
def harnessCls (l : Line) : Cls :=
  classify (harnessHasMatch l.text) [harnessGroup1 l.text] l.text

end Rare.C01
