import Rare.Base.GoInt
import Rare.Spec.C11
import Rare.Spec.C17Atoi
/-!
# C01: the summary line `Matched: M / R (Ignored: I)`

`cmd/helpers/summary.go`:

    func FWriteMatchSummary(w, matched, total) {
        fmt.Fprintf(w, "Matched: %s / %s", color.Wrapi(color.BrightGreen, humanize.Hui(matched)),
                                            color.Wrapi(color.BrightWhite, humanize.Hui(total)))
    }
    func FWriteExtractorSummary(extractor, errors, additionalParts...) string {
        FWriteMatchSummary(&w, extractor.MatchedLines(), extractor.ReadLines())
        for _, p := range additionalParts { w.WriteRune(' '); w.WriteString(p) }
        if extractor.IgnoredLines() > 0 { " (Ignored: %s)"  <- color.Wrapi(color.Red, humanize.Hui(ignored)) }
        if errors > 0                   { " %s"             <- color.Wrapf(color.Red, "(Errors: %v)", humanize.Hui(errors)) }
    }
    func WriteExtractorSummary(extractor) { os.Stderr <- FWriteExtractorSummary(extractor, 0) + "\n" }

`humanize.Hui` = `humanizeInt[uint64]` (thousands separators) unless `--noformat` (`humanize.Enabled = false`:
`strconv.FormatUint`); `color.Wrapi` = `color.Wrap(color, fmt.Sprintf("%v", s))`: the text between the colour
code and `Reset` unless `--nocolor` / piped output (`color.Enabled = false`: the text itself).

`rare filter -n NUM` (cmd/filter.go) stops reading `ReadChan()` after NUM printed matches and prints
`FWriteMatchSummary(os.Stderr, printed, NUM)` instead of the extractor summary.
-/
namespace Rare.C01
open Rare

/-- The digit loop of `humanizeInt` for an unsigned value, writing right to left (`acc` is `buf[idx+1:]`, `ci`
    the number of digits written since the last separator).  A uint64 has at most 20 digits: 20 rounds of
    fuel always reach `v == 0`. -/
def huiLoop : Nat → Nat → Nat → Bytes → Bytes
  | 0, _, _, acc => acc
  | f + 1, v, ci, acc =>
    if v = 0 then acc
    else
      let acc := if ci = 3 then 44 :: acc else acc
      let ci := if ci = 3 then 0 else ci
      huiLoop f (v / 10) (ci + 1) (UInt8.ofNat (48 + v % 10) :: acc)

/-- `humanizeInt[uint64](v)`: `v >= 0 && v < 100` takes the `FormatInt` shortcut. -/
def humanizeUint (v : Nat) : Bytes :=
  if v < 100 then natDigits v else huiLoop 20 v 0 []

/-- `humanize.Hui(arg)`; `fmt` = `humanize.Enabled` (false under `--noformat`). -/
def hui (fmt : Bool) (v : Nat) : Bytes :=
  if !fmt then natDigits v else humanizeUint v

/-- `color.Reset`, `color.BrightGreen`, `color.BrightWhite`, `color.Red` -/
def cReset : Bytes := 27 :: ascii "[0m"
def cBrightGreen : Bytes := 27 :: ascii "[32;1m"
def cBrightWhite : Bytes := 27 :: ascii "[37;1m"
def cRed : Bytes := 27 :: ascii "[31m"

/-- `color.Wrap(color, s)`; `col` = `color.Enabled`.  `Reset` is not appended to a text that already ends
    with it. -/
def wrap (col : Bool) (code s : Bytes) : Bytes :=
  if !col then s
  else
    let body := code ++ s
    if s.length < cReset.length || s.drop (s.length - cReset.length) != cReset then body ++ cReset else body

/-- `FWriteMatchSummary(w, matched, total)` -/
def matchSummary (fmt col : Bool) (matched total : Nat) : Bytes :=
  ascii "Matched: " ++ wrap col cBrightGreen (hui fmt matched) ++ ascii " / " ++ wrap col cBrightWhite (hui fmt total)

/-- `FWriteExtractorSummary(extractor, errors, parts...)` for an extractor whose counters are
    `matched`, `read`, `ignored`. -/
def extractorSummary (fmt col : Bool) (matched read ignored errors : Nat) (parts : List Bytes) : Bytes :=
  matchSummary fmt col matched read
  ++ (parts.flatMap fun p => 32 :: p)
  ++ (if ignored > 0 then ascii " (Ignored: " ++ wrap col cRed (hui fmt ignored) ++ ascii ")" else [])
  ++ (if errors > 0 then 32 :: wrap col cRed (ascii "(Errors: " ++ hui fmt errors ++ ascii ")") else [])

/-- what `WriteExtractorSummary` writes to stderr -/
def summaryLine (fmt col : Bool) (matched read ignored : Nat) : Bytes :=
  extractorSummary fmt col matched read ignored 0 [] ++ [10]

/-! ### Reading the line back (specification side: what a reader of the line takes the numbers to be) -/

def isNumB (c : UInt8) : Bool := isDigitB c || c == 44

/-- the number a digit string with thousands separators stands for, and the text after it -/
def readNum (s : Bytes) : Nat × Bytes :=
  (C17.decVal (C11.Spec.stripCommas (s.takeWhile isNumB)), s.dropWhile isNumB)

def stripPrefix (p s : Bytes) : Option Bytes :=
  if p.isPrefixOf s then some (s.drop p.length) else none

/-- `(matched, read, ignored)` as printed: the number after `Matched: `, the number after ` / `, and the number
    after ` (Ignored: ` when that part follows (0 otherwise). -/
def readSummary (s : Bytes) : Option (Nat × Nat × Nat) :=
  match stripPrefix (ascii "Matched: ") s with
  | none => none
  | some s =>
    let m := readNum s
    match stripPrefix (ascii " / ") m.2 with
    | none => none
    | some s =>
      let r := readNum s
      match stripPrefix (ascii " (Ignored: ") r.2 with
      | some s => some (m.1, r.1, (readNum s).1)
      | none => some (m.1, r.1, 0)

/-- What a terminal shows of a text with SGR colour sequences: everything from an `ESC` up to and including the
    next `m` is not displayed (`inEsc` = inside such a sequence). -/
def stripAnsiGo : Bool → Bytes → Bytes
  | _, [] => []
  | false, c :: r => if c = 27 then stripAnsiGo true r else c :: stripAnsiGo false r
  | true, c :: r => if c = 109 then stripAnsiGo false r else stripAnsiGo true r

def stripAnsi (s : Bytes) : Bytes := stripAnsiGo false s

/-! ### `rare filter`: the consumer loop with the `-n NUM` limit

    for { matchBatch, more := <-readChan; if !more { break }
          for _, match := range matchBatch { print; readLines++
              if numLineLimit > 0 && readLines >= numLineLimit { break OUTER_LOOP } } }
    if numLineLimit > 0 { FWriteMatchSummary(os.Stderr, readLines, numLineLimit) } else { WriteExtractorSummary }

`filterLoop limit batches printed` = the matches printed, given the match batches in the order the consumer
receives them.  `limit = 0` = no limit. -/

def filterBatch {α : Type} (limit : Nat) : List α → List α → List α × Bool
  | [], printed => (printed, false)
  | m :: rest, printed =>
    let printed := printed ++ [m]
    if limit > 0 && printed.length ≥ limit then (printed, true) else filterBatch limit rest printed

def filterLoop {α : Type} (limit : Nat) : List (List α) → List α → List α
  | [], printed => printed
  | b :: rest, printed =>
    match filterBatch limit b printed with
    | (printed, true) => printed
    | (printed, false) => filterLoop limit rest printed

/-- stderr of `rare filter`: the `-n` summary or the extractor summary -/
def filterSummary (fmt col : Bool) (limit printed matched read ignored : Nat) : Bytes :=
  if limit > 0 then matchSummary fmt col printed limit ++ [10] else summaryLine fmt col matched read ignored

end Rare.C01
