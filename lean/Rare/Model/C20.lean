import Rare.Base.GoInt
import Rare.Spec.C20
/-!
Executable model of `/repo/pkg/multiterm` (property C20), function by function:

* `cursor.go`     – `escape`, `moveUpf`, `hideCursor`, `showCursor`, `eraseRemainingLine` → `Esc` table + `moveUpf`
* `linetrim.go`   – `WriteLineNoWrap` → `trimGo` (the scan loop, returns the index `i`) / `writeLineNoWrap`
* `multiterm.go`  – `TermWriter` (`New`, `WriteForLine`, `goTo`, `writeAtCursor`, `Close`)
* `virtualterm.go`– `VirtualTerm` (`WriteForLine`, `Close`, `Get`, `LineCount`, `WriteToOutput`)
* `bufferedterm.go` – `BufferedTerm.Close`

Everything written to `os.Stdout` is returned as a byte string.  The literal strings of the Go
source are a parameter (`Esc`); `handEsc` is the hand copy used by the driver, and
`Rare/Gen/C20.lean` (regenerated from /repo on every run) is proved equal to it in `Props/C20`.
-/
namespace Rare.C20

/-- the string / rune literals of cursor.go, multiterm.go and linetrim.go -/
structure Esc where
  escape : Bytes      -- const ESCAPE
  upPre : Bytes       -- moveUpf format before %d
  upPost : Bytes      -- moveUpf format after %d
  upArg : Int         -- goTo: the argument of moveUp(…)
  hide : Bytes        -- hideCursor
  unhide : Bytes      -- showCursor
  erase : Bytes       -- eraseRemainingLine
  nl : Bytes          -- goTo: fmt.Print("\n")
  cr : Bytes          -- goTo: fmt.Print("\r")
  closeNl : Bytes     -- Close: fmt.Println()
  trimEsc : Nat       -- linetrim.go: '\x1b'
  trimEnd : Nat       -- linetrim.go: 'm'
  deriving DecidableEq, Repr

def handEsc : Esc :=
  { escape := [0x1b], upPre := [0x5b], upPost := [0x41], upArg := 1,
    hide := [0x5b, 0x3f, 0x32, 0x35, 0x6c], unhide := [0x5b, 0x3f, 0x32, 0x35, 0x68],
    erase := [0x5b, 0x30, 0x4b], nl := [10], cr := [13], closeNl := [10],
    trimEsc := 27, trimEnd := 109 }

/-- `escape(format, args...)` -/
def Esc.seq (E : Esc) (body : Bytes) : Bytes := E.escape ++ body

/-- `moveUpf(n)` = `escape("[%dA", n)` -/
def moveUpf (E : Esc) (n : Int) : Bytes := E.seq (E.upPre ++ itoa n ++ E.upPost)

/-! ### linetrim.go -/

/-- The scan loop of `WriteLineNoWrap`; the result is the final value of `i`.
`inEsc = true` is the inner loop (`for runes[i] != 'm' && i < len(runes)-1`), positioned at the
head of the list; `inEsc = false` is the head of the outer loop. -/
def trimGo (E : Esc) (cols : Int) : Bool → Int → List Rune → Nat
  | _, _, [] => 0
  | true, vis, r :: rest =>
    if r ≠ E.trimEnd ∧ rest ≠ [] then 1 + trimGo E cols true vis rest     -- i++ inside the inner loop
    else 1 + trimGo E cols false vis rest                                  -- inner loop ends, outer i++
  | false, vis, r :: rest =>
    if vis < cols then
      if r = E.trimEsc then
        -- enter the inner loop at the same position
        if r ≠ E.trimEnd ∧ rest ≠ [] then 1 + trimGo E cols true vis rest
        else 1 + trimGo E cols false vis rest
      else 1 + trimGo E cols false (vis + 1) rest
    else 0

/-- `runes[:i]` of `WriteLineNoWrap` -/
def trimRunes (E : Esc) (cols : Int) (runes : List Rune) : List Rune :=
  runes.take (trimGo E cols false 0 runes)

/-- `WriteLineNoWrap(out, s)`: the bytes written to `out` -/
def writeLineNoWrap (E : Esc) (autoTrim : Bool) (cols : Int) (s : Bytes) : Bytes :=
  if !autoTrim then s
  else encodeUtf8 (trimRunes E cols (decodeUtf8 s))

/-- the package-level state of linetrim.go: `AutoTrim`, `computedRows`, `computedCols` -/
structure TermEnv where
  autoTrim : Bool
  rows : Int
  cols : Int
  deriving DecidableEq, Repr

/-- `const defaultRows, defaultCols = 24, 80` -/
def defaultSize : Int × Int := (24, 80)

/-- linetrim.go `init()`: `tty = some (rows, cols)` when stdout is a terminal whose size can be read
(`termstate.GetTermRowsCols()` says ok): trimming stays on at that width; otherwise (piped output,
files, no terminal) trimming is switched OFF and the size is the default 24 x 80. -/
def initEnv : Option (Int × Int) → TermEnv
  | some (r, c) => { autoTrim := true, rows := r, cols := c }
  | none => { autoTrim := false, rows := defaultSize.1, cols := defaultSize.2 }

/-! ### multiterm.go -/

structure Cfg where
  E : Esc
  autoTrim : Bool
  cols : Int

structure TermWriter where
  cursor : Int
  cursorHidden : Bool
  maxLine : Int
  clearLine : Bool
  hideCursor : Bool
  deriving DecidableEq, Repr

/-- `New()` -/
def TermWriter.new : TermWriter :=
  { cursor := 0, cursorHidden := false, maxLine := 0, clearLine := true, hideCursor := true }

/-- `n` iterations of a loop body that prints `piece` -/
def repeatBytes (n : Nat) (piece : Bytes) : Bytes := (List.replicate n piece).flatten

/-- `goTo(line)`: the first loop runs `line - cursor` times (if positive) printing "\n", the second
`cursor - line` times printing `moveUp(1)` (`E.upArg` = 1); both leave `cursor = line`; then "\r". -/
def TermWriter.goTo (E : Esc) (s : TermWriter) (line : Int) : TermWriter × Bytes :=
  let maxLine := if line > s.maxLine then line else s.maxLine
  let downs := (line - s.cursor).toNat
  let ups := (s.cursor - line).toNat
  ({ s with maxLine := maxLine, cursor := line },
   repeatBytes downs E.nl ++ repeatBytes ups (moveUpf E E.upArg) ++ E.cr)

/-- `writeAtCursor(text)` -/
def TermWriter.writeAtCursor (c : Cfg) (s : TermWriter) (text : Bytes) : Bytes :=
  writeLineNoWrap c.E c.autoTrim c.cols text ++ (if s.clearLine then c.E.seq c.E.erase else [])

/-- `WriteForLine(line, text)` -/
def TermWriter.writeForLine (c : Cfg) (s : TermWriter) (line : Int) (text : Bytes) : TermWriter × Bytes :=
  let hideNow := s.hideCursor && !s.cursorHidden
  let s1 := if hideNow then { s with cursorHidden := true } else s
  let g := s1.goTo c.E line
  (g.1, (if hideNow then c.E.seq c.E.hide else []) ++ g.2 ++ g.1.writeAtCursor c text)

/-- `Close()` -/
def TermWriter.close (c : Cfg) (s : TermWriter) : TermWriter × Bytes :=
  let g := s.goTo c.E s.maxLine
  (g.1, g.2 ++ c.E.closeNl ++ (if g.1.cursorHidden then c.E.seq c.E.unhide else []))

/-- a whole update history (no Close) -/
def TermWriter.runHistory (c : Cfg) : TermWriter → List (Int × Bytes) → TermWriter × Bytes
  | s, [] => (s, [])
  | s, (l, t) :: rest =>
    let r1 := s.writeForLine c l t
    let r2 := runHistory c r1.1 rest
    (r2.1, r1.2 ++ r2.2)

/-- history followed by `Close()` -/
def TermWriter.session (c : Cfg) (s : TermWriter) (h : List (Int × Bytes)) : TermWriter × Bytes :=
  let r1 := s.runHistory c h
  let r2 := r1.1.close c
  (r2.1, r1.2 ++ r2.2)

/-! ### virtualterm.go / bufferedterm.go -/

structure VirtualTerm where
  lines : List Bytes
  closed : Bool
  deriving DecidableEq, Repr

def VirtualTerm.new : VirtualTerm := { lines := [], closed := false }

/-- `WriteForLine`: panics when closed or when `line` is negative (index out of range) -/
def VirtualTerm.writeForLine (v : VirtualTerm) (line : Int) (text : Bytes) : Except String VirtualTerm :=
  if v.closed then .error "virtualterm closed"
  else if line < 0 then .error "index out of range"
  else
    let n := line.toNat
    let grown := v.lines ++ List.replicate (n + 1 - v.lines.length) []
    .ok { v with lines := grown.set n text }

def VirtualTerm.close (v : VirtualTerm) : VirtualTerm := { v with closed := true }

def VirtualTerm.get (v : VirtualTerm) (line : Int) : Bytes :=
  if line ≥ v.lines.length ∨ line < 0 then [] else v.lines.getD line.toNat []

def VirtualTerm.lineCount (v : VirtualTerm) : Nat := v.lines.length

/-- `WriteToOutput(out)` -/
def VirtualTerm.writeToOutput (c : Cfg) (v : VirtualTerm) : Bytes :=
  v.lines.flatMap (fun line => writeLineNoWrap c.E c.autoTrim c.cols line ++ [10])

def VirtualTerm.runHistory : VirtualTerm → List (Int × Bytes) → Except String VirtualTerm
  | v, [] => .ok v
  | v, (l, t) :: rest => do
    let v' ← v.writeForLine l t
    runHistory v' rest

/-- `BufferedTerm.Close()`: the bytes written to stdout, and the closed term -/
def bufferedClose (c : Cfg) (v : VirtualTerm) : VirtualTerm × Bytes := (v.close, v.writeToOutput c)

/-! ### termstate/term.go and cmd/helpers/output.go: which writer a command gets -/

/-- what the operating system says about the process' stdout -/
structure StdoutInfo where
  /-- `os.Stdout.Stat()` returned no error -/
  statOk : Bool
  /-- `fi.Mode() & os.ModeCharDevice` is not 0 -/
  charDevice : Bool
  /-- `term.IsTerminal(fd)` -/
  isTerminal : Bool
  /-- `term.GetSize(fd)` returned no error … -/
  sizeOk : Bool
  /-- … and its first result (the width: columns) … -/
  width : Int
  /-- … and its second result (the height: rows) -/
  height : Int
  deriving DecidableEq, Repr

/-- `termstate.IsPipedOutput()`: stdout is known not to be a character device -/
def isPipedOutput (o : StdoutInfo) : Bool := o.statOk && !o.charDevice

/-- `termstate.GetTermRowsCols()`: `some (rows, cols)` when the third result is `true` -/
def getTermRowsCols (o : StdoutInfo) : Option (Int × Int) :=
  if !o.isTerminal then none else if !o.sizeOk then none else some (o.height, o.width)

/-- the implementations of `multiterm.MultilineTerm` a command can get -/
inductive TermKind where
  | null       -- `&multiterm.NullTerm{}`: writes nothing
  | buffered   -- `multiterm.NewBufferedTerm()`: prints the final lines on `Close()`
  | live       -- `multiterm.New()`: the in-place terminal writer
  deriving DecidableEq, Repr

/-- the command-line flags `BuildVTermFromArguments` looks at -/
structure OutFlags where
  noout : Bool       -- `--noout`
  csv : Bytes        -- `--csv` / `-o` (empty when not given)
  snapshot : Bool    -- `--snapshot`
  deriving DecidableEq, Repr

/-- `helpers.BuildVTerm(forceSnapshot)` -/
def buildVTerm (forceSnapshot : Bool) (o : StdoutInfo) : TermKind :=
  if forceSnapshot || isPipedOutput o then .buffered else .live

/-- `helpers.BuildVTermFromArguments(c)` -/
def buildVTermFromArguments (f : OutFlags) (o : StdoutInfo) : TermKind :=
  if f.noout || f.csv == [0x2d] then .null else buildVTerm f.snapshot o

/-- Everything a command writes to stdout through its `MultilineTerm` for an update history followed
by `Close()`: the start-up state is `init()`'s for this stdout, the writer is the one
`BuildVTermFromArguments` picks.  (`.error` = the buffered store panicked: negative line.) -/
def cliOutput (E : Esc) (f : OutFlags) (o : StdoutInfo) (hist : List (Int × Bytes)) : Except String Bytes :=
  let env := initEnv (getTermRowsCols o)
  let c : Cfg := { E := E, autoTrim := env.autoTrim, cols := env.cols }
  match buildVTermFromArguments f o with
  | .null => .ok []
  | .live => .ok (TermWriter.new.session c hist).2
  | .buffered =>
    match VirtualTerm.new.runHistory hist with
    | .ok v => .ok (bufferedClose c v).2
    | .error e => .error e

end Rare.C20
