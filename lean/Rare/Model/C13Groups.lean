import Rare.Model.C13
/-!
C13: row order of `rare reduce` – `AccumulatingGroup.Groups(sort)` (pkg/aggregation/accumulator.go)
with the sorter `cmd/reduce.go` builds: `sorting.ByContextual()`, wrapped in `sorting.Reverse` for
`--sort-reverse`.  The groups come out of a Go map.

    if s.sortExpr != nil {
        sorting.Sort(ret, func(a, b GroupKey) bool {
            ka, kb := sortKey(a), sortKey(b)
            if ka == kb { return a < b }      // equal sort keys: by group key (NOT reversed)
            return sort(ka, kb)
        })
    } else {
        sorting.SortBy(ret, sort, func(x GroupKey) string { return string(x) })
    }

`sortKey` (the value of the `--sort` expression on a group) is a parameter.
-/
namespace Rare.C13

/-- the comparator of the `sortExpr != nil` branch; `sort` may be a stateful closure -/
def groupsCmpExpr {σ : Type} (sort : SCmp Key σ) (sortKey : Key → Key) : SCmp Key σ := fun s a b =>
  let ka := sortKey a
  let kb := sortKey b
  if ka = kb then (bytesLt a b, s) else sort s ka kb

/-- the comparator of the `else` branch: the sorter on the group keys themselves -/
def groupsCmpPlain {σ : Type} (sort : SCmp Key σ) : SCmp Key σ := fun s a b => sort s a b

/-- `sorter := ByContextual(); if sortReverse { sorter = Reverse(sorter) }` -/
def reduceSorter (o : Oracle) (sets : List SortSet) (rev : Bool) : SCmp Key (CtxState × Unit) :=
  if rev then reverse (byContextual o sets) else byContextual o sets

/-- `Groups(sorter)` as a comparator on group keys -/
def groupsCmp (o : Oracle) (sets : List SortSet) (rev : Bool) (sortKey : Option (Key → Key)) :
    SCmp Key (CtxState × Unit) :=
  match sortKey with
  | some f => groupsCmpExpr (reduceSorter o sets rev) f
  | none => groupsCmpPlain (reduceSorter o sets rev)

/-- What the row order of `reduce` denotes: rank (sort key under `less`, then group key as text);
`less` is the order of the sort keys (contextual, reversed when asked). -/
def groupsSpecLess (less : Key → Key → Bool) (sortKey : Key → Key) (a b : Key) : Bool :=
  if sortKey a = sortKey b then bytesLt a b else less (sortKey a) (sortKey b)

end Rare.C13
