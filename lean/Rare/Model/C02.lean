import Rare.Base.GoInt
import Rare.Model.Expr.Build
/-!
Model of `SliceSpaceExpressionContext` (`GetMatch`, `GetKey`, `array`) and `color.WrapIndices`.
Indices are Go `int`s (`Int`), slicing a string is `goSlice` with Go's bounds check made explicit.
-/
namespace Rare.C02

/-- `s[a:b]`; `.error` = Go panics (slice bounds out of range). -/
def goSlice (s : Bytes) (a b : Int) : Except String Bytes :=
  if 0 ≤ a ∧ a ≤ b ∧ b ≤ s.length then .ok ((s.drop a.toNat).take (b.toNat - a.toNat))
  else .error "slice bounds out of range"

/-- `SliceSpaceExpressionContext.GetMatch(idx)` -/
def getMatch (line : Bytes) (indices : List Int) (idx : Int) : Except String Bytes :=
  let sliceIndex := wrap64 (idx * 2)
  if idx < 0 ∨ sliceIndex < 0 ∨ sliceIndex + 1 ≥ indices.length then .ok []
  else
    let start := indices.getD sliceIndex.toNat 0
    let stop := indices.getD (sliceIndex.toNat + 1) 0
    if start < 0 ∨ stop < 0 then .ok [] else goSlice line start stop

/-- The loop of `array()`, `for i := 1; i < len(s.indices)/2; i++`, over an abstract `GetMatch`
(`get`), `half = len(s.indices)/2`; first argument = fuel, second = `i`.  (Kept generic in `get` so
that unfolding the loop never forces the evaluation of `GetMatch`'s int64 arithmetic.) -/
def arrayGo (get : Nat → Except String Bytes) (half : Nat) : Nat → Nat → Except String Bytes
  | 0, _ => .ok []
  | n + 1, i =>
    if i < half then
      match get i with
      | .error m => .error m
      | .ok v =>
        match arrayGo get half n (i + 1) with
        | .error m => .error m
        | .ok rest => .ok ((if i > 1 then [0] else []) ++ v ++ rest)
    else .ok []

/-- `array()`: groups 1.. joined by the NUL array separator. -/
def array (line : Bytes) (indices : List Int) : Except String Bytes :=
  arrayGo (fun i => getMatch line indices (i : Nat)) (indices.length / 2) (indices.length / 2) 1

structure MatchCtx where
  line : Bytes
  indices : List Int
  names : List (Bytes × Int)     -- SubexpNameTable
  source : Bytes
  lineNum : Nat

inductive KeyAns
  | val (b : Bytes)
  | json             -- `{.}`, `{#}`, `{.#}`: property C16
  deriving Repr

/-- `GetKey(key)` -/
def getKey (c : MatchCtx) (key : Bytes) : Except String KeyAns :=
  if key = ascii "src" then .ok (.val c.source)
  else if key = ascii "line" then .ok (.val (itoa c.lineNum))
  else if key = ascii "." ∨ key = ascii "#" ∨ key = ascii ".#" ∨ key = ascii "#." then .ok .json
  else if key = ascii "@" then (array c.line c.indices).map .val
  else match c.names.find? (·.1 == key) with
    | some p => (getMatch c.line c.indices p.2).map .val
    | none => .ok (.val Expr.ErrorArgName)

/-! ### color.WrapIndices -/

inductive Seg
  | text (b : Bytes)
  | code (b : Bytes)
  deriving Repr

def render : List Seg → Bytes
  | [] => []
  | .text b :: r => b ++ render r
  | .code b :: r => b ++ render r

/-- Remove exactly the inserted colour codes. -/
def strip : List Seg → Bytes
  | [] => []
  | .text b :: r => b ++ strip r
  | .code _ :: r => strip r

/-- The loop of `WrapIndices`: `i` = pair index, `last` = lastIndex. -/
def wrapLoop (s : Bytes) (colors : List Bytes) (reset : Bytes) : List Int → Nat → Int → Except String (List Seg × Int)
  | start :: stop :: rest, i, last =>
    if start ≥ 0 ∧ stop ≥ 0 ∧ stop > start ∧ start ≥ last then
      match goSlice s last start, goSlice s start stop with
      | .ok a, .ok b =>
        match wrapLoop s colors reset rest (i + 1) stop with
        | .ok (segs, l) => .ok (.text a :: .code (colors.getD (i % colors.length) []) :: .text b :: .code reset :: segs, l)
        | .error m => .error m
      | .error m, _ => .error m
      | _, .error m => .error m
    else wrapLoop s colors reset rest (i + 1) last
  | _, _, last => .ok ([], last)

/-- `WrapIndices(s, groups)` with colouring enabled. -/
def wrapIndices (s : Bytes) (colors : List Bytes) (reset : Bytes) (groups : List Int) : Except String (List Seg) :=
  if groups.length = 0 ∨ groups.length % 2 ≠ 0 then .ok [.text s]
  else
    match wrapLoop s colors reset groups 0 0 with
    | .error m => .error m
    | .ok (segs, last) =>
      if last < s.length then
        match goSlice s last s.length with
        | .ok t => .ok (segs ++ [.text t])
        | .error m => .error m
      else .ok segs

end Rare.C02
