import Rare.Model.C15Tail
/-!
# C15 — several followed files on ONE batch channel (`batchers.TailFilesToChan`)

    out := newBatcher(batchBuffer)
    go func() {
        var wg sync.WaitGroup
        for filename := range filenames {
            wg.Add(1)
            go func(filename string) {                       -- one FOLLOWER goroutine per file
                defer func() { out.stopFileReading(filename); wg.Done() }()
                r, err := followreader.New(filename, reopen, poll)
                if err != nil { …; out.incErrors(); return }  -- a follower without batches that ends at once
                if tail { r.Drain() … }
                out.startFileReading(filename)
                out.syncReaderToBatcherWithTimeFlush(filename, r, batchSize, AutoFlushTimeout)
            }(filename)
        }
        wg.Wait()
        out.close()
    }()

Every follower runs the batching loop of `Rare.C15.Tail` on its own follow reader, its own scanner and
its own batch heap (nothing but the channel `out.c` is shared), so all that interleaves are the SENDS.
A follower is therefore described by

* `batches` – the batches its loop sends, in order (for the theorems of `Props/C15`:
  `(tailToChan …).numbered` of its delivered stream when the stream ends, `(live …).numbered` – what has
  been sent while it is blocked in `Read` – when it does not),
* `ends` – whether its follow reader ever reports EOF (plain follow: after the removal of the file;
  re-open follow: never – `blocks_while_exists`, `Read` of notify.go/poller.go has no EOF path with
  `ReOpen`), i.e. whether the goroutine ever returns and calls `wg.Done()`.

The transition system: one transition per goroutine start, per channel operation, per `wg.Done()` and
for the `close`.  The channel is a FIFO buffer of capacity `B` (`batchBuffer`); a send completes when
the buffer has room (`send`) or – Go's rendezvous, the only way with `B = 0` – when the buffer is empty
and the receiver takes the value directly (`handoff`).  `hist = recvd ++ q` is the order in which the
sends completed: the order in which the consumer sees the batches.
-/
namespace Rare.C15.Multi

structure Follower where
  src : String
  batches : List (Batcher.Batch Bytes)
  ends : Bool

/-- A batch on the channel: the index of the follower that sent it, and the batch. -/
abbrev Item := Nat × Batcher.Batch Bytes

inductive Phase
  | waiting                 -- its name has not been taken from `filenames` yet
  | running (sent : Nat)    -- goroutine started; `sent` batches sent so far
  | done                    -- `wg.Done()` was called
  deriving DecidableEq, Repr

structure MSt where
  ph : List Phase
  q : List Item            -- the channel's buffer
  recvd : List Item        -- what the consumer has received, in order
  closed : Bool            -- `out.close()` was called
  consDone : Bool          -- the consumer saw the closed, drained channel
  deriving Repr

def init (fs : List Follower) : MSt :=
  { ph := fs.map fun _ => .waiting, q := [], recvd := [], closed := false, consDone := false }

/-- the order in which the sends completed -/
def MSt.hist (s : MSt) : List Item := s.recvd ++ s.q

def Phase.isDone : Phase → Bool
  | .done => true
  | _ => false

/-- number of batches follower `i` has sent in phase `p` -/
def sentOf (f : Follower) : Phase → Nat
  | .waiting => 0
  | .running k => k
  | .done => f.batches.length

inductive Label
  | spawn (i : Nat) | send (i : Nat) | handoff (i : Nat) | finish (i : Nat) | close | recv | cdone
  deriving DecidableEq, Repr

/-- The transition system as a deterministic function of the transition's name (`none` = not enabled). -/
def apply (fs : List Follower) (B : Nat) (s : MSt) : Label → Option MSt
  | .spawn i =>
    match s.ph[i]? with
    | some .waiting => some { s with ph := s.ph.set i (.running 0) }
    | _ => none
  | .send i =>
    match s.ph[i]?, fs[i]? with
    | some (.running k), some f =>
      match f.batches[k]? with
      | some b => if s.q.length < B then some { s with ph := s.ph.set i (.running (k + 1)), q := s.q ++ [(i, b)] } else none
      | none => none
    | _, _ => none
  | .handoff i =>
    match s.ph[i]?, fs[i]? with
    | some (.running k), some f =>
      match f.batches[k]? with
      | some b =>
        if s.q = [] ∧ s.consDone = false then
          some { s with ph := s.ph.set i (.running (k + 1)), recvd := s.recvd ++ [(i, b)] }
        else none
      | none => none
    | _, _ => none
  | .finish i =>
    match s.ph[i]?, fs[i]? with
    | some (.running k), some f =>
      if k = f.batches.length ∧ f.ends = true then some { s with ph := s.ph.set i .done } else none
    | _, _ => none
  | .close =>
    if s.ph.all Phase.isDone = true ∧ s.closed = false then some { s with closed := true } else none
  | .recv =>
    match s.q with
    | x :: rest => if s.consDone = false then some { s with q := rest, recvd := s.recvd ++ [x] } else none
    | [] => none
  | .cdone =>
    if s.q = [] ∧ s.closed = true ∧ s.consDone = false then some { s with consDone := true } else none

/-- One atomic step of some goroutine. -/
def Step (fs : List Follower) (B : Nat) (s s' : MSt) : Prop := ∃ l, apply fs B s l = some s'

inductive Reach (fs : List Follower) (B : Nat) : MSt → Prop
  | init : Reach fs B (init fs)
  | step {s s'} (l : Label) : Reach fs B s → apply fs B s l = some s' → Reach fs B s'

/-- A labelled path. -/
inductive LPath (fs : List Follower) (B : Nat) : MSt → List Label → MSt → Prop
  | nil (s) : LPath fs B s [] s
  | cons {s s' s'' l ls} : apply fs B s l = some s' → LPath fs B s' ls s'' → LPath fs B s (l :: ls) s''

def applyAll (fs : List Follower) (B : Nat) : MSt → List Label → Option MSt
  | s, [] => some s
  | s, l :: ls => (apply fs B s l).bind fun s' => applyAll fs B s' ls

/-- The batches of follower `i` among `items`, in order. -/
def ofSource (items : List Item) (i : Nat) : List (Batcher.Batch Bytes) :=
  (items.filter fun x => x.1 == i).map (·.2)

/-- The batches carrying source NAME `n` among `items` (what a consumer can see: `InputBatch.Source`). -/
def ofName (fs : List Follower) (items : List Item) (n : String) : List (Batcher.Batch Bytes) :=
  (items.filter fun x => (fs[x.1]?.map (·.src)) == some n).map (·.2)

/-! ### followers built from the single-file model `Rare.C15.Tail` -/

/-- One followed file: its name, what its follow reader delivers (`data`, cut into `Read`s by `script`),
    the behaviour of ITS flush timer, and whether its stream ends. -/
structure FileRun where
  src : String
  timer : Nat → Bool
  data : Bytes
  script : List C04.Step
  ends : Bool

/-- The follower goroutine of a followed file: if the stream ends, the batches of `tailToChan`; if it does
    not, the batches sent so far by the goroutine blocked in `Read` (`live`).  In both cases read through
    the follower's own heaps in its final state (`batch_contents_stable`: as they read when sent). -/
def FileRun.follower (bufSize batchSize : Nat) (r : FileRun) : Follower :=
  { src := r.src, ends := r.ends,
    batches := if r.ends then (Tail.tailToChan r.src bufSize batchSize r.timer r.data r.script).numbered
               else (Tail.live r.src bufSize batchSize r.timer r.data r.script).numbered }

/-- `followreader.New` failed (plain follow of a missing file): the goroutine counts an error and returns. -/
def failedFollower (src : String) : Follower := { src := src, batches := [], ends := true }

end Rare.C15.Multi
