import Rare.Model.C02
/-!
C02, the expression context as an OBJECT WITH A HISTORY (pkg/extractor/extractor.go `asyncWorker` /
`processLineSync`, pkg/extractor/sliceSpaceExpressionContext.go).

Every worker goroutine owns ONE `SliceSpaceExpressionContext` (`MatchCtx`: the same five fields), created once
with the matcher's name table; `processLineSync` re-points it at every matched line by four assignments and
then builds the key.  All sources go through the same workers and line numbers restart at 1 in every source,
so nothing but the four assignments separates the capture values of one match from those of the next.

`MatchCtx.load` = the four assignments, `MatchCtx.keyVal` = one `{key}` stage (`stageSimpleVariable`: a
decimal key is `GetMatch`, anything else `GetKey`), `histLine` = `processLineSync` (no ignore set) for the
expression `{k1}|{k2}|…`, `histWorker` = the worker's loop over everything it is handed.  `captureOf` is the
SPEC side: what ONE line gives, computed without any context that lived before.

(C16 has the same construction for its JSON views, `Model/C16Ctx.lean`; its `Ctx.getKey` and `getKey` here are
one function – `C16.getKey_models_agree`.)
-/
namespace Rare.C02

deriving instance DecidableEq for KeyAns

/-- what `processLineSync(source, lineNum, line)` has in hand after `FindSubmatchIndex`;
`indices = []` = the matcher did not match -/
structure LineHit where
  source : Bytes
  lineNum : Nat
  indices : List Int
  line : Bytes

/-- `asyncWorker`: `&SliceSpaceExpressionContext{nameTable: matcher.SubexpNameTable()}` -/
def MatchCtx.fresh (nt : List (Bytes × Int)) : MatchCtx := ⟨[], [], nt, [], 0⟩

/-- `expContext.linePtr = lineStringPtr; expContext.indices = matches; expContext.source = source;
expContext.lineNum = lineNum` -/
def MatchCtx.load (c : MatchCtx) (h : LineHit) : MatchCtx :=
  { c with line := h.line, indices := h.indices, source := h.source, lineNum := h.lineNum }

/-- one `{key}` stage (`stageSimpleVariable`): `strconv.Atoi(key)` succeeds → `GetMatch(i)`, else `GetKey(key)` -/
def MatchCtx.keyVal (c : MatchCtx) (k : Bytes) : Except String KeyAns :=
  match atoi k with
  | some i => (getMatch c.line c.indices i).map .val
  | none => getKey c k

def joinAns : KeyAns → KeyAns → KeyAns
  | .val x, .val y => .val (x ++ [0x7c] ++ y)
  | _, _ => .json

/-- `BuildKey` of the expression `{k1}|{k2}|…|{kn}`; `.json` = a view key is among them (property C16) -/
def MatchCtx.buildKeys (c : MatchCtx) : List Bytes → Except String KeyAns
  | [] => .ok (.val [])
  | [k] => c.keyVal k
  | k :: r => do
    let a ← c.keyVal k
    let b ← c.buildKeys r
    pure (joinAns a b)

/-- `if len(extractedKey) > 0 { return Match{…}, true }` -/
def keep : KeyAns → Option KeyAns
  | .val [] => none
  | a => some a

/-- `processLineSync` (without an ignore set): the context afterwards and the `Extracted` of the `Match`
(`none`: unmatched line, or empty key = dropped line) -/
def histLine (keys : List Bytes) (c : MatchCtx) (h : LineHit) : Except String (MatchCtx × Option KeyAns) :=
  if h.indices = [] then .ok (c, none)
  else do
    let k ← (c.load h).buildKeys keys
    pure (c.load h, keep k)

/-- the worker's loop over everything it is handed, starting from context `c` -/
def histFrom (keys : List Bytes) : MatchCtx → List LineHit → Except String (List (Option KeyAns))
  | _, [] => .ok []
  | c, h :: r => do
    let (c', o) ← histLine keys c h
    let os ← histFrom keys c' r
    pure (o :: os)

/-- one worker goroutine of `asyncWorker` over a history of lines -/
def histWorker (keys : List Bytes) (nt : List (Bytes × Int)) (hs : List LineHit) :
    Except String (List (Option KeyAns)) :=
  histFrom keys (MatchCtx.fresh nt) hs

/-! ### the specification side: what ONE line gives, no context with a past anywhere -/

/-- the value of one key for one match: a function of the name table and the match -/
def captureKey (nt : List (Bytes × Int)) (h : LineHit) (key : Bytes) : Except String KeyAns :=
  (MatchCtx.mk h.line h.indices nt h.source h.lineNum).keyVal key

def captureOf (keys : List Bytes) (nt : List (Bytes × Int)) (h : LineHit) : Except String (Option KeyAns) :=
  if h.indices = [] then .ok none
  else do
    let k ← (MatchCtx.mk h.line h.indices nt h.source h.lineNum).buildKeys keys
    pure (keep k)

end Rare.C02
