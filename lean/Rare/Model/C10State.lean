import Rare.Model.C10
/-!
# Stage closures with hidden state (C10, round 4)

The interaction-tree model (`Comp`) has no hidden state.  Inventory of every closure in
`pkg/expressions/{stdlib,funclib,funcfile,stdmath}` that keeps something between calls:

| where | state | written after build? | modelled by |
|---|---|---|---|
| `smartDateParseWrapper` (`""`/`cache`) | `atomicFormat`, `staticFormat` – the date layout of the first value (on input / under static analysis) | **yes, by evaluations** | `timeCache` below (state-passing) |
| `kfArrayMap/Reduce/Filter/For` | global `subContextPool` of `subContext{parent, vals}` | objects overwritten after `Get` | `Pool`, `evalSubPooled` |
| `kfMath` | per-stage `ctxPool` of `keyBuilderContextWrapper{sub, errors}` | overwritten after `Get` | same shape as above (`Pool`) |
| `keyBuilderToFunction` | per-call-site `ctxPool` of `lazySubContext{args, sub}` | `sub` overwritten after `Get`, `args` fixed | `evalArgsPooled` |
| `kfLookupKey/kfHasKey/kfArrayIn` | `lookup` / `matchSet` maps | no (built once) | a value (C11) |
| `kfLoadFile` | `sContent` | no | a value |
| `kfTimeParse` `now` / `delta` | `now`, `start` | no (fixed when the stage is built) | a value; `live`/`delta` touch the context |
| `evalTypedStage`, `kfBucket…` | pre-parsed constants | no | values |

Only the first row is state that an evaluation changes in a way a later evaluation can observe; the pool rows
are state whose *content* must never be observed (stale independence) and whose objects must never be shared
by two evaluations in flight (exclusive ownership, `Model/C10State` part 2).
-/
namespace Rare.C10
open Rare.Expr

/-! ## State-passing stages -/

/-- A computation with hidden state `σ`: told whether it serves a static analysis (`expressions.InStaticAnalysis`,
    which sub-contexts pass on to their parent – `monitorContext` answers true, every other root context false),
    it reads the state, talks to the context, answers and leaves a state. -/
abbrev SComp (σ α : Type) := Bool → σ → Comp (α × σ)

/-- A stage closure with hidden state. -/
abbrev SStage (σ : Type) := SComp σ Bytes

/-- The context `EvalStaticStage` evaluates with, as far as values go: every look-up answers "". -/
def emptyCtx : Ctx := ⟨fun _ => [], fun _ => []⟩

/-- What a stateless stage yields when every look-up is empty (`v, _ := EvalStaticStage(stage)`); `[]` when the
    stage panics there (the builder would have panicked). -/
def emptyOf (s : Stage) : Bytes :=
  match s.probe with
  | .ok (v, _) => v
  | .error _ => []

/-- One evaluation against a real context: the answer and the state left (a panic leaves the state as it was). -/
def SComp.step {σ α : Type} (s : SComp σ α) (st : σ) (ctx : Ctx) : Except String α × σ :=
  match (s false st).run ctx with
  | .ok (v, st') => (.ok v, st')
  | .error m => (.error m, st)

/-- One static-analysis evaluation (`EvalStaticStage(stage)`): `(value, constant?)` and the state left. -/
def SComp.probeStep {σ α : Type} (s : SComp σ α) (st : σ) : Except String (α × Bool) × σ :=
  match (s true st).probe with
  | .ok ((v, st'), c) => (.ok (v, c), st')
  | .error m => (.error m, st)

/-- What happens to a compiled stage during its life: evaluations on real matches, and static-analysis
    evaluations (the optimiser's, but also those of enclosing builders: `evalTypedStage`, `EvalStageInt`, …). -/
inductive Ev where
  | real (ctx : Ctx)
  | probe

def Ev.isReal : Ev → Bool
  | .real _ => true
  | .probe => false

/-- The answers to the REAL evaluations of a history (static-analysis answers are thrown away by whoever asked,
    unless the stage was constant – see `optimizeS`). -/
def runEvents {σ : Type} (s : SStage σ) : σ → List Ev → List (Except String Bytes)
  | _, [] => []
  | st, .real ctx :: evs => (s.step st ctx).1 :: runEvents s (s.step st ctx).2 evs
  | st, .probe :: evs => runEvents s (s.probeStep st).2 evs

/-- Answers over a history of real matches only. -/
def runReal {σ : Type} (s : SStage σ) (st : σ) (h : List Ctx) : List (Except String Bytes) :=
  runEvents s st (h.map .real)

/-- What `optimize` makes of one stage, the probe running in state `st`: a literal when no look-up was made
    (the hidden state is then never consulted again), the stage itself otherwise. -/
def optimizeS {σ : Type} (s : SStage σ) (st : σ) : SStage σ :=
  match (s.probeStep st).1 with
  | .ok (v, true) => fun _ st' => .ret (v, st')
  | _ => s

/-! ## The date-layout cache of `{time}` / `{buckettime}` -/

/-- The two library calls of the `cache` stage, as parameters: `dateparse.ParseFormat` and
    `time.ParseInLocation(layout, s, tz)` followed by the formatting function `f`. -/
structure TimeLib (L : Type) where
  detect : Bytes → Option L
  parse : L → Bytes → Option Bytes

def TimeLib.parseOr {L : Type} (lib : TimeLib L) (l : L) (s : Bytes) : Bytes :=
  match lib.parse l s with
  | some v => v
  | none => ErrorParsing

/-- Which revision of `smartDateParseWrapper`'s `cache` closure. -/
inductive TimeRev where
  | v0     -- upstream: one cell, every detected layout is remembered
  | v1     -- b6010cd: the static-analysis value of the date expression answers <PARSE-ERROR>
  | v2     -- cb6fa4b: that value is parsed by its own layout, which is not remembered
  | v3     -- 3acd3a0 + 6998c9c: as v2, and a static analysis uses a cell of its own (`staticFormat`)
  | cur    -- 1dba502: as v3, and a static analysis touches the context (`context.GetMatch(-1)`) unless the date
           -- expression is constant by itself: a stage that answers from its memory is never folded
  deriving DecidableEq

/-- `atomicFormat` and `staticFormat` (`none` = `""`). -/
structure TimeSt (L : Type) where
  real : Option L
  static : Option L

def TimeSt.fresh {L : Type} : TimeSt L := ⟨none, none⟩

/-- One evaluation of the closure on the date string `s`; `static` = `InStaticAnalysis(context)`: the answer and
    the two cells (the touch of the context is `timeTouches`). -/
def timeStep {L : Type} (rev : TimeRev) (lib : TimeLib L) (emptyTime : Bytes) (static : Bool) (s : Bytes)
    (st : TimeSt L) : Bytes × TimeSt L :=
  if s = [] then (ErrorParsing, st)
  else if rev = .v1 ∧ s = emptyTime then (ErrorParsing, st)
  else
    let useStatic : Bool := (rev = .v3 || rev = .cur) && static
    match (if useStatic then st.static else st.real) with
    | some l => (lib.parseOr l s, st)
    | none =>
      match lib.detect s with
      | none => (ErrorParsing, st)
      | some l =>
        (lib.parseOr l s,
          if (rev = .v2 ∨ rev = .v3 ∨ rev = .cur) ∧ s = emptyTime then st
          else if useStatic then { st with static := some l } else { st with real := some l })

/-- Does that evaluation touch the context (`context.GetMatch(-1)`, the answer is dropped)?  Only the code as it
    is, only under static analysis, only when the date expression is not constant by itself
    (`_, constTime := EvalStaticStage(dateStage)`), and only past the empty check (an empty date answers
    `<PARSE-ERROR>` whatever is remembered). -/
def timeTouches (rev : TimeRev) (constTime static : Bool) (s : Bytes) : Bool :=
  decide (rev = .cur) && static && !constTime && decide (s ≠ [])

/-- `if b { context.GetMatch(-1) }` in front of a computation. -/
def touchIf {α : Type} (b : Bool) (c : Comp α) : Comp α :=
  if b then .getMatch (-1) fun _ => c else c

/-- Whether a stateless stage is constant by itself (`_, ok := EvalStaticStage(stage)`). -/
def constOf (s : Stage) : Bool :=
  match s.probe with
  | .ok (_, c) => c
  | .error _ => false

/-- The `cache` stage over a (stateless) date stage. -/
def timeCacheRev {L : Type} (rev : TimeRev) (lib : TimeLib L) (date : Stage) : SStage (TimeSt L) := fun static st =>
  date.bind fun s =>
    touchIf (timeTouches rev (constOf date) static s) (.ret (timeStep rev lib (emptyOf date) static s st))

/-- The code as it is. -/
def timeCache {L : Type} (lib : TimeLib L) (date : Stage) : SStage (TimeSt L) := timeCacheRev .cur lib date

/-- A `cache` stage with date expression `{0}` (not constant by itself) reached through sub-contexts – evaluated by
    a binder (`@map`, `@filter`, …) on every element of an array, or by a funcs-file function on its argument – the
    values being those of `elems` in the caller's context, one cache for all.  The touch has a negative index, which
    sub-contexts hand to their parent: it is a look-up of the caller's context. -/
def timeOnElems {L : Type} (rev : TimeRev) (lib : TimeLib L) : List Stage → SComp (TimeSt L) (List Bytes)
  | [], _, st => .ret ([], st)
  | e :: rest, static, st =>
    e.bind fun v =>
      let r := timeStep rev lib [] static v st
      touchIf (timeTouches rev false static v)
        ((timeOnElems rev lib rest static r.2).bind fun p => .ret (r.1 :: p.1, p.2))

/-- The answers joined (the enclosing stage). -/
def timeMapStage {L : Type} (rev : TimeRev) (lib : TimeLib L) (elems : List Stage) : SStage (TimeSt L) :=
  fun static st => (timeOnElems rev lib elems static st).bind fun p => .ret (p.1.flatten, p.2)

/-- Two stages evaluated one after the other on the SAME hidden state, the answers joined – two call sites of one
    funcs-file function share the closures of its body (`keyBuilderToFunction` is handed the body compiled once), so
    `{ts "2020-01-01"}|{ts {0}}` is `seqS` of two `timeMapStage`s over one layout cache; `optimize` looks at each
    of the two stages separately. -/
def seqS {σ : Type} (a b : SStage σ) : SStage σ := fun static st =>
  (a static st).bind fun p => (b static p.2).bind fun q => .ret (p.1 ++ q.1, q.2)

/-! ## Pooled context objects -/

/-- A `subContext` object as it lies in `subContextPool`: whatever its last user left in it. -/
structure SubObj where
  parent : Ctx
  v0 : Bytes
  v1 : Bytes

/-- `(*subContext).GetMatch/GetKey` -/
def SubObj.ctx (o : SubObj) : Ctx :=
  { getMatch := fun i => if i < 0 then o.parent.getMatch i else if i = 0 then o.v0 else if i = 1 then o.v1 else [],
    getKey := o.parent.getKey }

/-- `ObjectPool`: the objects lying in it (`newer` makes a zero object when it is empty). -/
abbrev Pool := List SubObj

def zeroObj : SubObj := ⟨emptyCtx, [], []⟩

/-- `Get`: the last object, or a new one. -/
def Pool.get (p : Pool) : SubObj × Pool :=
  match p.reverse with
  | [] => (zeroObj, [])
  | o :: r => (o, r.reverse)

/-- `Return` -/
def Pool.ret (p : Pool) (o : SubObj) : Pool := p ++ [o]

/-- What a binder does with a pooled object for ONE sub-evaluation:
    `sub := pool.Get(); *sub = subContext{parent: context}; sub.Eval(stage, a, b); pool.Return(sub)`;
    `reset = false` is the code WITHOUT the `*sub = …` line (the object keeps its stale parent).
    The stage is run to completion against the object (sub-evaluations are synchronous). -/
def evalSubPooled (reset : Bool) (pool : Pool) (ctx : Ctx) (inner : Stage) (a b : Bytes) : Except String Bytes × Pool :=
  let (o, p) := pool.get
  let o1 : SubObj := if reset then ⟨ctx, [], []⟩ else o
  let o2 : SubObj := { o1 with v0 := a, v1 := b }
  (inner.run o2.ctx, p.ret o2)

/-- A `lazySubContext` object of a funcs-file call site's pool: `args` is fixed by `newer`, `sub` is whatever the
    last call left. -/
structure LazyObj where
  sub : Ctx

/-- `keyBuilderToFunction`'s closure with the pooled object made explicit: `subCtx.sub = kbc` then the body. -/
def evalArgsPooled (stale : LazyObj) (args : List Stage) (body : Stage) (ctx : Ctx) : Except String Bytes × LazyObj :=
  let o : LazyObj := { stale with sub := ctx }
  ((withArgs args body).run o.sub, o)

end Rare.C10
