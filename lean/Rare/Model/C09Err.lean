import Rare.Model.C09
import Rare.Model.C09Utf8
/-!
C09: model of `pkg/expressions/errors.go` – what a user sees of a compile error – and of a *recording*
context (which look-ups a compiled expression performs, with which index / key, in which order).

* `detailedError` – `DetailedError.Error()`: ``At `<context>` (<index>): <message>``.
* `compilerErrorsError` – `CompilerErrors.Error()`: the single error's text when there is exactly one, otherwise
  a header with the whole expression and one indented line per error.
* `errorsIs` – `CompilerErrors.Is(target)` for a sentinel; `unwrapFirst` – `CompilerErrors.Unwrap()`.
* `runLog` – `BuildKey` against a context that records every `GetMatch(i)` / `GetKey(k)` and answers with a text
  derived from the request.
-/
namespace Rare.C09
open Rare Rare.Expr

def msgUnterminated : String := "non-terminated statement in expression"
def msgEmptyStatement : String := "empty statement in expression"
def msgMissingFunction : String := "missing function"

/-- The message of an error's underlying `error` value; `funcMsg` gives the text of a builder's error. -/
def kindMsg (funcMsg : String → String) : ErrKind → String
  | .unterminated => msgUnterminated
  | .emptyStatement => msgEmptyStatement
  | .missingFunction => msgMissingFunction
  | .func tag => funcMsg tag

def strBytes (s : String) : Bytes := s.toUTF8.toList

/-- `fmt.Sprintf("At `%s` (%d): %v", s.Context, s.Index, s.Err)` -/
def detailedError (funcMsg : String → String) (e : CErr) : Bytes :=
  strBytes "At `" ++ encodeRunes e.context ++ strBytes "` (" ++ itoa (e.index : Int) ++ strBytes "): " ++
    strBytes (kindMsg funcMsg e.kind)

/-- `CompilerErrors.Error()`; `expr` is the template string as given to `Compile` (raw bytes). -/
def compilerErrorsError (funcMsg : String → String) (expr : Bytes) (errs : List CErr) : Bytes :=
  match errs with
  | [e] => detailedError funcMsg e
  | _ =>
    strBytes "Compiler Errors in: `" ++ expr ++ strBytes "`\n" ++
      errs.flatMap fun e => strBytes "  " ++ detailedError funcMsg e ++ strBytes "\n"

/-- `errors.Is(compilerErrors, sentinel)` -/
def errorsIs (errs : List CErr) (k : ErrKind) : Bool := errs.any fun e => e.kind == k

/-- `CompilerErrors.Unwrap()`: the first error, nil when there is none. -/
def unwrapFirst (errs : List CErr) : Option CErr := errs.head?

/-- What `Compile` returns as its second result: nil when no error was recorded. -/
def compileError (funcMsg : String → String) (expr : Bytes) (errs : List CErr) : Option Bytes :=
  if errs.isEmpty then none else some (compilerErrorsError funcMsg expr errs)

/-! ### recording context -/

inductive Look where
  | m (i : Int)
  | k (key : Bytes)
  deriving Repr, DecidableEq

/-- The recording context's answers: a function of the request, so that values flowing on are visible too. -/
def lookAnswer : Look → Bytes
  | .m i => strBytes "<" ++ itoa i ++ strBytes ">"
  | .k key => strBytes "[" ++ key ++ strBytes "]"

/-- Run a stage against the recording context: the value and the look-ups in the order they happened. -/
def runLog {α : Type} : Comp α → List Look → Except String (α × List Look)
  | .ret a, log => .ok (a, log)
  | .getMatch i k, log => runLog (k (lookAnswer (.m i))) (log ++ [.m i])
  | .getKey s k, log => runLog (k (lookAnswer (.k s))) (log ++ [.k s])
  | .panic m, _ => .error m

/-- The recording context as a plain context. -/
def recCtx : Ctx := ⟨fun i => lookAnswer (.m i), fun s => lookAnswer (.k s)⟩

end Rare.C09
