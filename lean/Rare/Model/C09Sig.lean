import Rare.Model.C09
import Rare.Model.Expr.Std
import Rare.Spec.C09All
import Rare.Gen.Tables
/-!
C09: arity signatures (`Spec/C09All.lean`) of two registries – what `all_errors_exact_arity` is instantiated with
and what the driver ops `aerr` / `aerrs` evaluate.  Core Lean only.
-/
namespace Rare.C09
open Rare Rare.Expr

/-- The signature of the probe registry of the correspondence (`testRegistry`): `bad` and `nil` fail with
    whatever number of arguments, the probes accept any number. -/
def testSig : Sig := fun name =>
  if name = "bad".toList then some (fun _ => some "argcount")
  else if name = "nil".toList then some (fun _ => some "argcount")
  else if probeNames.contains name then some (fun _ => none) else none

/-- Names of the standard table whose builders fail on the argument count only, with the accepted counts. -/
def arityNames : List (String × (Nat → Bool)) := [
  ("coalesce", fun _ => true), ("and", fun _ => true), ("or", fun _ => true),
  ("eq", fun n => decide (2 ≤ n)), ("neq", fun n => decide (2 ≤ n)), ("switch", fun n => decide (2 ≤ n)),
  ("not", fun n => n == 1), ("unless", fun n => n == 2),
  ("len", fun n => n == 1), ("isint", fun n => n == 1), ("expbucket", fun n => n == 1), ("isnum", fun n => n == 1),
  ("ceil", fun n => n == 1), ("floor", fun n => n == 1), ("sqrt", fun n => n == 1), ("hf", fun n => n == 1),
  ("hi", fun n => n == 1), ("basename", fun n => n == 1), ("dirname", fun n => n == 1), ("extname", fun n => n == 1),
  ("@len", fun n => n == 1),
  ("like", fun n => n == 2), ("prefix", fun n => n == 2), ("suffix", fun n => n == 2), ("select", fun n => n == 2),
  ("@map", fun n => n == 2), ("@filter", fun n => n == 2),
  ("substr", fun n => n == 3), ("@for", fun n => n == 3),
  ("tab", fun _ => true), ("$", fun _ => true), ("@", fun _ => true), ("csv", fun _ => true)]

def arityLookup (name : List Char) : Option (Nat → Bool) :=
  (arityNames.find? (·.1 == String.ofList name)).map (·.2)

/-- The standard registry restricted to `arityNames`. -/
def arityRegistry : Registry := fun name =>
  match arityLookup name with
  | some _ => lookupTable stdTable (String.ofList name)
  | none => none

def aritySig : Sig := fun name =>
  (arityLookup name).map fun ar n => if ar n then none else some "argcount"


/-- For the driver: the arity signature, a standard name outside it marked (`?`) so that the op can decline. -/
def drvAritySig : Sig := fun name =>
  match aritySig name with
  | some ar => some ar
  | none => if Gen.stdFunctionNames.contains (String.ofList name) then some (fun _ => some "?") else none

end Rare.C09
