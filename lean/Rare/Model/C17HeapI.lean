import Rare.Model.C17Heap
/-!
C17: the heap machine of `Model/C17Heap.lean` with OTHER GOROUTINES running in between.

`subContextPool` and its objects are shared by every goroutine that evaluates expressions.  Between any two steps
of this evaluation the others may take objects from the pool, allocate, return THEIR objects in any order, and
write whatever they like into every object this evaluation has not checked out.  Here that is an interference
oracle `env : HeapI → HeapI`, applied at every scheduling point (`pause`): after `Get`, after the overwrite, after
each `Eval`'s stores, after every context look-up, after `Return`.  The heap carries a clock `tick` that this
evaluation advances at each point, so the oracle – a function of the heap it is shown – can do something different
every time.  `mine` is ghost state: the objects this evaluation has checked out (set by its `Get`, cleared by its
`Return`); the code never reads it, `Rely` (Proofs/C17HeapI.lean) uses it to say what the others must not touch.

Everything else is `C17Heap.ev` statement by statement (same `Tm`, same order of `Get` and argument evaluation).
A look-up reads only objects on this evaluation's parent chain, so it is taken as one step.
-/
namespace Rare.C17HeapI
open Rare Rare.Expr Rare.C17Heap

structure HeapI where
  pool : C17Pool.Pool
  objs : Nat → Obj
  /-- ghost: checked out by this evaluation -/
  mine : Nat → Bool
  /-- ghost: advanced at every scheduling point -/
  tick : Nat

def HeapI.set (h : HeapI) (o : Nat) (x : Obj) : HeapI :=
  { h with objs := fun n => if n = o then x else h.objs n }

def HeapI.setVals (h : HeapI) (o : Nat) (a b : Bytes) : HeapI :=
  h.set o { (h.objs o) with v0 := a, v1 := b }

/-- A scheduling point: the clock advances, then the other goroutines do what they do. -/
def pause (env : HeapI → HeapI) (h : HeapI) : HeapI := env { h with tick := h.tick + 1 }

abbrev ResI := Except String (Bytes × HeapI)

/-- Run a pool-free stage against a context value; a scheduling point after every look-up. -/
def runHI {α : Type} (env : HeapI → HeapI) (root : Ctx) (fuel : Nat) (ref : Ref) :
    Comp α → HeapI → Except String (α × HeapI)
  | .ret a, h => .ok (a, h)
  | .getMatch i k, h =>
    match getMatchH root h.objs fuel ref i with
    | .error m => .error m
    | .ok b => runHI env root fuel ref (k b) (pause env h)
  | .getKey s k, h =>
    match getKeyH root h.objs fuel ref s with
    | .error m => .error m
    | .ok b => runHI env root fuel ref (k b) (pause env h)
  | .panic m, _ => .error m

def objLoopI {σ : Type} (env : HeapI → HeapI) (evf : Ref → HeapI → ResI) (o : Nat)
    (args : σ → Bytes → Bytes × Bytes) (upd : σ → Bytes → Bytes → σ) :
    List Bytes → σ → HeapI → Except String (σ × HeapI)
  | [], s, h => .ok (s, h)
  | x :: xs, s, h =>
    match evf (.obj o) (pause env (h.setVals o (args s x).1 (args s x).2)) with
    | .error m => .error m
    | .ok (y, h') => objLoopI env evf o args upd xs (upd s x y) h'

def forLoopHI (env : HeapI → HeapI) (evc evn : Ref → HeapI → ResI) (o : Nat) :
    Nat → Nat → Bytes → List Bytes → HeapI → Except String (Option (List Bytes) × HeapI)
  | 0, _, _, _, _ => .error "hang: for does not terminate"
  | fuel + 1, idx, v, acc, h =>
    match evc (.obj o) (pause env (h.setVals o v (itoa (idx : Nat)))) with
    | .error m => .error m
    | .ok (c, h1) =>
      if !truthy c then .ok (some acc, h1)
      else
        match evn (.obj o) (pause env (h1.setVals o v (itoa (idx : Nat)))) with
        | .error m => .error m
        | .ok (v', h2) =>
          if idx + 1 > Gen.maxIterations then .ok (none, h2)
          else forLoopHI env evc evn o fuel (idx + 1) v' (acc ++ [v]) h2

/-- `Get()` (atomic, under the pool's mutex; the object becomes this evaluation's), a scheduling point, the
    overwrite `*obj = subContext{parent: context}`, a scheduling point. -/
def acquireI (env : HeapI → HeapI) (h : HeapI) (ref : Ref) : Nat × HeapI :=
  let r := h.pool.get
  let h1 : HeapI := { h with pool := r.2, mine := fun n => if n = r.1 then true else h.mine n }
  (r.1, pause env ((pause env h1).set r.1 ⟨ref, [], []⟩))

/-- the deferred `Return(obj)` (atomic), then a scheduling point -/
def releaseI (env : HeapI → HeapI) (h : HeapI) (o : Nat) : HeapI :=
  pause env { h with pool := h.pool.ret o, mine := fun n => if n = o then false else h.mine n }

def evI (env : HeapI → HeapI) (root : Ctx) (fuel : Nat) : Tm → Ref → HeapI → ResI
  | .scalar c, ref, h => runHI env root fuel ref c h
  | .app1 g a, ref, h =>
    match evI env root fuel a ref h with
    | .error m => .error m
    | .ok (x, h1) => .ok (g x, h1)
  | .app2 g a b, ref, h =>
    match evI env root fuel a ref h with
    | .error m => .error m
    | .ok (x, h1) =>
      match evI env root fuel b ref h1 with
      | .error m => .error m
      | .ok (y, h2) => .ok (g x y, h2)
  | .map a f, ref, h =>
    let oh := acquireI env h ref
    match evI env root fuel a ref oh.2 with
    | .error m => .error m
    | .ok (arr, h2) =>
      match objLoopI env (evI env root fuel f) oh.1 (fun (_ : List Bytes) x => (x, [])) (fun s _ y => s ++ [y])
          (C17.elems arr) [] h2 with
      | .error m => .error m
      | .ok (ys, h3) => .ok (C17.pack ys, releaseI env h3 oh.1)
  | .filter a p, ref, h =>
    match evI env root fuel a ref h with
    | .error m => .error m
    | .ok (arr, h1) =>
      let oh := acquireI env h1 ref
      match objLoopI env (evI env root fuel p) oh.1 (fun (_ : List Bytes) x => (x, []))
          (fun s x y => if truthy y then s ++ [x] else s) (C17.elems arr) [] oh.2 with
      | .error m => .error m
      | .ok (ys, h3) => .ok (C17.pack ys, releaseI env h3 oh.1)
  | .reduce init a f, ref, h =>
    let oh := acquireI env h ref
    match evI env root fuel a ref oh.2 with
    | .error m => .error m
    | .ok (arr, h2) =>
      let xs := C17.elems arr
      let start : Bytes × List Bytes := if init = [] then (xs.headD [], xs.tail) else (init, xs)
      match objLoopI env (evI env root fuel f) oh.1 (fun (memo : Bytes) x => (memo, x)) (fun _ _ y => y)
          start.2 start.1 h2 with
      | .error m => .error m
      | .ok (memo, h3) => .ok (memo, releaseI env h3 oh.1)
  | .for_ s c n, ref, h =>
    match evI env root fuel s ref h with
    | .error m => .error m
    | .ok (v, h1) =>
      let oh := acquireI env h1 ref
      match forLoopHI env (evI env root fuel c) (evI env root fuel n) oh.1 (Gen.maxIterations + 2) 0 v [] oh.2 with
      | .error m => .error m
      | .ok (some ys, h3) => .ok (C17.pack ys, releaseI env h3 oh.1)
      | .ok (none, h3) => .ok (Funcs.Range.InfMarker, releaseI env h3 oh.1)

end Rare.C17HeapI
