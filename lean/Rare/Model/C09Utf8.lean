import Rare.Spec.C20
import Rare.Model.Expr.Core
/-!
C09: the byte-level entry points of the template compiler.

Go's `Compile(template string)` starts with `runes := []rune(template)` and
`splitTokenizedArguments(s string)` ranges over `s` with `for _, r := range s`; both decode UTF-8 the
way `utf8.DecodeRuneInString` does: a well-formed sequence (no overlong forms, no surrogates, nothing
above U+10FFFF, not truncated) gives its code point, and **every other byte gives one U+FFFD of its
own** (width 1).  That decoder is `Rare.C20.decodeUtf8` (`Rare/Spec/C20.lean`, shared with C20);
its inverse `Rare.C20.encodeUtf8` is `string([]rune)` / `strings.Builder.WriteRune`.

Here: the decoder's result as `Char`s (the rune type of the shared expression model), the byte-level
`Compile` / `splitTokenizedArguments`, and a *structural*, decidable definition of well-formed UTF-8
(Unicode 15 table 3-7) that does not mention the decoder.
-/
namespace Rare.C09
open Rare Rare.Expr

/-- `[]rune(s)` as code points. -/
abbrev decodeUtf8 (b : Bytes) : List Nat := Rare.C20.decodeUtf8 b

/-- `string([]rune{…})` -/
abbrev encodeUtf8 (rs : List Nat) : Bytes := Rare.C20.encodeUtf8 rs

/-- `[]rune(s)` in the rune type of the expression model.  (`Char.ofNat` is total: it maps a
    non-scalar value to NUL – the decoder never produces one, `decodeUtf8_valid`.) -/
def decodeRunes (b : Bytes) : List Char := (decodeUtf8 b).map Char.ofNat

/-- Length of the well-formed UTF-8 sequence that starts at the head of the byte string; 0 if none
    does.  Unicode table 3-7:

        00..7F
        C2..DF 80..BF
        E0     A0..BF 80..BF        E1..EC 80..BF 80..BF
        ED     80..9F 80..BF        EE..EF 80..BF 80..BF
        F0     90..BF 80..BF 80..BF F1..F3 80..BF 80..BF 80..BF
        F4     80..8F 80..BF 80..BF

    (C0, C1, F5..FF never occur; E0/F0 exclude overlong forms, ED excludes surrogates, F4 excludes
    values above U+10FFFF; a sequence cut short by the end of the string is not one.) -/
def seqLen : Bytes → Nat
  | [] => 0
  | b0 :: rest =>
    let x := b0.toNat
    if x < 0x80 then 1
    else if 0xC2 ≤ x ∧ x ≤ 0xDF then
      match rest with
      | b1 :: _ => if 0x80 ≤ b1.toNat ∧ b1.toNat ≤ 0xBF then 2 else 0
      | [] => 0
    else if 0xE0 ≤ x ∧ x ≤ 0xEF then
      match rest with
      | b1 :: b2 :: _ =>
        if (if x = 0xE0 then 0xA0 else 0x80) ≤ b1.toNat ∧ b1.toNat ≤ (if x = 0xED then 0x9F else 0xBF) ∧
            0x80 ≤ b2.toNat ∧ b2.toNat ≤ 0xBF then 3 else 0
      | _ => 0
    else if 0xF0 ≤ x ∧ x ≤ 0xF4 then
      match rest with
      | b1 :: b2 :: b3 :: _ =>
        if (if x = 0xF0 then 0x90 else 0x80) ≤ b1.toNat ∧ b1.toNat ≤ (if x = 0xF4 then 0x8F else 0xBF) ∧
            0x80 ≤ b2.toNat ∧ b2.toNat ≤ 0xBF ∧ 0x80 ≤ b3.toNat ∧ b3.toNat ≤ 0xBF then 4 else 0
      | _ => 0
    else 0

/-- A concatenation of well-formed sequences (fuel = an upper bound of the number of sequences). -/
def wellFormedF : Nat → Bytes → Bool
  | _, [] => true
  | 0, _ :: _ => false
  | f + 1, b0 :: rest => seqLen (b0 :: rest) != 0 && wellFormedF f (rest.drop (seqLen (b0 :: rest) - 1))

/-- `utf8.Valid`: the byte string is a concatenation of well-formed sequences.  Decidable, and defined
    without reference to the decoder. -/
def wellFormed (b : Bytes) : Bool := wellFormedF b.length b

/-- `KeyBuilder.Compile(template string)` -/
def compileBytes (reg : Registry) (opt : Bool) (template : Bytes) : Except String (List Stage × List CErr) :=
  compile reg opt (decodeRunes template)

/-- `splitTokenizedArguments(s string) []string` -/
def splitArgsBytes (s : Bytes) : List Bytes := (splitArgs (decodeRunes s)).map encodeRunes

end Rare.C09
