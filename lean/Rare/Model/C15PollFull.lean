import Rare.Model.C15Replace
/-!
# C15 — the polling reader under the FULL writer (rename away, atomic replace)

poller.go never sees events: it only `Read`s its descriptor, `Stat`s the path and `Open`s it.  For the path
* a rename of the followed file AWAY is a removal (`PStep.remove`, see `Rare.Model.C15Rename`);
* a file with content `bs` renamed ONTO the path (`FS.replace`, one system call of the writer) leaves the
  file system exactly as `remove; create; append bs` does – and because no reader step observes anything but
  the path and the content of inodes, the reader cannot tell whether those three happened at once.

`PStepO` is the polling system with both operations as single writer steps (the old inode counts as removed,
like in `NStepO`).  `Props`: `poll_full_writer_same_reach` – it reaches exactly the states of `PStep`.
-/
namespace Rare.Follow

variable {β : Type}

inductive PStepO (cfg : PCfg) : Who → PSt β → PSt β → Prop
  | base {w : Who} {s s' : PSt β} : PStep cfg w s s' → PStepO cfg w s s'
  | rename (s : PSt β) (i : Nat) : s.fs.path = some i →
      PStepO cfg Who.writer s { s with fs := s.fs.remove, removes := s.removes + 1 }
  | replace (s : PSt β) (i : Nat) (bs : List β) : s.fs.path = some i →
      PStepO cfg Who.writer s { s with fs := s.fs.replace bs, removes := s.removes + 1 }

inductive PReachO (cfg : PCfg) (s0 : PSt β) : PSt β → Prop
  | refl : PReachO cfg s0 s0
  | step {w s s'} : PReachO cfg s0 s → PStepO cfg w s s' → PReachO cfg s0 s'

end Rare.Follow
