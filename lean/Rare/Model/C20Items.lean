import Rare.Model.C20
/-!
C20: histories with `Close()` calls in the middle (Close twice, WriteForLine after Close) for the
three writers – what `TermWriter`, `VirtualTerm` and `BufferedTerm` do with a list of calls.
-/
namespace Rare.C20

/-- one call: `WriteForLine(line, text)` or `Close()` -/
inductive Item where
  | w (line : Int) (text : Bytes)
  | c
  deriving DecidableEq, Repr

/-- `TermWriter`: `Close()` may be called any number of times, writes may follow -/
def runItems (c : Cfg) : TermWriter → List Item → TermWriter × Bytes
  | s, [] => (s, [])
  | s, .w l t :: rest =>
    let r1 := s.writeForLine c l t
    let r2 := runItems c r1.1 rest
    (r2.1, r1.2 ++ r2.2)
  | s, .c :: rest =>
    let r1 := s.close c
    let r2 := runItems c r1.1 rest
    (r2.1, r1.2 ++ r2.2)

/-- `VirtualTerm`: a write after `Close()` panics -/
def runV : VirtualTerm → List Item → Except String VirtualTerm
  | v, [] => .ok v
  | v, .w l t :: rest =>
    match v.writeForLine l t with
    | .ok v' => runV v' rest
    | .error e => .error e
  | v, .c :: rest => runV v.close rest

/-- `BufferedTerm`: every `Close()` prints all lines (again) and closes the store; a write after it panics -/
def runB (c : Cfg) : VirtualTerm → List Item → Except String (VirtualTerm × Bytes)
  | v, [] => .ok (v, [])
  | v, .w l t :: rest =>
    match v.writeForLine l t with
    | .ok v' => runB c v' rest
    | .error e => .error e
  | v, .c :: rest =>
    match runB c (bufferedClose c v).1 rest with
    | .ok r2 => .ok (r2.1, (bufferedClose c v).2 ++ r2.2)
    | .error e => .error e

/-- a history of writes as a list of calls -/
def writesOf (h : List (Nat × Bytes)) : List Item := h.map fun u => .w (u.1 : Int) u.2

/-! ### the live writer with `Close()` calls in the middle: where the updates land -/

/-- an update of a line, or a `Close()` -/
inductive Upd where
  | w (l : Nat) (t : Bytes)
  | c
  deriving DecidableEq, Repr

def Upd.item : Upd → Item
  | .w l t => .w (l : Int) t
  | .c => .c

/-- the history in PHYSICAL lines: a write to line `l` after `d` Closes lands `d` rows lower, on line `l + d` -/
def physHist : Nat → List Upd → List (Nat × Bytes)
  | _, [] => []
  | d, .w l t :: rest => (l + d, t) :: physHist d rest
  | d, .c :: rest => physHist (d + 1) rest

/-- number of `Close()` calls -/
def closesOf : List Upd → Nat
  | [] => 0
  | .w _ _ :: rest => closesOf rest
  | .c :: rest => closesOf rest + 1

/-- the physical line the terminal's cursor can be on at most: every write raises it to its physical
line, every `Close()` moves it one below the previous maximum -/
def physMax : Nat → Nat → List Upd → Nat
  | m, _, [] => m
  | m, d, .w l _ :: rest => physMax (max m (l + d)) d rest
  | m, d, .c :: rest => physMax (m + 1) (d + 1) rest

/-- every update goes to a (physical) line that is still on the screen when it is made -/
def ReachUpd (H r0 : Nat) : Nat → Nat → List Upd → Prop
  | _, _, [] => True
  | m, d, .w l _ :: rest => r0 + max m (l + d) - (H - 1) ≤ r0 + (l + d) ∧ ReachUpd H r0 (max m (l + d)) d rest
  | m, d, .c :: rest => ReachUpd H r0 (m + 1) (d + 1) rest

/-- a list of calls with non-negative lines as an update sequence -/
def updsOf : List Item → Option (List Upd)
  | [] => some []
  | .w l t :: rest => if l < 0 then none else (updsOf rest).map (.w l.toNat t :: ·)
  | .c :: rest => (updsOf rest).map (.c :: ·)

/-- `ReachUpd`, decided -/
def reachUpdB (H r0 : Nat) : Nat → Nat → List Upd → Bool
  | _, _, [] => true
  | m, d, .w l _ :: rest => decide (r0 + max m (l + d) - (H - 1) ≤ r0 + (l + d)) && reachUpdB H r0 (max m (l + d)) d rest
  | m, d, .c :: rest => reachUpdB H r0 (m + 1) (d + 1) rest

end Rare.C20
