import Rare.Model.C20
/-!
C20: histories with `Close()` calls in the middle (Close twice, WriteForLine after Close) for the
three writers – what `TermWriter`, `VirtualTerm` and `BufferedTerm` do with a list of calls.
-/
namespace Rare.C20

/-- one call: `WriteForLine(line, text)` or `Close()` -/
inductive Item where
  | w (line : Int) (text : Bytes)
  | c
  deriving DecidableEq, Repr

/-- `TermWriter`: `Close()` may be called any number of times, writes may follow -/
def runItems (c : Cfg) : TermWriter → List Item → TermWriter × Bytes
  | s, [] => (s, [])
  | s, .w l t :: rest =>
    let r1 := s.writeForLine c l t
    let r2 := runItems c r1.1 rest
    (r2.1, r1.2 ++ r2.2)
  | s, .c :: rest =>
    let r1 := s.close c
    let r2 := runItems c r1.1 rest
    (r2.1, r1.2 ++ r2.2)

/-- `VirtualTerm`: a write after `Close()` panics -/
def runV : VirtualTerm → List Item → Except String VirtualTerm
  | v, [] => .ok v
  | v, .w l t :: rest =>
    match v.writeForLine l t with
    | .ok v' => runV v' rest
    | .error e => .error e
  | v, .c :: rest => runV v.close rest

/-- `BufferedTerm`: every `Close()` prints all lines (again) and closes the store; a write after it panics -/
def runB (c : Cfg) : VirtualTerm → List Item → Except String (VirtualTerm × Bytes)
  | v, [] => .ok (v, [])
  | v, .w l t :: rest =>
    match v.writeForLine l t with
    | .ok v' => runB c v' rest
    | .error e => .error e
  | v, .c :: rest =>
    match runB c (bufferedClose c v).1 rest with
    | .ok r2 => .ok (r2.1, (bufferedClose c v).2 ++ r2.2)
    | .error e => .error e

/-- a history of writes as a list of calls -/
def writesOf (h : List (Nat × Bytes)) : List Item := h.map fun u => .w (u.1 : Int) u.2

end Rare.C20
