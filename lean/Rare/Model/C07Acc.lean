import Rare.Model.C07
import Rare.Model.Expr.Comp
/-!
Executable model of `pkg/aggregation/accumulator.go` (`AccumulatingGroup`, the aggregator behind
`rare reduce`), as of the `fix:` commits 392a859 (part look-up stops at the end of the element),
b9dd8f5 (unknown name in a sort expression reads as empty) and f1f38db (equal sort keys are ordered
by group key).

A compiled expression (`*expressions.CompiledKeyBuilder`) is a `Rare.Expr.Stage`, i.e. a tree of
context look-ups (`Comp Bytes`): `BuildKey(ctx)` is `Stage.run ctx`, `.error` = the Go code panics.
What `Compile` answered is an argument of the `Add…`/`SetSort` operations (`none` = compile errors),
so the theorems hold for every expression language; the driver supplies the shared expression model.

The map `data` is an association list (`aget`/`aset` of `Model/C07`).  A row is a Go slice that is
mutated in place while its columns are evaluated; `sampleCols` threads the row through the column
loop, which is the same thing because the closure `keyLookup` reads the live slice.
-/
namespace Rare.C07
open Rare.Expr (Comp Stage Ctx)

/-! ### exprAccumulatorContext -/

/-- The loop `for i := 0; i < n; i++ { if splitter.Done() { return "" }; ret = splitter.Next() }; return ret`
(`ret` starts as ""). -/
def Splitter.nthNext : Nat → Splitter → Bytes → Bytes
  | 0, _, ret => ret
  | n + 1, s, _ => if s.done then [] else Splitter.nthNext n s.next'.2 s.next'.1

/-- `exprAccumulatorContext.GetMatch(idx)`: 0 = the whole element, n ≥ 1 = the n-th NUL-separated part. -/
def accGetMatch (m : Bytes) (idx : Int) : Bytes :=
  if idx = 0 then m
  else Splitter.nthNext idx.toNat { S := m, delim := nul } []

/-- The key `.` -/
def dot : Bytes := [46]

/-- `exprAccumulatorContext.GetKey(key)` (`keyLookup = none` is Go's nil func). -/
def accGetKey (current : Bytes) (keyLookup : Option (Bytes → Bytes)) (key : Bytes) : Bytes :=
  if key = dot then current
  else match keyLookup with
    | some f => f key
    | none => []

def accCtx (m current : Bytes) (keyLookup : Option (Bytes → Bytes)) : Ctx :=
  { getMatch := accGetMatch m, getKey := accGetKey current keyLookup }

/-! ### AccumulatingGroup -/

structure AccDataDef where
  name : Bytes
  expr : Stage
  initial : Bytes

structure AccGroupDef where
  name : Bytes
  expr : Stage

structure AccGroup where
  data : List (Bytes × List Bytes) := []
  groupDef : List AccGroupDef := []
  colDef : List AccDataDef := []
  colIdx : List (Bytes × Nat) := []       -- colIdxLookup
  sortExpr : Option Stage := none

/-- `AddGroupExpr(name, expr)`; `compiled` is what `Compile(expr)` answered (`none` = errors).
The second component is the returned error. -/
def AccGroup.addGroupExpr (s : AccGroup) (name : Bytes) (compiled : Option Stage) : AccGroup × Option String :=
  if s.data.length > 0 then (s, some "existing-data")
  else if s.groupDef.any (fun g => g.name == name) then (s, some "duplicate")
  else match compiled with
    | none => (s, some "compile")
    | some kb => ({ s with groupDef := s.groupDef ++ [⟨name, kb⟩] }, none)

/-- `AddDataExpr(name, expr, initial)`. -/
def AccGroup.addDataExpr (s : AccGroup) (name : Bytes) (compiled : Option Stage) (initial : Bytes) :
    AccGroup × Option String :=
  if s.data.length > 0 then (s, some "existing-data")
  else if (aget s.colIdx name).isSome then (s, some "duplicate")
  else match compiled with
    | none => (s, some "compile")
    | some kb =>
      ({ s with colDef := s.colDef ++ [⟨name, kb, initial⟩],
                colIdx := aset s.colIdx name s.colDef.length }, none)

/-- `SetSort(expr)` (allowed at any time). -/
def AccGroup.setSort (s : AccGroup) (compiled : Option Stage) : AccGroup × Option String :=
  match compiled with
  | none => (s, some "compile")
  | some kb => ({ s with sortExpr := some kb }, none)

/-- The `strings.Builder` loop of `buildGroupKey` (`i` = loop index, `sb` = builder content). -/
def joinGroupKey (ctx : Ctx) : List AccGroupDef → Nat → Bytes → Except String Bytes
  | [], _, sb => .ok sb
  | g :: rest, i, sb =>
    let sb := if i > 0 then sb ++ nul else sb
    match g.expr.run ctx with
    | .error m => .error m
    | .ok v => joinGroupKey ctx rest (i + 1) (sb ++ v)

/-- `buildGroupKey`: no group expression, exactly one, several. -/
def AccGroup.buildGroupKey (s : AccGroup) (ctx : Ctx) : Except String Bytes :=
  match s.groupDef with
  | [] => .ok []
  | [g] => g.expr.run ctx
  | gs => joinGroupKey ctx gs 0 []

/-- The closure `ctx.keyLookup` of `Sample`, reading the live row.  (`rowData[idx]` cannot be out of
range: `accgroup_invariant` shows every index in `colIdx` is below every row's length.) -/
def accKeyLookup (colIdx : List (Bytes × Nat)) (row : List Bytes) (key : Bytes) : Bytes :=
  match aget colIdx key with
  | some idx => row.getD idx []
  | none => []

/-- The loop `for idx, dataExpr := range s.colDef { ctx.current = rowData[idx]; rowData[idx] = BuildKey(ctx) }`. -/
def sampleCols (colIdx : List (Bytes × Nat)) (element : Bytes) :
    List AccDataDef → Nat → List Bytes → Except String (List Bytes)
  | [], _, row => .ok row
  | d :: rest, idx, row =>
    match row[idx]? with
    | none => .error "index out of range"
    | some cur =>
      match d.expr.run (accCtx element cur (some (accKeyLookup colIdx row))) with
      | .error m => .error m
      | .ok v => sampleCols colIdx element rest (idx + 1) (row.set idx v)

/-- `rowData, hasRow := s.data[groupKey]`; a new row is initialised from the `initial` values. -/
def AccGroup.rowOrInit (s : AccGroup) (groupKey : Bytes) : List Bytes :=
  match aget s.data groupKey with
  | some row => row
  | none => s.colDef.map (·.initial)

/-- `Sample(element)`. -/
def AccGroup.sample (s : AccGroup) (element : Bytes) : Except String AccGroup :=
  match s.buildGroupKey (accCtx element [] none) with
  | .error m => .error m
  | .ok groupKey =>
    match sampleCols s.colIdx element s.colDef 0 (s.rowOrInit groupKey) with
    | .error m => .error m
    | .ok row => .ok { s with data := aset s.data groupKey row }

def AccGroup.run (s : AccGroup) (h : List Bytes) : Except String AccGroup := h.foldlM AccGroup.sample s

/-- `ParseErrors()`. -/
def AccGroup.parseErrors (_ : AccGroup) : Nat := 0

/-! ### accessors -/

/-- `GroupKey.Parts()` (`strings.Split` = `splitOn`). -/
def groupKeyParts (k : Bytes) : List Bytes := if k = [] then [] else splitOn nul k

/-- What the consumers of a group key show of it (`cmd/reduce.go` table rows, `pkg/csv/aggWriters.go`
`WriteAccumulator`): one cell per group column, cell `i` = part `i`, surplus parts dropped, cells without
a part empty. -/
def groupCells (n : Nat) (k : Bytes) : List Bytes :=
  (List.range n).map fun i => (groupKeyParts k).getD i []

def AccGroup.groupCols (s : AccGroup) : List Bytes := s.groupDef.map (·.name)
def AccGroup.dataCols (s : AccGroup) : List Bytes := s.colDef.map (·.name)
def AccGroup.groupColCount (s : AccGroup) : Nat := s.groupDef.length
def AccGroup.colCount (s : AccGroup) : Nat := s.groupDef.length + s.colDef.length
def AccGroup.dataCount (s : AccGroup) : Nat := s.data.length

/-- `DataNoCopy(k)`: the row, nil for an unknown group. -/
def AccGroup.dataNoCopy (s : AccGroup) (k : Bytes) : List Bytes := (aget s.data k).getD []

/-- `Data(k)`: `copy` into a fresh slice of `len(colDef)` strings. -/
def AccGroup.dataOf (s : AccGroup) (k : Bytes) : List Bytes :=
  (List.range s.colDef.length).map fun i => (s.dataNoCopy k).getD i []

/-- `accumulatorGroupSortContext.GetMatch(idx)`: the part with 0-based index `idx` of the group key. -/
def sortGetMatch (groupKey : Bytes) (idx : Int) : Bytes :=
  if idx < 0 then [] else Splitter.nthNext (idx.toNat + 1) { S := groupKey, delim := nul } []

/-- `accumulatorGroupSortContext.GetKey(key)`: `.` is the group key, a column name its value in the
group's row, anything else "". -/
def AccGroup.sortGetKey (s : AccGroup) (groupKey : Bytes) (key : Bytes) : Bytes :=
  if key = dot then groupKey else accKeyLookup s.colIdx (s.dataNoCopy groupKey) key

def AccGroup.sortKey (s : AccGroup) (e : Stage) (groupKey : Bytes) : Except String Bytes :=
  e.run { getMatch := sortGetMatch groupKey, getKey := s.sortGetKey groupKey }

/-- The comparison `Groups` hands to `sorting.Sort` when a sort expression is set (on (group, sort key) pairs). -/
def sortLess (less : Bytes → Bytes → Bool) (a b : Bytes × Bytes) : Bool :=
  if a.2 = b.2 then bLt a.1 b.1 else less a.2 b.2

/-- `Groups(sort)`: `order` is the order in which `range s.data` yields the keys; `sort.Sort` is
modelled by its contract (a merge sort with the same comparison).  The comparison – hence the sort
expression – is only ever called when there are at least two groups. -/
def AccGroup.groupsWith (s : AccGroup) (less : Bytes → Bytes → Bool) (order : List Bytes) :
    Except String (List Bytes) :=
  match s.sortExpr with
  | none => .ok (order.mergeSort fun a b => !less b a)
  | some e =>
    if order.length ≤ 1 then .ok order
    else
      match order.mapM (fun g => (s.sortKey e g).map fun k => (g, k)) with
      | .error m => .error m
      | .ok keyed => .ok ((keyed.mergeSort fun a b => !sortLess less b a).map (·.1))

def AccGroup.groups (s : AccGroup) (less : Bytes → Bytes → Bool) : Except String (List Bytes) :=
  s.groupsWith less (akeys s.data)

/-- `csv.WriteAccumulator` (pkg/csv/aggWriters.go): the header, then one record per group in `ByName` order:
`GroupColCount()` key cells (`groupCells`) followed by the row (`copy(row[GroupColCount():], DataNoCopy(group))`). -/
def AccGroup.csvRows (s : AccGroup) : Except String (List (List Bytes)) :=
  (s.groups bLt).map fun gs =>
    (s.groupCols ++ s.dataCols) :: gs.map fun k => groupCells s.groupColCount k ++ s.dataNoCopy k

/-! ### call sequences -/

/-- One call on the aggregator. -/
inductive AccOp
  | addGroup (name : Bytes) (compiled : Option Stage)
  | addData (name : Bytes) (compiled : Option Stage) (initial : Bytes)
  | setSort (compiled : Option Stage)
  | sample (element : Bytes)

/-- Perform one call: the new state and the `error` the call returned (`Sample` returns nothing);
`.error` = the call panicked. -/
def AccGroup.apply (s : AccGroup) : AccOp → Except String (AccGroup × Option String)
  | .addGroup n c => .ok (s.addGroupExpr n c)
  | .addData n c i => .ok (s.addDataExpr n c i)
  | .setSort c => .ok (s.setSort c)
  | .sample e => (s.sample e).map fun s' => (s', none)

end Rare.C07
