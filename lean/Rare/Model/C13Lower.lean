import Rare.Model.C13Num
import Rare.Spec.C20
/-!
C13, `strings.ToLower` as the sorters use it.

`ByContextualEx`, `inferSortSetByValue`, `parseSort` and `lookupSorter` call `strings.ToLower(x)` and
then only ever *compare the result with ASCII constants* (keys of the weekday/month maps, the
`switch` labels, `"value"`).

* `goToLower tl` mirrors `strings.ToLower` (Go 1.23 `strings/strings.go`): the ASCII scan
  (`isASCII`, `hasUpper`), the byte-wise ASCII branch, and `strings.Map(unicode.ToLower, s)` for
  everything else – `for _, c := range s` is Go's UTF-8 decoding (`Rare.C20.decodeUtf8`: every byte
  that starts no well-formed sequence is one U+FFFD), `WriteRune` is `Rare.C20.encodeRune`.
  The rune map `unicode.ToLower` is the parameter `tl`; all that is assumed of it is `RuneLower`
  (its ASCII behaviour and *which non-ASCII runes it sends into ASCII*: exactly U+0130 `İ` ↦ `i`
  and U+212A KELVIN SIGN ↦ `k`).  The harness checks `RuneLower` against the real `unicode.ToLower`
  for all 1 114 112 code points on every run (op `lowtab`), and the extractor regenerates the list
  (`Gen.C13.lowerIntoAscii`).
* `foldLower` is the executable consequence for look-ups: `some l` when `ToLower(k)` is the ASCII
  string `l`, `none` when `ToLower(k)` contains a non-ASCII byte (and therefore equals no table key).
  `lowerK` packages it as a function `Key → Key` that is *look-up equivalent* to `strings.ToLower`
  (theorem `lower_lookup`); the driver computes with it.

So `frİday`, `FRİDAY`, `aprİl`, `numerİc` ARE weekday / month / sort names to rare, `weeK` would be
one if any table had a `k`, and every other non-ASCII key is a stranger.
-/
namespace Rare.C13
open Rare.C20 (decodeUtf8 encodeRune)

/-- `c += 'a' - 'A'` for `'A' <= c && c <= 'Z'` -/
def lowerB (c : UInt8) : UInt8 := if 65 ≤ c ∧ c ≤ 90 then c + 32 else c

/-- `strings.Map(mapping, s)` for a mapping that never returns a negative rune: the runes of `s`
(invalid bytes read as U+FFFD, one per byte) are mapped and written back.  (Go copies an unchanged
prefix instead of re-encoding it; re-encoding a well-formed sequence gives the same bytes, and a
byte that is not part of one is "changed" – it comes back as `EF BF BD`.) -/
def goMap (mapping : Nat → Nat) (s : Bytes) : Bytes :=
  (decodeUtf8 s).flatMap (fun r => encodeRune (mapping r))

/-- `strings.ToLower(s)` with `unicode.ToLower = tl`. -/
def goToLower (tl : Nat → Nat) (s : Bytes) : Bytes :=
  let isASCII := s.all (fun c => c < 128)
  let hasUpper := s.any (fun c => 65 ≤ c ∧ c ≤ 90)
  if isASCII then
    if !hasUpper then s else s.map lowerB
  else goMap tl s

/-- What the sorters need to know about `unicode.ToLower`. -/
structure RuneLower (tl : Nat → Nat) : Prop where
  ascii : ∀ r, r < 128 → tl r = if 65 ≤ r ∧ r ≤ 90 then r + 32 else r
  dotI : tl 0x130 = 0x69
  kelvin : tl 0x212A = 0x6B
  other : ∀ r, 128 ≤ r → r ≠ 0x130 → r ≠ 0x212A → 128 ≤ tl r

/-- The ASCII string `ToLower(k)` if it is one: ASCII bytes lower-cased, `C4 B0` (U+0130) as `i`,
`E2 84 AA` (U+212A) as `k`; `none` as soon as any other non-ASCII byte occurs. -/
def foldLower : Bytes → Option Bytes
  | [] => some []
  | c :: r =>
    if c < 128 then (foldLower r).map (lowerB c :: ·)
    else if c = 0xC4 then
      match r with
      | d :: r' => if d = 0xB0 then (foldLower r').map (105 :: ·) else none
      | [] => none
    else if c = 0xE2 then
      match r with
      | d :: e :: r' => if d = 0x84 ∧ e = 0xAA then (foldLower r').map (107 :: ·) else none
      | _ => none
    else none

/-- Look-up equivalent of `strings.ToLower`: for every ASCII constant `c`,
`strings.ToLower(k) == c ↔ lowerK k = c`. -/
def lowerK (k : Key) : Key := (foldLower k).getD k

/-- The smallest rune map meeting `RuneLower` (identity on every other non-ASCII rune); it shows the
contract is satisfiable and lets the driver run `goToLower` on keys whose only non-ASCII runes are
caseless. -/
def tlMin (r : Nat) : Nat :=
  if r < 128 then (if 65 ≤ r ∧ r ≤ 90 then r + 32 else r)
  else if r = 0x130 then 0x69 else if r = 0x212A then 0x6B else r

/-! ### the oracles that remain, and the two instantiations of `Oracle` -/

/-- `dateparse.ParseFormat` / `time.Parse`: still library oracles. -/
structure DateLib where
  /-- `dateparse.ParseFormat`: `none` = error (format `""`), `some id` = a layout -/
  dfmt : Key → Option Nat
  /-- `time.Parse(layout, ·)`: `none` = error, `some t` = the instant in ns -/
  dparse : Nat → Key → Option Int

/-- The sorters with the modelled `ParseFloat` and `ToLower` (`tl` = `unicode.ToLower`). -/
def goOracle (tl : Nat → Nat) (d : DateLib) : Oracle :=
  { lower := goToLower tl, num := realNum, dfmt := d.dfmt, dparse := d.dparse }

/-- The same with the look-up equivalent `lowerK` (what the driver runs). -/
def realOracle (d : DateLib) : Oracle :=
  { lower := lowerK, num := realNum, dfmt := d.dfmt, dparse := d.dparse }

def noDates : DateLib := { dfmt := fun _ => none, dparse := fun _ _ => none }

end Rare.C13
