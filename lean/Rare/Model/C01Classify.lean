import Rare.Model.C01
import Rare.Model.C02
import Rare.Model.C09Utf8
import Rare.Model.C16
/-!
# C01: classification of one line by `processLineSync`, over the match CONTEXT

`pkg/extractor/extractor.go: processLineSync(source, lineNum, line)`:

    matches := s.matcher.FindSubmatchIndex(line)
    if len(matches) > 0 {
        expContext := s.context                       -- one context object per worker, re-used
        expContext.linePtr, .indices, .source, .lineNum = line, matches, source, lineNum
        if s.ignore == nil || !s.ignore.IgnoreMatch(expContext) {
            extractedKey := s.keyBuilder.BuildKey(expContext)
            if len(extractedKey) > 0 { matched } else { ignored }
        } else { ignored }
    }                                                 -- else: unmatched

The ignore expressions and the extract expression are compiled templates (`Expr.Stage` = `Comp Bytes`, the
shared expression model); the context they are evaluated against is the `SliceSpaceExpressionContext` of
`Rare.C02` (`GetMatch` with Go's bounds check, `GetKey`: `src`, `line`, `@`, the matcher's named groups,
`<NAME>` otherwise).  So the class and the key of a line are a function of the line's OWN source name,
1-based line number, bytes and matcher result – `processLine` below – and of nothing else: that is what
the real code has to implement whatever batch the line travelled in and whichever worker handled it
(a worker re-uses its context object, so every field has to be overwritten before the first look-up).
-/
namespace Rare.C01
open Rare.Pipeline Rare.Expr

/-- Run a stage against a context whose look-ups may panic (`GetMatch` slices the line). -/
def runE {α : Type} (gm : Int → Except String Bytes) (gk : Bytes → Except String Bytes) : Comp α → Except String α
  | .ret a => .ok a
  | .getMatch i k =>
    match gm i with
    | .ok b => runE gm gk (k b)
    | .error m => .error m
  | .getKey s k =>
    match gk s with
    | .ok b => runE gm gk (k b)
    | .error m => .error m
  | .panic m => .error m

/-- `GetKey` of the extractor's context as a byte string; the three JSON views (`{.}`, `{#}`, `{.#}` / `{#.}`) are
    the ones of property C16 (`C16.getKeyJson`: `json(named, numbered)` over the name table – names sorted – and
    the numbered groups, values written by `WriteInferred`), evaluated on THIS line's indices and bytes. -/
def ctxGetKey (c : C02.MatchCtx) (key : Bytes) : Except String Bytes :=
  match C02.getKey c key with
  | .ok (.val b) => .ok b
  | .ok .json =>
    match C16.getKeyJson key c.names c.indices c.line with
    | some r => r
    | none => .error "unmodelled:json"
  | .error m => .error m

/-- `stage(expContext)` / `BuildKey(expContext)` -/
def evalStage (c : C02.MatchCtx) (st : Stage) : Except String Bytes :=
  runE (C02.getMatch c.line c.indices) (ctxGetKey c) st

/-- What `extractor.Config` fixes, as far as classification goes. -/
structure Extractor where
  /-- `Matcher.FindSubmatchIndex` (the regex/dissect engine is a parameter) -/
  matcher : Bytes → List Int
  /-- `Matcher.SubexpNameTable()` -/
  names : List (Bytes × Int)
  /-- `Config.Ignore`: `none` = nil interface, `some es` = `ExpressionIgnoreSet{expressions: es}` -/
  ignore : Option (List Stage)
  /-- `keyBuilder` (the compiled `Config.Extract`; `BuildKey` concatenates its stages) -/
  extract : Stage
  /-- the name of source number `i` as the batcher reports it (`InputBatch.Source`) -/
  sourceName : Nat → Bytes

/-- the loop of `ExpressionIgnoreSet.IgnoreMatch`: the first truthy result decides, later expressions
    are not evaluated -/
def ignoreLoop (c : C02.MatchCtx) : List Stage → Except String Bool
  | [] => .ok false
  | e :: rest =>
    match evalStage c e with
    | .error m => .error m
    | .ok r => if Expr.truthy r then .ok true else ignoreLoop c rest

/-- `s.ignore != nil && s.ignore.IgnoreMatch(expContext)` -/
def ignoreMatch (c : C02.MatchCtx) : Option (List Stage) → Except String Bool
  | none => .ok false
  | some es => if es.length = 0 then .ok false else ignoreLoop c es

inductive Outcome
  | unmatched
  | ignored
  | matched (key : Bytes)
  deriving Repr, DecidableEq

/-- The context `processLineSync` must have set up when it evaluates the expressions of line `l`. -/
def ctxOf (e : Extractor) (l : Line) : C02.MatchCtx :=
  { line := l.text, indices := e.matcher l.text, names := e.names, source := e.sourceName l.src, lineNum := l.num }

/-- `processLineSync`; `.error` = the Go code panics (or a look-up is outside the model). -/
def processLine (e : Extractor) (l : Line) : Except String Outcome :=
  if (e.matcher l.text).length > 0 then
    match ignoreMatch (ctxOf e l) e.ignore with
    | .error m => .error m
    | .ok true => .ok .ignored
    | .ok false =>
      match evalStage (ctxOf e l) e.extract with
      | .error m => .error m
      | .ok key => if key.length > 0 then .ok (.matched key) else .ok .ignored
  else .ok .unmatched

def Outcome.cls : Outcome → Cls
  | .unmatched => .unmatched
  | .ignored => .ignored
  | .matched _ => .matched

/-- The class of a line (a line whose evaluation panics has no class: the theorems carry the hypothesis
    `NoPanic`, the driver answers `panic`; the value chosen here is never used). -/
def clsOf (e : Extractor) (l : Line) : Cls :=
  match processLine e l with
  | .ok o => o.cls
  | .error _ => .unmatched

/-- `Match.Extracted` of a matched line. -/
def keyOf (e : Extractor) (l : Line) : Bytes :=
  match processLine e l with
  | .ok (.matched k) => k
  | _ => []

/-- the outcome of the line exists and has class `c` -/
def outcomeIs (e : Extractor) (c : Cls) (l : Line) : Bool :=
  match processLine e l with
  | .ok o => o.cls == c
  | .error _ => false

/-- No expression evaluation panics on these lines (C08 proves it for every line and every template over
    the modelled function registry; slices of a real matcher's indices are in range). -/
def NoPanic (e : Extractor) (ls : List Line) : Prop := ∀ l ∈ ls, ∃ o, processLine e l = .ok o

/-- first evaluation that panics, if any (driver) -/
def firstPanic (e : Extractor) (ls : List Line) : Option String :=
  ls.findSome? fun l => match processLine e l with | .error m => some m | .ok _ => none

/-! ### Compiling the configuration (`extractor.NewIgnoreExpressions`, `extractor.New`) -/

/-- `funclib.NewKeyBuilder().Compile(template)`: `.ok none` = compile errors (the constructor fails). -/
def compileTemplate (reg : Registry) (template : Bytes) : Except String (Option Stage) :=
  match C09.compileBytes reg true template with
  | .error m => .error m
  | .ok (stages, errs) =>
    match errs.findSome? fun e => match e.kind with
        | .func t => if t.startsWith "unmodelled:" then some t else none
        | _ => none with
    | some t => .error t
    | none => if errs.isEmpty then .ok (some (buildKey stages)) else .ok none

def compileAll (reg : Registry) : List Bytes → Except String (Option (List Stage))
  | [] => .ok (some [])
  | t :: rest =>
    match compileTemplate reg t with
    | .error m => .error m
    | .ok none => .ok none
    | .ok (some s) =>
      match compileAll reg rest with
      | .error m => .error m
      | .ok none => .ok none
      | .ok (some ss) => .ok (some (s :: ss))

/-! ### The matchers of the correspondence harness (stand-ins for a regex engine) -/

/-- index of the first `:` -/
def colonIdx : Bytes → Nat → Option Nat
  | [], _ => none
  | b :: r, i => if b = 58 then some i else colonIdx r (i + 1)

/-- `harnessMatcher.FindSubmatchIndex`: no match for a line containing `x`; group 1 = the text after the
    first `:` (absent: −1 −1). -/
def harnessIndices (l : Bytes) : List Int :=
  if l.contains 120 then []
  else match colonIdx l 0 with
    | some i => [0, l.length, (i : Int) + 1, l.length]
    | none => [0, l.length, -1, -1]

/-- `harnessMatcherN`: additionally group 2 = the text before the first `:`; name table
    `{"val": 1, "key": 2, "all": 0}`. -/
def harnessIndicesN (l : Bytes) : List Int :=
  if l.contains 120 then []
  else match colonIdx l 0 with
    | some i => [0, l.length, (i : Int) + 1, l.length, 0, i]
    | none => [0, l.length, -1, -1, -1, -1]

def harnessNamesN : List (Bytes × Int) := [(ascii "val", 1), (ascii "key", 2), (ascii "all", 0)]

/-- A small configuration for the non-vacuity examples: ignore `{eq {line} 1}` (hand-compiled: a look-up of
    `line` compared with `1`), extract `{src}:{0}`, two sources `a.log`, `b.log`. -/
def exampleExtractor : Extractor where
  matcher := harnessIndices
  names := []
  ignore := some [Comp.getKey (ascii "line") fun v => .ret (if v = ascii "1" then ascii "1" else [])]
  extract := Comp.getKey (ascii "src") fun s => .getMatch 0 fun m => .ret (s ++ [58] ++ m)
  sourceName := fun i => if i = 0 then ascii "a.log" else ascii "b.log"

end Rare.C01
