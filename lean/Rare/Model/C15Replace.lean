import Rare.Model.C15Rename
/-!
# C15 — a file renamed ONTO the followed path (atomic replace: write `f.tmp`, `rename(f.tmp, f)`)

One operation unlinks the inode that was at the path and puts a new inode – already holding content – there.
The directory watch reports `IN_MOVED_TO` for the followed name, i.e. an fsnotify `Create`; there is NO
`Remove` event.  For the path the old file is gone (`removes` counts it, like a rename away).

Since the `fix:` commit f4a9570 of this package the watcher goroutine raises, for a `Create` of the followed
name, the write signal and – when `ReOpen` is set – the delete signal too (`dispatch1`), and the handler of
the delete signal (`reopenIfReplaced`) compares the open file with the one at the path: the new file is
opened and read from its beginning.  Before the fix `Create` raised only the write signal, whose handler
re-opens only when no file is open, so the reader kept the unlinked file for ever.

Plain follow (-f) is unchanged: nothing tells the reader that its file was unlinked, it keeps the old
descriptor and the stream does not end (recorded behaviour, like `tail -f`: it follows the descriptor).

`NStepO` is the notify system under the full writer: append, remove, create, other events (`NStep`), rename
away (`NStepR`) and replace.
-/
namespace Rare.Follow

variable {β : Type}

/-- `rename(tmp, path)` where `tmp` is a new file with content `bs` -/
def FS.replace (fs : FS β) (bs : List β) : FS β :=
  { content := fun j => if j = fs.next then bs else fs.content j, next := fs.next + 1, path := some fs.next }

inductive NStepO (cfg : NCfg) : Who → NSt β → NSt β → Prop
  | base {w : Who} {s s' : NSt β} : NStepR cfg w s s' → NStepO cfg w s s'
  | replace (s : NSt β) (i : Nat) (bs : List β) : s.fs.path = some i →
      NStepO cfg Who.writer s
        { s with fs := s.fs.replace bs, evq := s.evq ++ [.create], removes := s.removes + 1 }

inductive NReachO (cfg : NCfg) (s0 : NSt β) : NSt β → Prop
  | refl : NReachO cfg s0 s0
  | step {w s s'} : NReachO cfg s0 s → NStepO cfg w s s' → NReachO cfg s0 s'

end Rare.Follow
