import Rare.Model.C15
/-!
# C15 — a file renamed ONTO the followed path (atomic replace: write `f.tmp`, `rename(f.tmp, f)`)

One operation unlinks the inode that was at the path and puts a new inode – already holding content – there.
The directory watch reports `IN_MOVED_TO` for the followed name, i.e. an fsnotify `Create`; there is no
`Remove` event.  notify.go turns `Create` into the WRITE signal, and `case <-s.eventWrite` re-opens only when
no file is open – so with re-open (-F) the reader keeps the unlinked file and never follows the new one
(KNOWN FINDING, `known_findings/C15.json`; the polling reader does follow it: `Stat` sees another size).
`NStepO` is the notify system with that writer step, as the code is.
-/
namespace Rare.Follow

variable {β : Type}

/-- `rename(tmp, path)` where `tmp` is a new file with content `bs` -/
def FS.replace (fs : FS β) (bs : List β) : FS β :=
  { content := fun j => if j = fs.next then bs else fs.content j, next := fs.next + 1, path := some fs.next }

inductive NStepO (cfg : NCfg) : Who → NSt β → NSt β → Prop
  | base {w : Who} {s s' : NSt β} : NStep cfg w s s' → NStepO cfg w s s'
  | replace (s : NSt β) (i : Nat) (bs : List β) : s.fs.path = some i →
      NStepO cfg Who.writer s { s with fs := s.fs.replace bs, evq := s.evq ++ [.create] }

inductive NReachO (cfg : NCfg) (s0 : NSt β) : NSt β → Prop
  | refl : NReachO cfg s0 s0
  | step {w s s'} : NReachO cfg s0 s → NStepO cfg w s s' → NReachO cfg s0 s'

end Rare.Follow
