/-!
# The spawner side of the status line: `[read/total]` (C05)

`OpenFilesToChan` (pkg/extractor/batchers/fileBatcher.go) – the goroutine that starts the readers:

    bufferedFilenames := bufferChan(filenames, 1000)      -- a goroutine copying names into a buffered channel
    for filename := range bufferedFilenames {             -- `recv`
        sema <- struct{}{}; wg.Add(1); readCount++
        out.setSourceCount(readCount + len(bufferedFilenames))   -- `measure`
        go func(...) { defer { <-sema; out.stopFileReading(name); wg.Done() } ... }(filename)   -- `spawn`
    }
    wg.Wait(); out.close()                                -- `close`

`StatusString` shows `[readCount/sourceCount]` (when sourceCount > 1).  The transition system below has the copier
(`push`: one more name reached the buffer), the three program points of the loop body, the readers abstracted to the
moment they run `stopFileReading` (`finish counted`: `counted` = the file had been opened, so `readCount` is bumped)
and the close.  `len(bufferedFilenames)` is `pushed - taken` at the moment of `measure` – names may arrive between
the receive and the measurement.  (The buffer's capacity 1000, the semaphore and blocking sends only remove
interleavings; nothing below needs them.)
-/
namespace Rare.C05Spawner

inductive PC where
  | top | received | measured
  deriving DecidableEq, Repr

structure St where
  pushed : Nat := 0     -- names that reached `bufferedFilenames`
  taken : Nat := 0      -- names the range loop received = the local `readCount`
  total : Nat := 0      -- `s.sourceCount`
  spawned : Nat := 0    -- reader goroutines started
  stopped : Nat := 0    -- readers that executed `stopFileReading`
  read : Nat := 0       -- `s.readCount`
  pc : PC := .top
  closed : Bool := false
  deriving DecidableEq, Repr

/-- `n` = the number of names the caller sends before closing `filenames`. -/
inductive Step (n : Nat) : St → St → Prop
  | push (s : St) : s.pushed < n → Step n s { s with pushed := s.pushed + 1 }
  | recv (s : St) : s.pc = .top → s.taken < s.pushed → Step n s { s with taken := s.taken + 1, pc := .received }
  | measure (s : St) : s.pc = .received →
      Step n s { s with total := s.taken + (s.pushed - s.taken), pc := .measured }
  | spawn (s : St) : s.pc = .measured → Step n s { s with spawned := s.spawned + 1, pc := .top }
  | finish (s : St) (counted : Bool) : s.stopped < s.spawned →
      Step n s { s with stopped := s.stopped + 1, read := s.read + (if counted then 1 else 0) }
  | close (s : St) : s.pc = .top → s.taken = n → s.pushed = n → s.stopped = s.spawned → s.closed = false →
      Step n s { s with closed := true }

inductive Reach (n : Nat) : St → Prop
  | init : Reach n {}
  | step {s s' : St} : Reach n s → Step n s s' → Reach n s'

/-- A schedule for the driver: all names arrive `ahead` at a time before each loop iteration, every reader finishes
    right after it was started (`missing` of them without having opened their file). -/
def runLoop (n ahead missing : Nat) : Nat → St → St
  | 0, s => s
  | fuel + 1, s =>
    if s.taken < n then
      let s := { s with pushed := min n (max (s.taken + 1) (s.pushed + ahead)) }
      let s := { s with taken := s.taken + 1, pc := .received }
      let s := { s with total := s.taken + (s.pushed - s.taken), pc := .measured }
      let s := { s with spawned := s.spawned + 1, pc := .top }
      let s := { s with stopped := s.stopped + 1, read := s.read + (if s.stopped < missing then 0 else 1) }
      runLoop n ahead missing fuel s
    else { s with closed := true }

def runAll (n ahead missing : Nat) : St := runLoop n ahead missing (n + 1) {}

end Rare.C05Spawner
