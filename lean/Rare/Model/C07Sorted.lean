import Rare.Model.C07
/-!
The sorted / counted accessors of counter.go, countersubkey.go and table.go:
`GroupCount`, `ItemsSortedBy(count, sorter)` (with `minSlice`), `ItemsSorted(sorter)`,
`ColumnCount`, `RowCount`, `OrderedColumns(sorter)`, `OrderedRows(sorter)`, and the two
`NameValueSorter`s the commands use by default (`NVNameSorter`, `NVValueSorter`).

Each accessor copies the map's entries into a slice (in map iteration order – the argument `order`)
and sorts it with `sorting.SortBy(items, sorter, extract)`; `sort.Sort` is modelled by its contract
(a merge sort with the same comparison).
-/
namespace Rare.C07

/-- A `sorting.NameValueSorter`: `less(a, b)` on (name, value) pairs. -/
abbrev NVLess := (Bytes × Int) → (Bytes × Int) → Bool

/-- `NVNameSorter = ValueNilSorter(ByName)`. -/
def nvNameSorter : NVLess := fun a b => bLt a.1 b.1

/-- `NVValueSorter = Reverse(ValueSorterEx(Reverse(ByName)))`: larger values first, equal values by name. -/
def nvValueSorter : NVLess := fun a b =>
  !(if a.2 = b.2 then !(bLt a.1 b.1) else decide (a.2 < b.2))

/-- `sorting.SortBy(keys, less, k ↦ NameValuePair{k, val k})`. -/
def orderedKeys (less : NVLess) (val : Bytes → Int) (order : List Bytes) : List Bytes :=
  order.mergeSort fun a b => !less (b, val b) (a, val a)

/-- `minSlice(items, count)`: the whole slice when it is shorter than `count`, else `items[:count]`
(which panics for a negative `count`). -/
def minSlice {α : Type} (items : List α) (count : Int) : Except String (List α) :=
  if (items.length : Int) < count then .ok items
  else if count < 0 then .error "slice bounds out of range"
  else .ok (items.take count.toNat)

def Counter.countOf (c : Counter) (k : Bytes) : Int := (aget c.items k).getD 0

/-- `GroupCount()`. -/
def Counter.groupCount (c : Counter) : Nat := c.items.length

/-- `ItemsSortedBy(count, sorter)`; `order` = the order in which `range s.matches` yields the keys. -/
def Counter.itemsSortedBy (c : Counter) (less : NVLess) (order : List Bytes) (count : Int) :
    Except String (List (Bytes × Int)) :=
  minSlice ((orderedKeys less c.countOf order).map fun k => (k, c.countOf k)) count

def SubKeyCounter.countOf (s : SubKeyCounter) (k : Bytes) : Int := ((aget s.items k).map (·.count)).getD 0

/-- `ItemsSorted(sorter)`. -/
def SubKeyCounter.itemsSorted (s : SubKeyCounter) (less : NVLess) (order : List Bytes) : List (Bytes × SubItem) :=
  (orderedKeys less s.countOf order).filterMap fun k => (aget s.items k).map fun it => (k, it)

/-- `ColumnCount()` / `RowCount()`. -/
def Table.columnCount (t : Table) : Nat := t.cols.length
def Table.rowCount (t : Table) : Nat := t.rows.length

/-- `OrderedColumns(sorter)`: by (name, column total). -/
def Table.orderedColumns (t : Table) (less : NVLess) (order : List Bytes) : List Bytes :=
  orderedKeys less t.colTotal order

def Table.rowSum (t : Table) (r : Bytes) : Int := ((aget t.rows r).map (·.sum)).getD 0

/-- `OrderedRows(sorter)`: by (name, row sum). -/
def Table.orderedRows (t : Table) (less : NVLess) (order : List Bytes) : List TableRow :=
  (orderedKeys less t.rowSum order).filterMap (aget t.rows)

end Rare.C07
