import Rare.Model.C04
import Rare.Model.Batcher
import Rare.Gen.Tables
/-!
`syncReaderToBatcher` of pkg/extractor/batchers/batcher.go (the per-file loop of `OpenFilesToChan`):
`readahead.NewImmediate(reader, ReadAheadBufferSize)` scanned into batches of `batchSize` lines, no flush
timer (`Rare.Batcher.run` with the all-`false` oracle).  The buffer size is the constant regenerated
from /repo (`Rare.Gen.readAheadBufferSize`).
-/
namespace Rare.C04

structure SyncOut where
  batches : List (Batcher.Batch (View × Bytes))
  done : Bool
  final : Imm

def syncRun (batchSize : Nat) (data : Bytes) (script : List Step) : SyncOut :=
  let fuel := data.length + script.length + 3
  let r := Imm.scanAll fuel fuel (Imm.init Rare.Gen.readAheadBufferSize ⟨data, script⟩)
  { batches := Batcher.run batchSize (r.1.map (·, false)), done := r.2.1, final := r.2.2 }

end Rare.C04
