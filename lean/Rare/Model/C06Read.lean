import Rare.Model.C04
/-!
Read faults (property C06) over the C04 model of the scanner and its scripted reader: which scripts describe "a
reader that FAILS" (as opposed to one that ends).
-/
namespace Rare.C04

/-- the first `Read` of the script that returns an error returns a failure (not `io.EOF`) – with whatever number
    of bytes: `Step.want` is arbitrary, so `(n > 0, err)` reads are covered -/
def failsFirst : List Step → Bool
  | [] => false
  | st :: ss => match st.err with
    | none => failsFirst ss
    | some e => e == .fail

end Rare.C04
