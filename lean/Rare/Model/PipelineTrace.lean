import Rare.Model.C01
import Rare.Model.C01C05TraceOrder
/-!
# Trace inclusion for the extraction pipeline (C01; reused by C05)

The event log of a REAL run of `batchers.Open*ToChan` + `extractor.New` (hooks `verifTrace`, build tag
`verif`) is checked to be a path of the transition system `Rare.Pipeline.Step` (Model/Pipeline.lean)
from `init` to a state in which the consumer has seen the end of the stream.

1. `Label` / `apply`: the transition system with its transitions named; `apply` is the executable,
   deterministic version of `Step` (`apply_sound`, `apply_complete` in Proofs/PipelineTrace.lean: it is
   exactly `Step`).
2. `evLabels`: which transitions a logged event stands for, after checking the event's arguments
   against the state (the batch a worker says it received IS the head of the channel, the line it
   classified IS the next line of its batch and the class is the model's class, …).  Events that are not
   transitions (`rs so sb st sn sc re cw ws wt se`) are stuttering steps with a guard on the local state
   of their goroutine.  `sc` (entry of `stopFileReading`) is recorded per source (`PSt.stopped`): the deferred exit
   block of a reader is `<-sema; out.stopFileReading(name); wg.Done()`, so when `wg.Wait()` has returned (`cw`)
   every reader has logged its `sc` – `cw` is only possible then (the order of /repo 7025f4b; with the older order
   `wg.Done(); stopFileReading` a `cw` could overtake an `sc`).  The only internal transition the log does not see is `wskip` (a worker whose
   batch produced no match goes back to the receive): it is inserted before that worker's next
   `wr`/`wx`.
3. `machine`/`lin`: instance of the generic check of `C01C05TraceOrder` (admissible reordering + strict
   replay; the search for the reordering is untrusted).

Granularity: one event per channel operation, per semaphore operation, per line classified, per
goroutine start/exit, per close.  Batches are derived from the logged flushes and must be reproduced by
the batching-loop model `Rare.Batcher.run` (`batchesOf`), so timer flushes are checked too.

Event codes (src = source index, g ↦ worker index by order of first appearance):
`aq i` semaphore acquired for source i (spawner) · `rs i` reader goroutine started · `so i` startFileReading ·
`se` incErrors · `sb i batch autoflush` batching loop entered · `fl/fe i start n` about to send a batch
(in-loop / remainder) · `st i start n` that send returned · `sn i` batching loop left · `rl i` about to release
the semaphore (`<-sema`, then stopFileReading, then wg.Done) · `sc i` stopFileReading entered · `re i` reader
goroutine ends (after wg.Done) · `cw` wg.Wait returned ·
`cc` about to close the batch channel · `ws` worker started · `wr i start n` worker received a batch ·
`lm/li/lu i num` line classified matched/ignored/unmatched · `wc m r` counters matchedLines/readLines read before a send · `wd i num n` about to send a match batch ·
`wt` that send returned · `wx` worker saw the closed channel · `rc` about to close readChan ·
`cr i num n` consumer received a match batch · `cd` consumer saw the end of the stream.
-/
namespace Rare.Pipeline

inductive Label
  | start (i : Nat) | send (i : Nat) | finish (i : Nat) | closeC
  | wrecv (j : Nat) | wproc (j : Nat) | wsend (j : Nat) | wskip (j : Nat) | wexit (j : Nat)
  | closeRC | crecv | cdone
  deriving Repr, DecidableEq

/-- The transition system as a deterministic function of the transition's name. -/
def apply {α : Type} (cls : α → Cls) (R B K : Nat) (s : St α) : Label → Option (St α)
  | .start i =>
    match s.srcs[i]? with
    | some (.waiting bs) => if activeCount s < R then some { s with srcs := s.srcs.set i (.active bs) } else none
    | _ => none
  | .send i =>
    match s.srcs[i]? with
    | some (.active (b :: bs)) =>
      if s.c.length < B then some { s with srcs := s.srcs.set i (.active bs), c := s.c ++ [b] } else none
    | _ => none
  | .finish i =>
    match s.srcs[i]? with
    | some (.active []) => some { s with srcs := s.srcs.set i .done }
    | _ => none
  | .closeC =>
    if s.srcs.all SrcSt.isDone = true ∧ s.cClosed = false then some { s with cClosed := true } else none
  | .wrecv j =>
    match s.workers[j]?, s.c with
    | some .idle, b :: rest => some { s with workers := s.workers.set j (.busy b []), c := rest }
    | _, _ => none
  | .wproc j =>
    match s.workers[j]? with
    | some (.busy (x :: todo) acc) =>
      some { s with
        workers := s.workers.set j (.busy todo (if cls x = .matched then acc ++ [x] else acc)),
        processed := s.processed ++ [x],
        nRead := s.nRead + 1,
        nMatched := if cls x = .matched then s.nMatched + 1 else s.nMatched,
        nIgnored := if cls x = .ignored then s.nIgnored + 1 else s.nIgnored }
    | _ => none
  | .wsend j =>
    match s.workers[j]? with
    | some (.busy [] (a :: acc)) =>
      if s.rc.length < K then some { s with workers := s.workers.set j .idle, rc := s.rc ++ [a :: acc] } else none
    | _ => none
  | .wskip j =>
    match s.workers[j]? with
    | some (.busy [] []) => some { s with workers := s.workers.set j .idle }
    | _ => none
  | .wexit j =>
    match s.workers[j]?, s.c with
    | some .idle, [] => if s.cClosed = true then some { s with workers := s.workers.set j .exited } else none
    | _, _ => none
  | .closeRC =>
    if s.workers.all WSt.isExited = true ∧ s.rcClosed = false then some { s with rcClosed := true } else none
  | .crecv =>
    match s.rc with
    | m :: rest => if s.consDone = false then some { s with rc := rest, consumed := s.consumed ++ m } else none
    | [] => none
  | .cdone =>
    match s.rc with
    | [] => if s.rcClosed = true ∧ s.consDone = false then some { s with consDone := true } else none
    | _ => none

def applyAll {α : Type} (cls : α → Cls) (R B K : Nat) : St α → List Label → Option (St α)
  | s, [] => some s
  | s, l :: ls => (apply cls R B K s l).bind fun s' => applyAll cls R B K s' ls

/-- A labelled path of the transition system. -/
inductive LPath {α : Type} (cls : α → Cls) (R B K : Nat) : St α → List Label → St α → Prop
  | nil (s) : LPath cls R B K s [] s
  | cons {s s' s'' l ls} : apply cls R B K s l = some s' → LPath cls R B K s' ls s'' → LPath cls R B K s (l :: ls) s''

end Rare.Pipeline

namespace Rare.PipelineTrace
open Rare.Pipeline Rare.C01 Rare.TraceOrder

structure Cfg where
  files : Bool            -- true: OpenFilesToChan; false: OpenReaderToChan (one source, timed flush)
  batch : Nat
  W : Nat
  R : Nat
  B : Nat
  K : Nat := 5
  timed : Bool
  inputs : List Bytes     -- content of every source (an unopenable file has no content)
  agg : Bool := false     -- C05: the consumer is RunAggregationLoop (`mr`/`me` instead of `cr`/`cd`)
  /-- the class `processLineSync` must give a line – a function of the line's own source, number and bytes
      (`C01.clsOf` of the configured extractor; default: the fixed configuration ignore `{1}`, extract `{0}`) -/
  cls : Line → Cls := harnessCls

structure PSt where
  lts : St Line
  errs : Nat
  /-- C05 only: lines of the batch the consumer has received and not yet sampled -/
  pend : List Line
  /-- sources whose reader goroutine has logged `sc` (entered `stopFileReading`) -/
  stopped : List Nat := []

/-! ### Batches: derived from the logged flushes, reproduced by the batching-loop model -/

/-- (start, n) of every flush logged for source `i`, in log order. -/
def flushesOf (tr : List Ev) (i : Nat) : List (Nat × Nat) :=
  tr.filterMap fun e => if (e.kind = "fl" ∨ e.kind = "fe") ∧ e.src = i then some (e.a, e.b) else none

/-- The flush-timer oracle implied by the logged batch sizes: `true` at the last line of a batch that
    was cut before reaching `batch` lines (other than the remainder at EOF, which needs no timer). -/
def oracleOf (batch : Nat) (sizes : List Nat) : List Bool :=
  sizes.flatMap fun n => List.replicate (n - 1) false ++ [decide (n < batch)]

def flagged (oracle : List Bool) (ls : List Line) : List (Line × Bool) :=
  ls.zipIdx.map fun p => (p.1, (oracle[p.2]?).getD false)

/-- The batches `Batcher.run` cuts under the oracle, provided they are the logged ones. -/
def batchesWith (batch : Nat) (oracle : List Bool) (ls : List Line) (fl : List (Nat × Nat)) : Option (List (List Line)) :=
  let bs := Batcher.run batch (flagged oracle ls)
  if bs.map (fun b => (b.start, b.lines.length)) = fl then some (bs.map (·.lines)) else none

def batchesOfSource (cfg : Cfg) (tr : List Ev) (i : Nat) (data : Bytes) : Option (List (List Line)) :=
  let fl := flushesOf tr i
  batchesWith cfg.batch (if cfg.timed then oracleOf cfg.batch (fl.map (·.2)) else []) (linesOf i data) fl

def batchesOf (cfg : Cfg) (tr : List Ev) : Option (List (List (List Line))) :=
  cfg.inputs.zipIdx.mapM fun p => batchesOfSource cfg tr p.2 p.1

/-! ### Worker goroutines -/

def workerKinds : List String := ["ws", "wr", "lm", "li", "lu", "wc", "wd", "wt", "wx"]

/-- goroutine numbers of the workers, in order of first appearance -/
def workerGs (tr : List Ev) : List Nat :=
  (tr.filterMap fun e => if workerKinds.contains e.kind then some e.g else none).eraseDups

/-! ### Events → transitions -/

def srcActive (s : St Line) (i : Nat) : Bool :=
  match s.srcs[i]? with | some (.active _) => true | _ => false

def srcDone (s : St Line) (i : Nat) : Bool :=
  match s.srcs[i]? with | some .done => true | _ => false

def batchIs (b : List Line) (i start n : Nat) : Bool :=
  match b with
  | x :: _ => x.src == i && x.num == start && b.length == n
  | [] => false

def clsOfKind : String → Option Cls
  | "lm" => some .matched | "li" => some .ignored | "lu" => some .unmatched | _ => none

/-- `wskip` first when worker `j` sits at the end of a batch without matches. -/
def withSkip (s : St Line) (j : Nat) (l : Label) : List Label :=
  match s.workers[j]? with
  | some (.busy [] []) => [.wskip j, l]
  | _ => [l]

/-- The transitions event `e` stands for in state `s` (`none`: the event is impossible here). -/
def evLabels (cfg : Cfg) (wg : List Nat) (ps : PSt) (e : Ev) : Option (List Label) :=
  let s := ps.lts
  let j := wg.idxOf e.g
  let i := e.src
  match e.kind with
  | "aq" => if cfg.files then some [.start i] else none
  | "rs" => if cfg.files then (if srcActive s i || srcDone s i then some [] else none) else some []
  | "so" => if cfg.files then (if srcActive s i then some [] else none) else (if i = 0 then some [.start 0] else none)
  | "se" => some []
  | "sb" => if srcActive s i && e.a == cfg.batch && (decide (e.b > 0) == cfg.timed) then some [] else none
  | "fl" =>
    match s.srcs[i]? with
    | some (.active (b :: _)) => if batchIs b i e.a e.b then some [.send i] else none
    | _ => none
  | "fe" =>
    match s.srcs[i]? with
    | some (.active [b]) => if batchIs b i e.a e.b then some [.send i] else none
    | _ => none
  | "st" =>
    match s.srcs[i]? with
    | some (.active []) => some []
    | some (.active (b :: _)) => (match b with | x :: _ => if x.num == e.a + e.b then some [] else none | [] => none)
    | _ => none
  | "sn" =>
    match s.srcs[i]? with
    | some (.active []) => if cfg.files then some [] else some [.finish i]
    | _ => none
  | "rl" => if cfg.files then some [.finish i] else none
  | "sc" => if srcDone s i && !ps.stopped.contains i then some [] else none
  | "re" => if srcDone s i then some [] else none
  | "cw" => if s.srcs.all SrcSt.isDone && (List.range s.srcs.length).all ps.stopped.contains then some [] else none
  | "cc" => some [.closeC]
  | "ws" => if j < cfg.W then some [] else none
  | "wr" =>
    match s.c with
    | b :: _ => if batchIs b i e.a e.b then some (withSkip s j (.wrecv j)) else none
    | [] => none
  | "lm" | "li" | "lu" =>
    match s.workers[j]? with
    | some (.busy (x :: _) _) =>
      if x.src == i && x.num == e.a && clsOfKind e.kind == some (cfg.cls x) then some [.wproc j] else none
    | _ => none
  | "wc" => (match s.workers[j]? with | some (.busy [] (_ :: _)) => some [] | _ => none)
  | "wd" =>
    match s.workers[j]? with
    | some (.busy [] acc) => if batchIs acc i e.a e.b then some [.wsend j] else none
    | _ => none
  | "wt" => (match s.workers[j]? with | some .idle => some [] | _ => none)
  | "wx" => some (withSkip s j (.wexit j))
  | "rc" => some [.closeRC]
  | "cr" =>
    if cfg.agg then none else
    match s.rc with
    | m :: _ => if batchIs m i e.a e.b then some [.crecv] else none
    | [] => none
  | "cd" => if cfg.agg then none else some [.cdone]
  | "mr" =>
    if !cfg.agg then none else
    match s.rc with
    | m :: _ => if m.length == e.a && ps.pend.isEmpty then some [.crecv] else none
    | [] => none
  | "sa" =>
    if !cfg.agg then none else
    match ps.pend with
    | x :: _ => if x.text == e.key then some [] else none
    | [] => none
  | "me" => if cfg.agg && ps.pend.isEmpty then some [.cdone] else none
  | _ => none

def pstep (cfg : Cfg) (wg : List Nat) (ps : PSt) (e : Ev) : Option PSt :=
  match evLabels cfg wg ps e with
  | none => none
  | some ls =>
    match applyAll cfg.cls cfg.R cfg.B cfg.K ps.lts ls with
    | none => none
    | some s' =>
      let pend := match e.kind with
        | "mr" => (match ps.lts.rc with | m :: _ => m | [] => [])
        | "sa" => ps.pend.drop 1
        | _ => ps.pend
      some { lts := s', errs := if e.kind = "se" then ps.errs + 1 else ps.errs, pend := pend,
             stopped := if e.kind = "sc" then e.src :: ps.stopped else ps.stopped }

def machine (cfg : Cfg) (wg : List Nat) : Machine PSt :=
  { step := pstep cfg wg, final := fun ps => ps.lts.consDone && ps.pend.isEmpty }

def initSt (cfg : Cfg) (batches : List (List (List Line))) : PSt :=
  { lts := init batches cfg.W, errs := 0, pend := [] }

/-! ### The extractor's counters, as read by the real code just before a send (`wc matched read`)

The pipeline model bumps `nRead`/`nMatched` in the `wproc` step of a line, i.e. BEFORE the worker sends
the line's match batch (theorem `matched_ge_sum_displayed` of C05 rests on that).  The hooks log a line's
class right after its counters were bumped, and `wc` right after reading the counters.  So a value read
by worker `g` at log position `p` (its previous event at `p⁻`) must count every line whose class event
is logged at a position ≤ `p⁻`, and can count at most the lines logged before `p` plus one line in
flight per other worker.  This is a property of the log alone (no schedule involved). -/

def isLineKind (k : String) : Bool := k = "lm" || k = "li" || k = "lu"

/-- `prefixCount p tr`: entry `k` = number of events among the first `k` that satisfy `p` (size `n+1`). -/
def prefixCount (p : Ev → Bool) (tr : Array Ev) : Array Nat :=
  (tr.foldl (fun (acc : Array Nat × Nat) e => let c := if p e then acc.2 + 1 else acc.2; (acc.1.push c, c)) (#[0], 0)).1

/-- position of the first `wc` event whose values are outside the bounds -/
def counterViolation (W : Nat) (tr : Array Ev) : Option Nat :=
  let cm := prefixCount (fun x => x.kind = "lm") tr
  let cr := prefixCount (fun x => isLineKind x.kind) tr
  (List.range tr.size).find? fun p =>
    let e := evAt tr p
    if e.kind = "wc" then
      let pm := prevPos tr p
      let loM := cm.getD (pm + 1) 0
      let hiM := cm.getD p 0 + (W - 1)
      let loR := cr.getD (pm + 1) 0
      let hiR := cr.getD p 0 + (W - 1)
      !(decide (loM ≤ e.a) && decide (e.a ≤ hiM) && decide (loR ≤ e.b) && decide (e.b ≤ hiR))
    else false

/-! ### Search hints (untrusted) -/

/-- The events of this trace that belong to the pipeline machine. -/
def pipeKinds (agg : Bool) : List String :=
  ["aq", "rs", "so", "se", "sb", "fl", "fe", "st", "sn", "rl", "sc", "re", "cw", "cc", "ws", "wr", "lm", "li", "lu",
   "wc", "wd", "wt", "wx", "rc"] ++ (if agg then ["mr", "sa", "me"] else ["cr", "cd"])

def consumerG (tr : List Ev) : Nat :=
  match tr.find? fun e => e.kind = "cr" ∨ e.kind = "cd" ∨ e.kind = "mr" ∨ e.kind = "me" with
  | some e => e.g
  | none => 0

/-- log position of the `wr` event of every batch -/
def recvPositions (tr : List Ev) : List ((Nat × Nat) × Nat) :=
  tr.zipIdx.filterMap fun p => if p.1.kind = "wr" then some ((p.1.src, p.1.a), p.2) else none

/-- The consumer's receives in order: `cr` events carry (source, first line number); for `mr` (C05) the
    batch is identified by the keys of the samples that follow it. -/
def recvSeq : List Ev → List (Option (Nat × Nat) × List Bytes)
  | [] => []
  | e :: r =>
    if e.kind = "cr" then (some (e.src, e.a), []) :: recvSeq r
    else if e.kind = "mr" then
      (none, ((r.filter fun x => x.g = e.g).takeWhile fun x => x.kind = "sa").map (·.key)) :: recvSeq r
    else recvSeq r

def lin (wg : List Nat) (tr : List Ev) : Lin PSt :=
  let cg := consumerG tr
  let rp := recvPositions tr
  let rs := recvSeq tr
  { isChoice := fun e => e.kind = "fl" ∨ e.kind = "fe" ∨ e.kind = "wd",
    rank := fun ps qs p =>
      let e := p.2
      if e.kind = "wd" then
        -- the consumer is one goroutine: the order of its receives IS the order of the sends, so the
        -- next send must be the batch of receive number (receives done + batches in the channel)
        let cq := (qs.find? fun q => match q with | (_, e') :: _ => e'.g = cg | [] => false).getD []
        let remaining := (cq.filter fun q => q.2.kind = "cr" ∨ q.2.kind = "mr").length
        let k := rs.length - remaining + ps.lts.rc.length
        match rs[k]? with
        | some (some id, _) => if id = (e.src, e.a) then some 0 else none
        | some (none, keys) =>
          (match ps.lts.workers[wg.idxOf e.g]? with
           | some (.busy _ acc) => if acc.map (·.text) = keys then some 0 else none
           | _ => none)
        | none => some p.1
      else
        match rp.find? fun q => q.1 = (e.src, e.a) with
        | some (_, pos) => some pos
        | none => some (p.1 + 1000000000) }

/-! ### A small log for the non-vacuity examples of Props/C01 -/

/-- A small real-shaped log (one reader source `ab⏎x⏎`, batch size 1, one worker; the worker logs its
    first receive late, after the reader's second send) used for the non-vacuity examples. -/
def exampleCfg : Cfg :=
  { files := false, batch := 1, W := 1, R := 1, B := 1, timed := true, inputs := [[97, 98, 10, 120, 10]] }

def exampleLog : List Ev :=
  let mk (g : Nat) (k : String) (src a b : Nat) : Ev := ⟨g, k, src, a, b, []⟩
  [mk 0 "so" 0 0 0, mk 0 "sb" 0 1 1, mk 0 "fl" 0 1 1, mk 1 "ws" noSrc 0 0, mk 0 "st" 0 1 1, mk 0 "fl" 0 2 1,
   mk 1 "wr" 0 1 1, mk 1 "lm" 0 1 0, mk 1 "wd" 0 1 1, mk 0 "st" 0 2 1, mk 0 "sn" 0 0 0, mk 0 "cc" noSrc 0 0,
   mk 2 "cr" 0 1 1, mk 1 "wt" noSrc 0 0, mk 1 "wr" 0 2 1, mk 1 "lu" 0 2 0, mk 1 "wx" noSrc 0 0, mk 3 "rc" noSrc 0 0,
   mk 2 "cd" noSrc 0 0]

end Rare.PipelineTrace
