import Rare.Model.C10
import Rare.Spec.C09Frag
/-!
C10: the specification of funcs-file functions whose bodies are expression trees (`Rare/Spec/C09.lean`) over
the standard fragment (`Rare/Spec/C09Frag.lean`) and the functions defined earlier in the file.  Core Lean
only (the correspondence driver evaluates `semDefs` / `fragOkS`, op `ftree`); the theorems are in
`Rare/Proofs/C10Tree.lean` and `Rare/Props/C10.lean` (`call_nested_eq_body`).
-/
namespace Rare.C10
open Rare Rare.Expr Rare.C09

/-- A definition: name and body tree. -/
abbrev Def := List Char × C09.Expr

/-- The meaning of names after one more definition. -/
def semAdd (sem : Sem) (d : Def) : Sem := fun ctx g vals =>
  if g = d.1 then evalTree (envC sem (argCtx ctx vals.length vals)) d.2 else sem ctx g vals

/-- The meaning of names after a list of definitions, in file order (a later definition of a name shadows
    an earlier one for what follows; bodies keep the meaning they were defined with). -/
def semDefs (sem : Sem) : List Def → Sem
  | [] => sem
  | d :: rest => semDefs (semAdd sem d) rest

/-- A call site of the standard fragment, its side condition evaluated under `sem`. -/
def callOkS (sem : Sem) (f : List Char) (args : List C09.Expr) : Bool :=
  match fragLookup (String.ofList f) with
  | some e => e.arity args.length && e.pre (evalTree (envC sem emptyCtx)) dynE args
  | none => false

mutual
/-- Every call in the tree is a call of a user function of `U` (any arguments) or a call site of the
    standard fragment. -/
def fragOkS (sem : Sem) (U : List (List Char)) : C09.Expr → Bool
  | .call f args => (U.contains f || callOkS sem f args) && fragOkSArgs sem U args
  | .lit _ => true
  | .group _ => true
  | .key _ => true
def fragOkSArgs (sem : Sem) (U : List (List Char)) : List C09.Expr → Bool
  | [] => true
  | a :: rest => fragOkS sem U a && fragOkSArgs sem U rest
end

end Rare.C10
