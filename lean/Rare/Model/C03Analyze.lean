import Rare.Model.C03Reduce
import Rare.Model.C07NumF64
/-!
Model of `rare analyze` (`cmd/analyze.go`) on top of the binary64 model of `MatchNumerical`
(`Model/C07NumF64.lean`: `runF`, `analyzeF`, `medianF`, `modeF`, `quantileF` – the float computation exactly
as the Go code performs it, bit for bit).

`analyzeLines` is what the final render writes with the global flags `--nocolor --noformat`
(`humanize.Hf(x)` = `strconv.FormatFloat(x, 'f', 4, 64)` = `F64.format x 4`, `humanize.Hui` = decimal):

    Samples:  <count>
    Mean:     <mean>
    StdDev:   <sqrt(variance/(n-1))>
    Min:      <min>
    Max:      <max>
    (with --extra:)
    <empty line>
    Median:   <ordered[n/2]>
    Mode:     <first longest run of the ordered values>
    P<q>: <ordered[int(n * (q/100))]>          one line per -q, "%02.4f" of q
    <Matched: m / r [(Ignored: i)] [(Errors: e)]>

The sort of `Analyze()` is the argument `ordered` (any arrangement `sort.Sort` may return; `analyzeF` is the
executable instance).  `-q` values that are not numbers are a `Fatalf` (exit status 2).
-/
namespace Rare.C03
open Rare.C07

/-- `humanize.Hf` with `--noformat`: `strconv.FormatFloat(x, 'f', 4, 64)`. -/
def hf (x : F64) : Bytes := F64.format x 4

/-- The flags of `rare analyze` that decide the result. -/
structure AnalyzeArgs where
  extra : Bool := false
  reverse : Bool := false
  /-- the `-q` arguments as typed (default `90 99 99.9`) -/
  quantiles : List Bytes := [[57, 48], [57, 57], [57, 57, 46, 57]]

/-- `parseStringSet`: every `-q` must parse (`strconv.ParseFloat`; a range error is an error too); `.error 2` = `Fatalf`. -/
def parseQuantiles : List Bytes → Except Nat (List F64)
  | [] => .ok []
  | q :: rest =>
    match F64.parseFloat q with
    | none => .error 2
    | some v =>
      match parseQuantiles rest with
      | .error c => .error c
      | .ok vs => .ok (v :: vs)

def hundred : F64 := F64.ofInt 100

/-- The five lines every render writes. -/
def analyzeBasic (s : NumF) : List Bytes :=
  [ascii "Samples:  " ++ natBytes s.samples,
   ascii "Mean:     " ++ hf s.mean,
   ascii "StdDev:   " ++ hf s.stdDev,
   ascii "Min:      " ++ hf s.min,
   ascii "Max:      " ++ hf s.max]

/-- The lines `--extra` adds, from the arrangement `ordered` that `Analyze()` left in `s.values`;
`.error` = `Quantile` indexes out of range (cannot happen after the F20 fix; kept for faithfulness). -/
def analyzeExtra (ordered : List F64) (quantiles : List F64) : Except String (List Bytes) :=
  (quantiles.mapM (m := Except String) fun q =>
      (quantileF ordered (F64.div q hundred)).map fun v => 80 :: (hf q ++ ascii ": " ++ hf v)).map fun qs =>
    [[], ascii "Median:   " ++ hf (medianF ordered), ascii "Mode:     " ++ hf (modeF ordered)] ++ qs

/-- `writeAggrOutput` followed by the summary line (the byte/rate status line is not a function of the input). -/
def analyzeLines (a : AnalyzeArgs) (quantiles : List F64) (s : NumF) (ordered : List F64) (c : Counters) :
    Except String (List Bytes) :=
  if a.extra then
    (analyzeExtra ordered quantiles).map fun ex =>
      analyzeBasic s ++ ex ++ [[], summaryLine c s.parseErrors []]
  else .ok (analyzeBasic s ++ [[], summaryLine c s.parseErrors []])

/-- `DetermineErrorState(batcher, ext, aggr)`. -/
def analyzeExit (readErrors : Int) (s : NumF) (c : Counters) : Nat :=
  determineErrorState readErrors false s.parseErrors c.matched

structure AnalyzeRun where
  lines : List Bytes
  exit : Nat
  deriving DecidableEq

/-- The whole command for one sample history: `config.KeepValuesForAnalysis = extra`, the aggregator after the
history, the final render with the arrangement `sort h` of the kept values, the exit status. -/
def analyzeRun (a : AnalyzeArgs) (quantiles : List F64) (samples : List Bytes) (sort : List F64 → List F64)
    (c : Counters) (readErrors : Int) : Except String AnalyzeRun :=
  let s := runF a.extra samples
  (analyzeLines a quantiles s (sort s.values) c).map fun lines => { lines, exit := analyzeExit readErrors s c }

/-! ### specification level: the mean the property promises

"The final result is a deterministic function of the input": the printed mean of the SPEC is the 4-decimal
rendering (round half to even, as `strconv` does for the binary value) of the EXACT mean of the sample values –
a function of the multiset.  Used by the `analyze-spec` op, whose witness case is known finding F26. -/

def ratSumF (l : List F64) : Rat := (l.map F64.toRat).foldl (· + ·) 0

/-- `'f'` rendering with `prec` decimals of an exact rational. -/
def ratFixed (q : Rat) (prec : Nat) : Bytes :=
  let body := F64.placePoint (natDigits (F64.roundNE (F64.absRat q * F64.pow10 prec)).toNat) prec
  if q < 0 then 45 :: body else body

/-- The sample values `Sample` accepts (`strconv.ParseFloat` succeeds). -/
def parsedValues' (h : List Bytes) : List F64 := h.filterMap F64.parseFloat

/-- `Mean:` of the specification for finite samples (`none`: no samples, or a non-finite sample). -/
def specMeanText (l : List F64) : Option Bytes :=
  if l = [] ∨ l.any (fun x => !x.isFinite) then none
  else some (ratFixed (ratSumF l / (l.length : Rat)) 4)

end Rare.C03
