import Rare.Model.Pipeline
/-!
The extraction pipeline of `Model/Pipeline.lean` with the batcher's error counter (`Batcher.errorCount`,
`incErrors`, `ReadErrors`) added – property C06: "an input that cannot be opened or fails while being read is
counted as a read error", and counted BEFORE the end of the inputs becomes visible (the commands read
`ReadErrors()` once the extractor has drained the closed batch channel).

A state is a pipeline state plus
* `errs`     – `Batcher.errorCount`;
* `pending`  – ghost, per source: this source's reader goroutine is going to call `incErrors` (its file cannot be
               opened, or its reader fails: at most once per source, C04 `imm_error_once` / `read_fault_counted`)
               and has not done so yet.

Transitions: every transition of the pipeline (`move`), with the program order of the reader goroutine as its
guard – the goroutine does not reach its deferred block (`<-sema; out.stopFileReading(name); wg.Done()`, the `finish` transition that makes
the source `done`) while its `incErrors` call is still ahead of it; and `count`: the `incErrors` call itself
(`out.incErrors()` of the open-failure branch / the `OnError` callback inside `syncReaderToBatcher`), possible at
any moment of the goroutine's life.  That the code has this order is what `error_count_precedes_done` (control
tree regenerated from the source) and the `errtrace` correspondence op (event logs of real runs: no `src.err`
after the goroutine's `sema.rel`) check.
-/
namespace Rare.C06.Pipe
open Rare.Pipeline

structure ESt (α : Type) where
  lts : St α
  errs : Nat
  pending : List Bool

def einit {α : Type} (inputs : List (List (List α))) (W : Nat) (fails : List Bool) : ESt α :=
  { lts := init inputs W, errs := 0, pending := fails }

inductive EStep {α : Type} (cls : α → Cls) (R B K : Nat) : ESt α → ESt α → Prop
  /-- any pipeline transition; a source whose error is not yet counted does not become `done` -/
  | move (es : ESt α) (s' : St α) :
      Step cls R B K es.lts s' →
      (∀ i : Nat, es.pending[i]? = some true → s'.srcs[i]? = some SrcSt.done → es.lts.srcs[i]? = some SrcSt.done) →
      EStep cls R B K es { es with lts := s' }
  /-- `incErrors()` in the reader goroutine of source `i` -/
  | count (es : ESt α) (i : Nat) (bs : List (List α)) :
      es.lts.srcs[i]? = some (.active bs) → es.pending[i]? = some true →
      EStep cls R B K es { es with errs := es.errs + 1, pending := es.pending.set i false }

inductive EReach {α : Type} (cls : α → Cls) (R B K : Nat) (s0 : ESt α) : ESt α → Prop
  | refl : EReach cls R B K s0 s0
  | step {s s'} : EReach cls R B K s0 s → EStep cls R B K s s' → EReach cls R B K s0 s'

/-- number of errors still to be counted -/
def pendingCount (p : List Bool) : Nat := (p.filter id).length

end Rare.C06.Pipe
