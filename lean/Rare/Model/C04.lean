import Rare.Spec.C04
/-!
Executable model of `pkg/readahead/immediate.go` and `pkg/readahead/buffered.go`.

The underlying `io.Reader` is a *scripted reader*: a byte stream plus a script that says,
per `Read` call, how many bytes the call is willing to return (possibly 0) and which
error (none / io.EOF / another error) comes back alongside them.  When the script is
exhausted the reader behaves like a well-behaved one: it hands out as much as fits and
then reports io.EOF.

Memory is explicit in the following sense.  The valid part `buf[0:end]` of the current
backing array is the list `buf` (so `end = buf.length`), `cap` is `len(s.buf)`.  A `Read`
into `buf[end:]` is an *append* to that list; a regrow archives the current array into
`mem` and starts a new one.  Tokens are *views* `(array id, start, stop)`; reading a
view back at any later state goes through `readView`.
-/
namespace Rare.C04

inductive RErr | eof | fail
  deriving DecidableEq, Repr

structure Step where
  want : Nat
  err : Option RErr
  deriving Repr

structure Reader where
  rest : Bytes
  script : List Step
  deriving Repr

/-- One `Read(p)` with `len(p) = room`. -/
def Reader.read (r : Reader) (room : Nat) : Bytes × Option RErr × Reader :=
  match r.script with
  | [] =>
    if r.rest = [] then ([], some .eof, r)
    else (r.rest.take room, none, { r with rest := r.rest.drop room })
  | s :: ss =>
    let n := min s.want room
    (r.rest.take n, s.err, { rest := r.rest.drop n, script := ss })

/-- Progress measure of a reader: strictly decreases on every error-free `Read` with room > 0. -/
def Reader.measure (r : Reader) : Nat := r.script.length + r.rest.length

def idxNl : Bytes → Option Nat
  | [] => none
  | b :: r => if b = nl then some 0 else (idxNl r).map (· + 1)

structure View where
  arr : Nat
  start : Nat
  stop : Nat
  deriving Repr, DecidableEq

inductive Res
  | tok (v : View) (bytes : Bytes)
  | done
  | fuel
  deriving Repr

/-! ### ImmediateReadAhead -/

structure Imm where
  bufSize : Nat
  cap : Nat            -- len(s.buf)
  buf : Bytes          -- s.buf[0:s.end]
  offset : Nat
  eof : Bool
  rd : Reader
  -- ghost state
  mem : List Bytes     -- archived backing arrays, oldest first
  errs : Nat           -- number of onError callbacks so far
  delivered : Bytes    -- every byte any Read has returned so far
  deriving Repr

def Imm.init (bufSize : Nat) (rd : Reader) : Imm :=
  { bufSize, cap := bufSize, buf := [], offset := 0, eof := false, rd,
    mem := [], errs := 0, delivered := [] }

def Imm.arr (s : Imm) : Nat := s.mem.length

/-- `s.token = dropCR(s.buf[s.offset : s.offset+eol]); s.offset += eol+1` -/
def Imm.emitAt (s : Imm) (eol : Nat) : Res × Imm :=
  let line := dropCR ((s.buf.drop s.offset).take eol)
  (.tok ⟨s.arr, s.offset, s.offset + line.length⟩ line, { s with offset := s.offset + eol + 1 })

/-- `s.token = s.buf[s.offset:s.end]; s.offset = s.end` -/
def Imm.emitTail (s : Imm) : Res × Imm :=
  (.tok ⟨s.arr, s.offset, s.buf.length⟩ (s.buf.drop s.offset), { s with offset := s.buf.length })

/-- The code between `RESTART:` and the read loop; `none` = fall through to the read loop. -/
def Imm.top (s : Imm) : Option (Res × Imm) :=
  if s.offset < s.buf.length then
    match idxNl (s.buf.drop s.offset) with
    | some eol => some (s.emitAt eol)
    | none => if s.eof then some s.emitTail else none
  else if s.eof then some (.done, s) else none

/-- `top` when `eof` is known to be set (after `goto RESTART` from the error branch). -/
def Imm.topEof (s : Imm) : Res × Imm :=
  if s.offset < s.buf.length then
    match idxNl (s.buf.drop s.offset) with
    | some eol => s.emitAt eol
    | none => s.emitTail
  else (.done, s)

/-- Allocate a fresh backing array and copy the unread window into it. -/
def Imm.regrow (s : Imm) : Imm :=
  { s with mem := s.mem ++ [s.buf], cap := s.buf.length - s.offset + s.bufSize,
           buf := s.buf.drop s.offset, offset := 0 }

def Imm.grown (s : Imm) : Imm := if s.buf.length ≥ s.cap then s.regrow else s

def Imm.recv (s : Imm) (bs : Bytes) (rd' : Reader) : Imm :=
  { s with buf := s.buf ++ bs, rd := rd', delivered := s.delivered ++ bs }

def Imm.fail (s : Imm) (e : RErr) : Imm :=
  { s with eof := true, errs := if e = .fail then s.errs + 1 else s.errs }

def Imm.readLoop : Nat → Imm → Res × Imm
  | 0, s => (.fuel, s)
  | f + 1, s =>
    let s0 := s.grown
    let r := s0.rd.read (s0.cap - s0.buf.length)
    let s1 := s0.recv r.1 r.2.2
    match r.2.1 with
    | some e => (s1.fail e).topEof
    | none =>
      match idxNl r.1 with
      | some eol =>
        -- end := s.end - n + eol ; token = dropCR(buf[offset:end]) ; offset = end+1
        s1.emitAt (s0.buf.length + eol - s0.offset)
      | none => Imm.readLoop f s1

def Imm.scan (fuel : Nat) (s : Imm) : Res × Imm :=
  match s.top with
  | some r => r
  | none => s.readLoop fuel

/-- Call `Scan()` until it returns false (at most `n` times). -/
def Imm.scanAll (fuel : Nat) : Nat → Imm → List (View × Bytes) × Bool × Imm
  | 0, s => ([], false, s)
  | n + 1, s =>
    match s.scan fuel with
    | (.tok v b, s') =>
      let r := Imm.scanAll fuel n s'
      ((v, b) :: r.1, r.2.1, r.2.2)
    | (.done, s') => ([], true, s')
    | (.fuel, s') => ([], false, s')

def Imm.arrays (s : Imm) : List Bytes := s.mem ++ [s.buf]

def readView (arrays : List Bytes) (v : View) : Bytes :=
  ((arrays.getD v.arr []).drop v.start).take (v.stop - v.start)

/-! ### BufferedReadAhead -/

structure Buf where
  maxBufLen : Nat
  buf : Bytes          -- s.buf  (len = readOffset after trimming)
  offset : Nat
  eof : Bool
  rd : Reader
  mem : List Bytes
  errs : Nat
  delivered : Bytes
  deriving Repr

def Buf.init (maxBufLen : Nat) (rd : Reader) : Buf :=
  { maxBufLen, buf := [], offset := 0, eof := false, rd, mem := [], errs := 0, delivered := [] }

/-- The inner `for readOffset < len(s.buf)` fill loop. `cap` is `len(s.buf)` of the fresh array;
    `acc` is its filled part. -/
def Buf.fill : Nat → Nat → Bytes → Reader → Nat → Bytes → Option (Bytes × Reader × Bool × Nat × Bytes)
  | 0, _, _, _, _, _ => none
  | f + 1, cap, acc, rd, errs, dl =>
    if acc.length < cap then
      let r := rd.read (cap - acc.length)
      let acc' := acc ++ r.1
      match r.2.1 with
      | some e => some (acc', r.2.2, true, if e = .fail then errs + 1 else errs, dl ++ r.1)
      | none => Buf.fill f cap acc' r.2.2 errs (dl ++ r.1)
    else some (acc, rd, false, errs, dl)

def Buf.scan : Nat → Buf → Res × Buf
  | 0, s => (.fuel, s)
  | f + 1, s =>
    match idxNl (s.buf.drop s.offset) with
    | some rel =>
      let line := dropCR ((s.buf.drop s.offset).take rel)
      (.tok ⟨s.mem.length, s.offset, s.offset + line.length⟩ line, { s with offset := s.offset + rel + 1 })
    | none =>
      if s.eof && s.offset < s.buf.length then
        (.tok ⟨s.mem.length, s.offset, s.buf.length⟩ (s.buf.drop s.offset), { s with offset := s.buf.length })
      else if !s.eof then
        let keep := s.buf.drop s.offset
        let cap := max s.maxBufLen (keep.length + s.maxBufLen / 2)
        match Buf.fill (s.rd.measure + 2) cap keep s.rd s.errs s.delivered with
        | none => (.fuel, s)
        | some (acc, rd', eof', errs', dl') =>
          Buf.scan f { s with mem := s.mem ++ [s.buf], buf := acc, offset := 0, rd := rd',
                               eof := eof', errs := errs', delivered := dl' }
      else (.done, s)

def Buf.scanAll (fuel : Nat) : Nat → Buf → List (View × Bytes) × Bool × Buf
  | 0, s => ([], false, s)
  | n + 1, s =>
    match s.scan fuel with
    | (.tok v b, s') =>
      let r := Buf.scanAll fuel n s'
      ((v, b) :: r.1, r.2.1, r.2.2)
    | (.done, s') => ([], true, s')
    | (.fuel, s') => ([], false, s')

def Buf.arrays (s : Buf) : List Bytes := s.mem ++ [s.buf]

end Rare.C04
