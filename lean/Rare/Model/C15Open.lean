import Rare.Model.C15Wiring
/-!
# C15 — the prologue of the per-file goroutine of `batchers.TailFilesToChan`

    r, err := followreader.New(filename, reopen, poll)
    if err != nil { logger.Print("Unable to open file: ", err); out.incErrors(); return }
    if tail {
        if err := r.Drain(); err != nil { logger.Print("Unable to tail file source: ", err); out.incErrors() }   -- NO return
    }
    out.startFileReading(filename)
    out.syncReaderToBatcherWithTimeFlush(filename, r, batchSize, AutoFlushTimeout)

with, inside `New`,

    NewNotify:  f, err := os.Open(filename);  if err != nil && !reopen { return error }
                ret.watcher, err = ret.startWatcher()          -- fsnotify.NewWatcher + watcher.Add(path.Dir(filename))
                if err != nil { f.Close(); return error }      -- also WITH reopen: no directory, nothing to watch
    NewPolling: f, err := os.Open(filename);  if err != nil && !reopen { return error }
    Drain:      if s.f == nil { return nil };  offset, err := s.f.Seek(0, io.SeekEnd);  (poller: if err == nil { s.readBytes = offset });  return err

What the path is when the goroutine starts is a `FileState`; the three system calls whose outcome matters
are `os.Open`, `watcher.Add(dir)` and `Seek`.  A named pipe with a writer is the non-seekable case (`Seek`
answers ESPIPE): `--tail` then counts one error and the pipe is followed FROM ITS BEGINNING (the offset does
not move) – the behaviour of the code, recorded in `Props` (`tail_on_pipe_counts_error_and_reads_all`).

`prologue` is what the theorems of `Rare.Props.C15` about the two transition systems start from: for a regular
file it leaves exactly the initial state `ninit (some c) tail` / `pinit (some c) tail`, for a missing file with
re-open exactly `ninit none` / `pinit none`.
-/
namespace Rare.C15.Open
open Rare.C15.Wiring

inductive FileState
  | regular   -- a regular file at the path
  | fifo      -- a named pipe that has a writer: `os.Open` succeeds, `Seek` fails, `Read` never reports EOF
  | absent    -- nothing at the path, the directory exists
  | nodir     -- the directory does not exist
  | directory -- the path is a directory: `os.Open` and `Seek` succeed, every `Read` fails (EISDIR / EINVAL)
  deriving DecidableEq, Repr

/-- `os.Open(filename)` succeeds -/
def opens : FileState → Bool
  | .regular | .fifo | .directory => true
  | .absent | .nodir => false

/-- `s.f.Read(buf)` answers bytes or EOF (false: a non-EOF error, which the follow reader's `Read` returns at once) -/
def readable : FileState → Bool
  | .directory => false
  | _ => true

/-- `watcher.Add(path.Dir(filename))` succeeds -/
def watchable : FileState → Bool
  | .nodir => false
  | _ => true

/-- `s.f.Seek(0, io.SeekEnd)` succeeds -/
def seekable : FileState → Bool
  | .fifo => false
  | _ => true

inductive NewResult
  | err                       -- `New` returned an error
  | reader (hasFile : Bool)   -- a reader, with (`s.f != nil`) or without an open file
  deriving DecidableEq, Repr

/-- `followreader.New` → `NewNotify` / `NewPolling` on a path in state `st` -/
def newOn (k : Kind) (reopen : Bool) (st : FileState) : NewResult :=
  if !opens st && !reopen then .err
  else match k with
    | .notify => if watchable st then .reader (opens st) else .err
    | .poll => .reader (opens st)

/-- `r.Drain()` for a file of `size` bytes: (returned an error, offset afterwards) -/
def drain (hasFile : Bool) (st : FileState) (size : Nat) : Bool × Nat :=
  if !hasFile then (false, 0)
  else if seekable st then (false, size)
  else (true, 0)

structure Outcome where
  errors : Nat       -- calls of `out.incErrors()`
  started : Bool     -- `startFileReading` and the batching loop were reached (false: the goroutine returned)
  hasFile : Bool     -- the reader has an open file
  offset : Nat       -- where that file will be read from
  deriving DecidableEq, Repr

def prologue (w : Follow) (st : FileState) (size : Nat) : Outcome :=
  match newOn w.kind w.reopen st with
  | .err => { errors := 1, started := false, hasFile := false, offset := 0 }
  | .reader hf =>
    if w.tail then
      let d := drain hf st size
      { errors := if d.1 then 1 else 0, started := true, hasFile := hf, offset := d.2 }
    else { errors := 0, started := true, hasFile := hf, offset := 0 }

/-- The first `Read` of the batching loop fails with a non-EOF error: the scanner reports it (`OnError` →
    `incErrors`), `Scan()` answers false, the loop ends, the goroutine returns (and with one file the batch
    channel is closed). -/
def readFails (w : Follow) (st : FileState) (size : Nat) : Bool :=
  let o := prologue w st size
  o.started && o.hasFile && !readable st

/-- the file is being followed: listed as active, channel open -/
def following (w : Follow) (st : FileState) (size : Nat) : Bool :=
  (prologue w st size).started && !readFails w st size

/-- `ReadErrors()` of the batcher for this file -/
def totalErrors (w : Follow) (st : FileState) (size : Nat) : Nat :=
  (prologue w st size).errors + (if readFails w st size then 1 else 0)

/-- What one followed path delivers in the scenario of the correspondence op `prologue`: `content` is there at
    the start (regular file / already in the pipe), `extra` is appended afterwards (or written as the new file
    when nothing was there). -/
def delivers {α : Type} (w : Follow) (st : FileState) (content extra : List α) : List α :=
  let o := prologue w st content.length
  if !following w st content.length then []
  else if o.hasFile then (content ++ extra).drop o.offset
  else extra

def parseState : String → Option FileState
  | "regular" => some .regular
  | "fifo" => some .fifo
  | "absent" => some .absent
  | "nodir" => some .nodir
  | "directory" => some .directory
  | _ => none

end Rare.C15.Open
