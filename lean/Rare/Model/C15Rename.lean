import Rare.Model.C15
/-!
# C15 — rotation by rename (`mv file file.1`, then a new file at the path: logrotate's default)

For the path, a rename of the followed file AWAY is a removal: the inode is no longer there.  The polling
reader only ever `Stat`s the path, so for it the writer step is literally `PStep.remove`.  The notify reader
sees an fsnotify `Rename` event of the followed name; since the `fix:` commit of this package the watcher
goroutine turns it into the delete signal when `ReOpen` is set and ignores it otherwise (`renameEv`):

* re-open follow (-F): the step is literally `NStep.remove` – every theorem about removal and re-creation
  holds for rotation by rename (`Props`: `rename_is_removal_for_reopen`);
* plain follow (-f): nothing is signalled, the reader keeps the renamed file open and goes on delivering
  that file (what is appended to it under its new name raises no event of the followed name – a writer that
  keeps a renamed file open is out of the model); a file created at the path afterwards is not followed, and
  the stream does not end until that file is removed.  `NStepR` is the notify system with that writer step.
-/
namespace Rare.Follow

variable {β : Type}

/-- what the watcher goroutine makes of the Rename event of the followed name -/
def renameEv (cfg : NCfg) : Ev := if cfg.reopen then .remove else .other

inductive NStepR (cfg : NCfg) : Who → NSt β → NSt β → Prop
  | base {w : Who} {s s' : NSt β} : NStep cfg w s s' → NStepR cfg w s s'
  | rename (s : NSt β) (i : Nat) : s.fs.path = some i →
      NStepR cfg Who.writer s { s with fs := s.fs.remove, evq := s.evq ++ [renameEv cfg], removes := s.removes + 1 }

inductive NReachR (cfg : NCfg) (s0 : NSt β) : NSt β → Prop
  | refl : NReachR cfg s0 s0
  | step {w s s'} : NReachR cfg s0 s → NStepR cfg w s s' → NReachR cfg s0 s'

end Rare.Follow
