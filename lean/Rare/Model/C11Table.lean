import Rare.Model.Expr.Std
import Rare.Model.C11Case
import Rare.Model.C11Log
/-!
The function table of the C11 driver: the standard table with the full-Unicode `upper` / `lower`
(`Rare/Model/C11Case.lean`) and the modelled `ln` / `log10` / `log2` / `pow` (`Rare/Model/C11Log.lean`) in front
(the first entry for a name wins).
-/
namespace Rare.C11
open Rare.Expr

def c11Table : Table := Case.table ++ Log.table ++ stdTable

end Rare.C11
