import Rare.Model.Batcher
/-!
# C02 — the batching loops at the level of Go slices (backing arrays, `make`, `append`, `batch[:0]`)

`Rare.Batcher` (shared with C01) models the two loops of `pkg/extractor/batchers/batcher.go` on Lean
lists, where a batch that was sent is a value and cannot change any more.  In the real code a batch is
a slice header `(array, len, cap)`; the `InputBatch` sitting in the channel (or being walked by a
worker) shares its backing array with the batcher's variable `batch` unless the loop allocates a new
one.  This file keeps that array visible: a heap of arrays, slices as `(array id, len, cap)`, `append`
writing in place while `len < cap`, and the statements of the loops as a small program (`BStmt`) that is
read from the source (`Gen.C02.batchLoopPlain/Timed`, parsed by `parseLoop`).  What a consumer sees
"however long it holds" a batch is `lateRead`: the sent slice headers read in the FINAL heap.
-/
namespace Rare.C02.BatchH

/-- a slice header whose offset is 0 (the loops only ever use `make(…, 0, n)`, `append`, `[:0]`) -/
structure Sl where
  arr : Nat
  len : Nat
  cap : Nat
  deriving Repr, DecidableEq

/-- the statements the two loops are made of -/
inductive BStmt
  | append      -- `batch = append(batch, readahead.Bytes())`
  | send        -- `s.c <- extractor.InputBatch{Batch: batch, Source: sourceName, BatchStart: batchStart}`
  | advance     -- `batchStart += uint64(len(batch))`
  | fresh       -- `batch = make([]extractor.BString, 0, batchSize)`
  | truncate    -- `batch = batch[:0]`   (not in the source; the semantics is here so that the boundary can be stated)
  | metrics     -- `s.incReadBytes(readerMetrics.CountReset())`  (no effect on the batch)
  | stamp       -- `lastBatchFlush = time.Now()`  (the timer is an oracle)
  deriving Repr, DecidableEq

inductive BCond
  | size          -- `len(batch) >= batchSize`
  | sizeOrTimer   -- `len(batch) >= batchSize || time.Since(lastBatchFlush) >= autoFlush`
  deriving Repr, DecidableEq

/-- one loop: the statements before the loop that concern the batch, the loop body in front of its `if`,
the `if`'s condition and body, and the body of `if len(batch) > 0` after the loop -/
structure BLoop where
  pre : List BStmt
  start : Nat
  head : List BStmt
  cond : BCond
  flush : List BStmt
  tail : List BStmt
  deriving Repr, DecidableEq

/-- the loops as they stand in the source (a theorem in Props says the regenerated text parses to these) -/
def plainLoop : BLoop := ⟨[.fresh], 1, [.append], .size, [.send, .advance, .fresh, .metrics], [.send, .metrics]⟩
def timedLoop : BLoop := ⟨[.fresh], 1, [.append], .sizeOrTimer, [.send, .advance, .fresh, .metrics, .stamp], [.send, .metrics]⟩

/-- the same loops with the allocation after a flush replaced by `batch = batch[:0]` -/
def reuseLoop : BLoop := ⟨[.fresh], 1, [.append], .sizeOrTimer, [.send, .advance, .truncate, .metrics, .stamp], [.send, .metrics]⟩

/-- statement text (white space removed, as the translator prints it) → statement -/
def parseStmt (s : String) : Option BStmt :=
  if s = "batch=append(batch,readahead.Bytes())" then some .append
  else if s = "s.c<-extractor.InputBatch{Batch:batch,Source:sourceName,BatchStart:batchStart,}" then some .send
  else if s = "batchStart+=uint64(len(batch))" then some .advance
  else if s = "batch=make([]extractor.BString,0,batchSize)" || s = "batch:=make([]extractor.BString,0,batchSize)" then some .fresh
  else if s = "batch=batch[:0]" then some .truncate
  else if s = "s.incReadBytes(readerMetrics.CountReset())" then some .metrics
  else if s = "lastBatchFlush=time.Now()" then some .stamp
  else none

def parseCond (s : String) : Option BCond :=
  if s = "len(batch)>=batchSize" then some .size
  else if s = "len(batch)>=batchSize||time.Since(lastBatchFlush)>=autoFlush" then some .sizeOrTimer
  else none

/-- the translator's rendering of a loop: `(pre, start, loop condition, head, if condition, flush, tail condition, tail)` -/
structure LoopText where
  pre : List String
  start : Nat
  loopCond : String
  head : List String
  cond : String
  flush : List String
  tailCond : String
  tail : List String

def parseLoop (t : LoopText) : Option BLoop :=
  if t.loopCond ≠ "readahead.Scan()" || t.tailCond ≠ "len(batch)>0" then none else
  match t.pre.mapM parseStmt, t.head.mapM parseStmt, parseCond t.cond, t.flush.mapM parseStmt, t.tail.mapM parseStmt with
  | some p, some h, some c, some f, some tl => some ⟨p, t.start, h, c, f, tl⟩
  | _, _, _, _, _ => none

/-! ## the heap machine -/

structure HSt (α : Type) where
  heap : List (List (Option α))   -- backing arrays (length = capacity, `none` = never written)
  cur : Sl                         -- the variable `batch`
  start : Nat                      -- the variable `batchStart`
  sent : List (Sl × Nat)           -- the `InputBatch` values handed to the channel, in order

def arrayOf {α : Type} (heap : List (List (Option α))) (a : Nat) : List (Option α) := heap.getD a []

/-- Go's `append` of one element: in place while there is capacity, else a new, larger array -/
def appendOp {α : Type} (x : α) (s : HSt α) : HSt α :=
  if s.cur.len < s.cur.cap then
    { s with heap := s.heap.set s.cur.arr ((arrayOf s.heap s.cur.arr).set s.cur.len (some x)),
             cur := { s.cur with len := s.cur.len + 1 } }
  else
    let ncap := 2 * s.cur.len + 1
    { s with heap := s.heap ++ [((arrayOf s.heap s.cur.arr).take s.cur.len ++ [some x]) ++ List.replicate (ncap - s.cur.len - 1) none],
             cur := ⟨s.heap.length, s.cur.len + 1, ncap⟩ }

def exec {α : Type} (batchSize : Nat) (x : Option α) (s : HSt α) : BStmt → HSt α
  | .append => match x with
    | some v => appendOp v s
    | none => s
  | .send => { s with sent := s.sent ++ [(s.cur, s.start)] }
  | .advance => { s with start := s.start + s.cur.len }
  | .fresh => { s with heap := s.heap ++ [List.replicate batchSize none], cur := ⟨s.heap.length, 0, batchSize⟩ }
  | .truncate => { s with cur := { s.cur with len := 0 } }
  | .metrics => s
  | .stamp => s

def execs {α : Type} (batchSize : Nat) (x : Option α) (s : HSt α) (p : List BStmt) : HSt α :=
  p.foldl (exec batchSize x) s

def initH {α : Type} (l : BLoop) (batchSize : Nat) : HSt α :=
  execs batchSize none ⟨[], ⟨0, 0, 0⟩, l.start, []⟩ l.pre

def condHolds (c : BCond) (batchSize len : Nat) (timer : Bool) : Bool :=
  match c with
  | .size => decide (len ≥ batchSize)
  | .sizeOrTimer => decide (len ≥ batchSize) || timer

/-- one scanned line (`x.2` = the flush timer had expired when it was appended) -/
def stepH {α : Type} (l : BLoop) (batchSize : Nat) (s : HSt α) (x : α × Bool) : HSt α :=
  let s1 := execs batchSize (some x.1) s l.head
  if condHolds l.cond batchSize s1.cur.len x.2 then execs batchSize none s1 l.flush else s1

def finishH {α : Type} (l : BLoop) (batchSize : Nat) (s : HSt α) : HSt α :=
  if s.cur.len > 0 then execs batchSize none s l.tail else s

def runH {α : Type} (l : BLoop) (batchSize : Nat) (ls : List (α × Bool)) : HSt α :=
  finishH l batchSize (ls.foldl (stepH l batchSize) (initH l batchSize))

/-- what the holders of the sent batches read in heap `heap`: the elements of each slice and its `BatchStart` -/
def readSent {α : Type} (heap : List (List (Option α))) (sent : List (Sl × Nat)) : List (List (Option α) × Nat) :=
  sent.map fun p => ((arrayOf heap p.1.arr).take p.1.len, p.2)

/-- … at the very end (late consumption) -/
def lateRead {α : Type} (s : HSt α) : List (List (Option α) × Nat) := readSent s.heap s.sent

/-- `(line, number)` pairs a worker produces from what it reads (`BatchStart + idx`); unwritten cells never occur -/
def numbered {α : Type} (r : List (List (Option α) × Nat)) : List (Option α × Nat) :=
  r.flatMap fun p => p.1.zipIdx p.2

end Rare.C02.BatchH
