import Rare.Model.C06
import Rare.Model.C06Ctl
/-!
Model of the flag plumbing of `BuildBatcherFromArguments` (`cmd/helpers/extractorBuilder.go`): from the input flags
(`-f` `--follow`, `-F` `--reopen`, `-t` `--tail`, `--poll`, `-z` `--gunzip`, `-R` `--recursive`, `--readers`, `--batch`,
`--batch-buffer`) and the positional arguments to WHICH reader is built WITH WHICH options – or which usage error ends the
process with status 2 before anything is read.  Branch by branch, in the order of the code (the order decides which message
a run with several mistakes gets).
-/
namespace Rare.C06

structure Flags where
  follow : Bool        -- `-f`, `--follow`
  reopen : Bool        -- `-F`, `--reopen` (implies follow)
  tail : Bool          -- `-t`, `--tail`
  poll : Bool          -- --poll
  gunzip : Bool        -- `-z`, `--gunzip`
  recursive : Bool     -- `-R`, `--recursive`
  readers : Int        -- --readers (default 3)
  batch : Int          -- --batch (default 1000)
  batchBuffer : Int    -- --batch-buffer (default 2 × workers)
  deriving Repr, DecidableEq

inductive Usage
  | batchSize | batchBuffer | readers | pollNeedsFollow | tailNeedsFollow | gunzipStdin
  deriving Repr, DecidableEq

/-- the `logger.Fatalf(ExitCodeInvalidUsage, …)` message -/
def Usage.msg : Usage → String
  | .batchSize => "Batch size must be >= 1, is %d"
  | .batchBuffer => "Batch buffer must be >= 0, is %d"
  | .readers => "Must have at least 1 reader"
  | .pollNeedsFollow => "Follow (-f) must be enabled for --poll"
  | .tailNeedsFollow => "Follow (-f) must be enabled for --tail"
  | .gunzipStdin => "Cannot decompress (-z) with stdin"

inductive Input
  /-- usage error: exit status 2, nothing is opened -/
  | usage (u : Usage)
  /-- `OpenReaderToChan("<stdin>", os.Stdin, batch, batchBuffer)`; `warnFollow`: "Cannot follow a stdin stream" was logged -/
  | stdin (batch batchBuffer : Int) (warnFollow : Bool)
  /-- `TailFilesToChan(GlobExpand(args, recursive), batch, batchBuffer, reopen, poll, tail)`: every file at once, no
      `--readers` limit, NO decompression; `warnGunzip`: "Cannot combine -f and -z" was logged -/
  | tail (recursive : Bool) (batch batchBuffer : Int) (reopen poll tail : Bool) (warnGunzip : Bool)
  /-- `OpenFilesToChan(GlobExpand(args, recursive), gunzip, readers, batch, batchBuffer)` -/
  | files (recursive gunzip : Bool) (readers batch batchBuffer : Int)
  deriving Repr, DecidableEq

def dispatch (f : Flags) (args : List Path) : Input :=
  let follow := f.follow || f.reopen
  if f.batch < 1 then .usage .batchSize
  else if f.batchBuffer < 0 then .usage .batchBuffer
  else if f.readers < 1 then .usage .readers
  else if f.poll && !follow then .usage .pollNeedsFollow
  else if f.tail && !follow then .usage .tailNeedsFollow
  else if usesStdin args then
    if f.gunzip then .usage .gunzipStdin else .stdin f.batch f.batchBuffer follow
  else if follow then .tail f.recursive f.batch f.batchBuffer f.reopen f.poll f.tail f.gunzip
  else .files f.recursive f.gunzip f.readers f.batch f.batchBuffer

/-- the flag look-ups of urfave/cli as the generated function sees them -/
def Flags.B (f : Flags) (name : String) : Bool :=
  if name = "follow" then f.follow else if name = "reopen" then f.reopen else if name = "tail" then f.tail
  else if name = "poll" then f.poll else if name = "gunzip" then f.gunzip else if name = "recursive" then f.recursive
  else false

def Flags.I (f : Flags) (name : String) : Int :=
  if name = "readers" then f.readers else if name = "batch" then f.batch else if name = "batch-buffer" then f.batchBuffer
  else 0

/-- the decision in the vocabulary of the generated function: callee, evaluated arguments, warnings -/
def Input.toDecision : Input → Decision
  | .usage u => .fatal "ExitCodeInvalidUsage" u.msg
  | .stdin b bb w =>
    .ret "batchers.OpenReaderToChan" [.text "\"<stdin>\"", .text "os.Stdin", .i b, .i bb]
      (if w then ["Cannot follow a stdin stream, not a file"] else [])
  | .tail r b bb re po ta w =>
    .ret "batchers.TailFilesToChan" [.glob r, .i b, .i bb, .b re, .b po, .b ta]
      (if w then ["Cannot combine -f and -z"] else [])
  | .files r gz rd b bb => .ret "batchers.OpenFilesToChan" [.glob r, .b gz, .i rd, .i b, .i bb] []

/-- the process exit status a usage error gives (`ExitCodeInvalidUsage`) -/
def Input.exitsWith : Input → Option Nat
  | .usage _ => some 2
  | _ => none

end Rare.C06
