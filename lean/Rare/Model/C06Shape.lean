/-!
The shape of the Go code the C06 model (`Rare/Model/C06.lean`) was written against, as literal data:
every statement with its condition, in source order, white space removed.  `harness/extract/c06.go`
regenerates the same lists from /repo on every run (`Rare.Gen.C06`); `Props/C06.lean` proves them
equal, so an added/removed/reordered branch in these functions breaks a proof obligation.
Reading guide (code → model):

* `globExpand`: `if recursive && isDir(p)` → walk branch of `expandArg`; `filepath.Glob` error → literal
  (`.badPattern`); `len(expanded) > 0` → the matches; else the literal fallback.
* `walkRoot`/`isDir`: the oracle `FsOracle.walk p` is `filepath.Walk(p + "/")`, `isDir` is `os.Stat`.
* `openFileToReader`: open error → `none`; `gunzip` ∧ header error → log, `Seek(0)`, plain; else gzip reader.
* `buildBatcher`: usage checks (batch size, batch buffer, readers, `--poll` / `--tail` without follow), the stdin test
  `len(fileglobs)==0||fileglobs[0]=="-"`, usage check `-z` with stdin, follow ⇒ `TailFilesToChan`, else
  `OpenFilesToChan(GlobExpand(…))`: `Rare.C06.dispatch` (`Model/C06Dispatch.lean`), which `Props/C06.lean` proves equal to the
  FUNCTION regenerated from the body (`Gen.C06.buildBatcherFn`).
* `mainFn`: the message of the returned error is logged when non-empty, the process exits with the
  `ExitCoder`'s code.
-/
namespace Rare.C06.Shape

def mainFn : List String := ["stmt:err:=cliMain(os.Args...)", "if:err!=nil{", "if:msg:=err.Error();msg!=\"\"{", "do:logger.Print(msg)", "}", "if:v,ok:=err.(cli.ExitCoder);ok{", "do:os.Exit(v.ExitCode())", "}", "do:os.Exit(helpers.ExitCodeInvalidUsage)", "}"]

def globExpand : List String := ["stmt:c:=make(chanstring,10)", "go{", "range:paths{", "if:recursive&&isDir(p){", "call:filepath.Walk(walkRoot(p),func){", "if:err!=nil{", "return:err", "}", "if:!info.IsDir(){", "send:c<-walkPath", "}", "return:nil", "}", "}else{", "stmt:expanded,err:=filepath.Glob(p)", "if:err!=nil{", "do:logger.Printf(\"Patherror:%v;Reading%sasaplainpath\",err,p)", "send:c<-p", "}else{", "if:len(expanded)>0{", "range:expanded{", "send:c<-item", "}", "}else{", "send:c<-p", "}", "}", "}", "}", "do:close(c)", "}", "return:c"]

def walkRoot : List String := ["if:path==\"\"||os.IsPathSeparator(path[len(path)-1]){", "return:path", "}", "return:path+string(filepath.Separator)"]

def isDir : List String := ["if:fi,err:=os.Stat(path);err==nil&&fi.IsDir(){", "return:true", "}", "return:false"]

def openFileToReader : List String := ["stmt:baseFile,err:=os.Open(filename)", "if:err!=nil{", "return:nil,err", "}", "stmt:varfileio.ReadCloser=baseFile", "if:gunzip{", "stmt:zfile,err:=gzip.NewReader(file)", "if:err!=nil{", "do:logger.Printf(\"Gunziperrorforfile%s:%v;Readingasplainfile\",filename,err)", "do:baseFile.Seek(0,io.SeekStart)", "}else{", "stmt:file=zfile", "}", "}", "return:file,nil"]

def buildBatcher : List String := ["if:batchSize<1{", "do:logger.Fatalf(ExitCodeInvalidUsage,\"Batchsizemustbe>=1,is%d\",batchSize)", "}", "if:batchBuffer<0{", "do:logger.Fatalf(ExitCodeInvalidUsage,\"Batchbuffermustbe>=0,is%d\",batchBuffer)", "}", "if:concurrentReaders<1{", "do:logger.Fatalf(ExitCodeInvalidUsage,\"Musthaveatleast1reader\")", "}", "if:followPoll&&!follow{", "do:logger.Fatalf(ExitCodeInvalidUsage,\"Follow(-f)mustbeenabledfor--poll\")", "}", "if:followTail&&!follow{", "do:logger.Fatalf(ExitCodeInvalidUsage,\"Follow(-f)mustbeenabledfor--tail\")", "}", "if:len(fileglobs)==0||fileglobs[0]==\"-\"{", "if:gunzip{", "do:logger.Fatalln(ExitCodeInvalidUsage,\"Cannotdecompress(-z)withstdin\")", "}", "if:follow{", "do:logger.Println(\"Cannotfollowastdinstream,notafile\")", "}", "return:batchers.OpenReaderToChan(\"<stdin>\",os.Stdin,batchSize,batchBuffer)", "}else{", "if:follow{", "if:gunzip{", "do:logger.Println(\"Cannotcombine-fand-z\")", "}", "return:batchers.TailFilesToChan(dirwalk.GlobExpand(fileglobs,recursive),batchSize,batchBuffer,followReopen,followPoll,followTail)", "}else{", "return:batchers.OpenFilesToChan(dirwalk.GlobExpand(fileglobs,recursive),gunzip,concurrentReaders,batchSize,batchBuffer)", "}", "}"]

end Rare.C06.Shape
