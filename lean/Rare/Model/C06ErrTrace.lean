/-!
The happens-before rule "an input's failure is counted before the end of the inputs is signalled", as a check on
the event log of a REAL run of `batchers.OpenFilesToChan` (hooks `verifTrace`, build tag `verif`):

* `se`  (`src.err`)  – logged inside `incErrors`, by the goroutine that counts;
* `rl`  (`sema.rel`) – first statement of the reader goroutine's deferred block, before
  `<-sema; out.stopFileReading(name); wg.Done()`;
* `cw`  (`c.wait`)   – logged by the spawner right after `wg.Wait()` returned;
* `cc`  (`c.close`)  – logged right before `close(s.c)`.

Within one goroutine the log order is the program order.  `wg.Done()` of every reader comes after its `rl` entry
and `wg.Wait()` returns after all of them, so a log of the unchanged code has every `rl` before `cw`, and `cw`
before `cc`.  The rule the code has to obey on top of that: **no goroutine logs `se` after its own `rl`**.  Together
(`ErrTrace.check_sound`, Proofs/C06ErrTrace.lean): every `se` of the log precedes `cc` – whoever sees the closed
channel sees all the errors counted.  This is the `count`-before-`finish` guard of `Model/C06Pipe.lean`.
-/
namespace Rare.C06.ErrTrace

structure TEv where
  g : Nat            -- goroutine, numbered in order of first appearance
  kind : String
  src : Nat          -- index of the source name (or a large number when the event has none)
  deriving Repr, DecidableEq

def posOf (tr : List TEv) (k : String) : Option Nat := tr.findIdx? (fun e => e.kind == k)

/-- an `rl` of goroutine `g` later in the log -/
def laterRel (rest : List TEv) (g : Nat) : Bool := rest.any fun e => e.kind == "rl" && e.g == g

/-- every `se` is followed by the `rl` of its goroutine; every `rl` lies before position `w` -/
def checkFrom (w : Nat) : Nat → List TEv → Bool
  | _, [] => true
  | p, e :: rest =>
    (if e.kind == "rl" then decide (p < w) else if e.kind == "se" then laterRel rest e.g else true) &&
      checkFrom w (p + 1) rest

def check (tr : List TEv) : Bool :=
  match posOf tr "cw", posOf tr "cc" with
  | some w, some c => decide (w < c) && checkFrom w 0 tr
  | _, _ => false

/-- the reason a log is rejected (for the correspondence answer) -/
def verdict (tr : List TEv) : String :=
  match posOf tr "cw", posOf tr "cc" with
  | some w, some c =>
    if ¬ w < c then "close-before-wait"
    else if checkFrom w 0 tr then "ok"
    else if (tr.zipIdx.any fun p => p.1.kind == "rl" && decide (¬ p.2 < w)) then "release-after-wait"
    else "error-counted-after-release"
  | _, _ => "no-close"

def countKind (tr : List TEv) (k : String) : Nat := (tr.filter fun e => e.kind == k).length

end Rare.C06.ErrTrace
