import Rare.Model.C07
import Rare.Base.F64Str
/-!
`MatchNumerical` / `StatisticalAnalysis` (pkg/aggregation/numerical.go) over the kernel-checkable
binary64 model `Rare.F64` – the computation exactly as the Go code performs it on `float64`:

* `Sample(element)`: `strconv.ParseFloat(element, 64)` (`F64.parseFloat`: decimal / hex / `inf` / `nan` /
  underscores; a syntax or range error counts a parse error), then `Samplef`;
* `Samplef`: `samples++`, `mean += (val - oldMean) / float64(samples)`,
  `variance += (val - oldMean) * (val - mean)` – five IEEE operations, each correctly rounded once
  (`Numerical.samplef` of `Model/C07.lean` instantiated with `f64Ops`; amd64 does not fuse them);
  `val < min` / `val > max` are IEEE comparisons (false for NaN); `Min`/`Max` start at `+Inf` / `-Inf`
  (fix bda1842; they were `±MaxFloat64`, a sentinel that is also below / above the sample `±Inf`);
* `Variance()` = `variance / float64(samples-1)` for more than one sample, `StdDev()` = `math.Sqrt` of it;
* `Analyze()`: `sort.Float64s` / `sort.Sort(sort.Reverse(sort.Float64Slice))`, whose order `goLess` puts NaN
  before every number and treats `-0`/`+0` as equal.  Go's sort is not stable, so the model takes ANY
  arrangement that is sorted for `goLess` (`IsSortedF`); the executable `analyzeF` is one of them;
* `Median`, `Mode` (IEEE `!=`: every NaN starts a new run), `Quantile(p)` with
  `idx := int(float64(len) * p)` (`F64.toInt64`: amd64 semantics, NaN / out of range ↦ MinInt64) and the clamps.
-/
namespace Rare.C07
open Rare

/-- `math.MaxFloat64` = `0x7FEFFFFFFFFFFFFF`. -/
def maxF64 : F64 := F64.ofSM false 9218868437227405311

/-- `math.Inf(1)` / `math.Inf(-1)`: where `Min` / `Max` start. -/
def posInf : F64 := F64.inf false
def negInf : F64 := F64.inf true

def f64Ops : NumOps F64 :=
  { add := F64.add, sub := F64.sub, mul := F64.mul, div := F64.div,
    ofNat := fun n => F64.ofInt (n : Int),
    lt := F64.lt, zero := F64.zero false,
    maxVal := posInf, negMaxVal := negInf }

abbrev NumF := Numerical F64

/-- `NewNumericalAggregator`. -/
def NumF.new : NumF := Numerical.new f64Ops

/-- `Samplef(val)`. -/
def NumF.samplef (keep : Bool) (s : NumF) (val : F64) : NumF := Numerical.samplef f64Ops keep s val

/-- `Sample(element)`. -/
def NumF.sample (keep : Bool) (s : NumF) (element : Bytes) : NumF :=
  match F64.parseFloat element with
  | none => { s with parseErrors := s.parseErrors + 1 }
  | some v => NumF.samplef keep s v

/-- The aggregator after a history of raw sample strings. -/
def runF (keep : Bool) (h : List Bytes) : NumF := h.foldl (NumF.sample keep) NumF.new

/-- The aggregator after a list of `Samplef` calls. -/
def runFv (keep : Bool) (l : List F64) : NumF := l.foldl (NumF.samplef keep) NumF.new

/-- `Variance()`. -/
def NumF.varianceF (s : NumF) : F64 := s.varianceOf f64Ops

/-- `StdDev()`. -/
def NumF.stdDev (s : NumF) : F64 := F64.sqrt s.varianceF

/-- `sort.Float64Slice.Less` = `cmpLess` of `slices.Sort`: NaN sorts before every number. -/
def goLess (x y : F64) : Bool := F64.lt x y || (x.isNaN && !y.isNaN)

/-- The comparison functions of `Analyze`, as the `lt` of an operation table, so that `analyze` of
`Model/C07.lean` can be reused. -/
def f64SortOps : NumOps F64 := { f64Ops with lt := goLess }

/-- `Analyze()` with a (stable) merge sort. -/
def analyzeF (rev : Bool) (values : List F64) : List F64 := analyze f64SortOps rev values

/-- What `sort.Sort` guarantees by contract: `s` is an arrangement of `l` in which no later element is
`goLess` than an earlier one (reversed: the other way round). -/
def IsSortedF (rev : Bool) (s l : List F64) : Prop :=
  s.Perm l ∧ s.Pairwise (fun a b => (if rev then goLess a b else goLess b a) = false)

/-- `Median()`. -/
def medianF (ordered : List F64) : F64 := median (F64.zero false) ordered

/-- `idx := int(float64(len(s.orderedValues)) * p)`. -/
def quantileIdx (n : Nat) (p : F64) : Int := F64.toInt64 (F64.mul (F64.ofInt (n : Int)) p)

/-- `Quantile(p)`. -/
def quantileF (ordered : List F64) (p : F64) : Except String F64 :=
  quantileAt (F64.zero false) ordered (quantileIdx ordered.length p)

/-- `Mode()`: `val != currValue` is the IEEE comparison. -/
def modeF (ordered : List F64) : F64 := mode (F64.zero false) F64.eq ordered

/-- Same float up to the sign of zero and the identity of NaNs – the equivalence of `goLess`. -/
def sameF (x y : F64) : Bool := F64.eq x y || (x.isNaN && y.isNaN)

end Rare.C07
