import Rare.Model.C10State
/-!
# What the translator reads out of /repo for C10 (round 4b) – the types and their semantics

`harness/extract/c10.go` regenerates `Rare/Gen/C10.lean` on every run.  It emits *data* in the types below (a
small statement language for the closure of `smartDateParseWrapper`'s cache mode, the resolution of
`GetMatch` by the two wrapping contexts, the `InStaticAnalysis` answer of every context type, every
`…Pool.Get()` site with what is reset afterwards); this file gives the data its meaning, and `Props/C10.lean`
states that the hand model (`Model/C10State`, `Model/C10`, `Model/Expr/Comp`) is what the data means.
-/
namespace Rare.C10
open Rare.Expr

/-! ## `monitorContext` / `EvalStaticStage` -/

/-- Run a stage against a counting context whose `GetMatch` / `GetKey` are `gm` / `gk`
    (`(keyLookups before, argument) ↦ (keyLookups after, answer)`). -/
def runMonitor {α : Type} (gm : Nat → Int → Nat × Bytes) (gk : Nat → Bytes → Nat × Bytes) :
    Comp α → Nat → Except String (α × Nat)
  | .ret a, n => .ok (a, n)
  | .getMatch i k, n => runMonitor gm gk (k (gm n i).2) (gm n i).1
  | .getKey s k, n => runMonitor gm gk (k (gk n s).2) (gk n s).1
  | .panic m, _ => .error m

/-- `EvalStaticStage`: `var monitor monitorContext` (counter `init`), `ret = stage(&monitor)`, `ok = okf keyLookups`. -/
def evalStatic {α : Type} (gm : Nat → Int → Nat × Bytes) (gk : Nat → Bytes → Nat × Bytes) (init : Nat)
    (okf : Nat → Bool) (c : Comp α) : Except String (α × Bool) :=
  match runMonitor gm gk c init with
  | .ok (a, n) => .ok (a, okf n)
  | .error m => .error m

/-! ## `GetMatch` of the wrapping contexts -/

/-- Where a wrapping context takes the answer of `GetMatch(idx)` from. -/
inductive MatchRes
  | parent (idx : Int)     -- `s.parent.GetMatch(idx)` / `s.sub.GetMatch(idx)`
  | val (i : Nat)          -- `s.vals[idx]`
  | arg (i : Nat)          -- `s.args[idx](s.sub)`: the call's argument stage, evaluated in the caller's context
  | empty                  -- `""`
  | other (s : String)
  deriving Repr, DecidableEq

/-- Where `GetKey` goes. -/
inductive KeyRes
  | parent                 -- `s.parent.GetKey(k)` / `s.sub.GetKey(name)`
  | other (s : String)
  deriving Repr, DecidableEq

/-- What `SubObj.ctx` answers for a resolution. -/
def SubObj.resolve (o : SubObj) : MatchRes → Bytes
  | .parent i => o.parent.getMatch i
  | .val 0 => o.v0
  | .val 1 => o.v1
  | _ => []

/-! ## `InStaticAnalysis` of context types -/

/-- The `InStaticAnalysis()` method of a context type. -/
inductive StaticAnswer
  | const (b : Bool)       -- `return true`
  | forward                -- `return InStaticAnalysis(s.<wrapped context>)`
  | absent                 -- no such method: `expressions.InStaticAnalysis` answers its default
  | other (s : String)
  deriving Repr, DecidableEq

/-- A type with `GetMatch(int) string` and `GetKey(string) string`. -/
structure CtxImpl where
  name : String
  file : String
  /-- has a field of type `KeyBuilderContext` (it evaluates stages on behalf of another context) -/
  wraps : Bool
  static : StaticAnswer
  deriving Repr, DecidableEq

/-- `expressions.InStaticAnalysis(ctx)` where `ctx` is a chain of contexts, outermost first, each wrapping the next
    (`dflt` = what the function answers for a context that is not `StaticAnalysisAware`). -/
def inStaticChain (dflt : Bool) : List StaticAnswer → Bool
  | [] => dflt
  | .const b :: _ => b
  | .absent :: _ => dflt
  | .other _ :: _ => dflt
  | .forward :: rest => inStaticChain dflt rest

/-! ## Pool sites -/

inductive Reset
  | full (fields : List String)       -- `*obj = T{f: …}`: every field (those not named: zero)
  | fields (fs : List String)         -- `obj.f = …` lines directly after `Get`
  | none
  deriving Repr, DecidableEq

/-- One `obj := <pool>.Get()` in the expression packages. -/
structure PoolSite where
  file : String
  fn : String
  pool : String
  objType : String
  /-- the fields of `objType` -/
  typeFields : List String
  /-- fields given by the pool's `newer` function from values fixed when the pool is built -/
  fixedFields : List String
  /-- the statement after `Get` is `defer <pool>.Return(obj)` -/
  deferReturn : Bool
  reset : Reset
  deriving Repr, DecidableEq

/-- Nothing an earlier user left in the object can be read: every field is overwritten after `Get` (or is the same
    in every object of the pool), and the object goes back when the evaluation ends. -/
def PoolSite.resetsAll (s : PoolSite) : Bool :=
  s.deferReturn &&
    match s.reset with
    | .full _ => true
    | .fields fs => s.typeFields.all fun f => fs.contains f || s.fixedFields.contains f
    | .none => false

/-- `keyBuilderToFunction`'s closure with the pooled object explicit; `reset` = the `subCtx.sub = kbc` line is there
    (`args` is the same in every object of the call site's pool: `newer` takes it from the builder's arguments). -/
def evalArgsPooledR (reset : Bool) (stale : LazyObj) (args : List Stage) (body : Stage) (ctx : Ctx) :
    Except String Bytes × LazyObj :=
  let o : LazyObj := if reset then { stale with sub := ctx } else stale
  ((withArgs args body).run o.sub, o)

/-! ## The closure of `smartDateParseWrapper`, cache mode, as a program -/

inductive COp
  | evalDate          -- `strTime := dateStage(context)`
  | cellAtomic        -- `format := &atomicFormat` / `format = &atomicFormat`
  | cellStatic        -- `format = &staticFormat`
  | load              -- `liveFormat := format.Load().(string)`
  | declErr           -- `var err error`
  | detect            -- `liveFormat, err = dateparse.ParseFormat(strTime)`
  | store             -- `format.Store(liveFormat)`
  | parse             -- `val, err := time.ParseInLocation(liveFormat, strTime, tz)`
  | touch (i : Int)   -- `context.GetMatch(i)` as a statement (the answer is dropped)
  | other (s : String)
  deriving Repr, DecidableEq

inductive CCond
  | strEmpty          -- `strTime == ""`
  | liveEmpty         -- `liveFormat == ""`
  | errNonNil         -- `err != nil`
  | strNeEmptyTime    -- `strTime != emptyTime`
  | inStatic          -- `InStaticAnalysis(context)`
  | notConstTime      -- `!constTime`
  | other (s : String)
  deriving Repr, DecidableEq

/-- A statement list; every constructor carries the rest of its block. -/
inductive CProg
  | nil
  | op (o : COp) (next : CProg)
  | ifS (c : CCond) (thn next : CProg)
  | retErr                       -- `return ErrorParsing`
  | retFmt                       -- `return f(val)`
  | bad (s : String)
  deriving Repr, DecidableEq

/-- The variables of the closure during one call. -/
structure CVars (L : Type) where
  str : Bytes := []
  useStatic : Bool := false      -- which cell `format` points to
  live : Option L := none        -- `liveFormat` (`none` = "")
  err : Bool := false
  val : Option Bytes := none     -- `f(val)` when the last parse succeeded
  touched : List Int := []       -- the indices the context was touched with, in order
  st : TimeSt L

inductive CRes (L : Type)
  | ret (v : Bytes) (st : TimeSt L) (touched : List Int)
  | fall (vars : CVars L)
  | stuck

def CVars.cell {L : Type} (v : CVars L) : Option L := if v.useStatic then v.st.static else v.st.real

def evalCond {L : Type} (emptyTime : Bytes) (constTime static : Bool) (v : CVars L) : CCond → Option Bool
  | .strEmpty => some (v.str = [])
  | .liveEmpty => some v.live.isNone
  | .errNonNil => some v.err
  | .strNeEmptyTime => some (v.str ≠ emptyTime)
  | .inStatic => some static
  | .notConstTime => some (!constTime)
  | .other _ => none

def execOp {L : Type} (lib : TimeLib L) (date : Bytes) (v : CVars L) : COp → Option (CVars L)
  | .evalDate => some { v with str := date }
  | .cellAtomic => some { v with useStatic := false }
  | .cellStatic => some { v with useStatic := true }
  | .load => some { v with live := v.cell }
  | .declErr => some { v with err := false }
  | .detect =>
    match lib.detect v.str with
    | some l => some { v with live := some l, err := false }
    | none => some { v with live := none, err := true }
  | .store =>
    match v.live with
    | some l => some { v with st := if v.useStatic then { v.st with static := some l } else { v.st with real := some l } }
    | none => none      -- storing "" does not happen in the program as it is; not given a meaning
  | .parse =>
    match v.live with
    | some l =>
      match lib.parse l v.str with
      | some r => some { v with val := some r, err := false }
      | none => some { v with val := none, err := true }
    | none => none      -- parsing with the layout "": not given a meaning
  | .touch i => some { v with touched := v.touched ++ [i] }
  | .other _ => none

/-- One call of the closure: `date` is what `dateStage(context)` answers, `static` what `InStaticAnalysis(context)`
    says, `constTime` the second result of `EvalStaticStage(dateStage)` when the stage was built. -/
def execProg {L : Type} (lib : TimeLib L) (emptyTime : Bytes) (constTime static : Bool) (date : Bytes) : CProg → CVars L → CRes L
  | .nil, v => .fall v
  | .op o next, v =>
    match execOp lib date v o with
    | some v' => execProg lib emptyTime constTime static date next v'
    | none => .stuck
  | .ifS c thn next, v =>
    match evalCond emptyTime constTime static v c with
    | some true =>
      match execProg lib emptyTime constTime static date thn v with
      | .fall v' => execProg lib emptyTime constTime static date next v'
      | r => r
    | some false => execProg lib emptyTime constTime static date next v
    | none => .stuck
  | .retErr, v => .ret ErrorParsing v.st v.touched
  | .retFmt, v =>
    match v.val with
    | some r => .ret r v.st v.touched
    | none => .stuck
  | .bad _, _ => .stuck

/-- The closure as a step function: answer, cells, touches (`none`: the program is not one this semantics covers). -/
def cacheStepOf {L : Type} (p : CProg) (lib : TimeLib L) (emptyTime : Bytes) (constTime static : Bool) (date : Bytes)
    (st : TimeSt L) : Option (Bytes × TimeSt L × List Int) :=
  match execProg lib emptyTime constTime static date p { st := st } with
  | .ret v st' t => some (v, st', t)
  | _ => none

/-- The closure as it is read now (1dba502). -/
def cacheClosureExpected : CProg :=
  .op .evalDate <|
  .ifS .strEmpty .retErr <|
  .op .cellAtomic <|
  .ifS .inStatic (.op .cellStatic <| .ifS .notConstTime (.op (.touch (-1)) .nil) .nil) <|
  .op .load <|
  .ifS .liveEmpty
    (.op .declErr <| .op .detect <| .ifS .errNonNil .retErr <| .ifS .strNeEmptyTime (.op .store .nil) .nil) <|
  .op .parse <|
  .ifS .errNonNil .retErr <|
  .retFmt

end Rare.C10
