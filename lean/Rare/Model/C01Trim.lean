import Rare.Spec.C20
import Rare.Model.Expr.Build
/-!
# C01: `expressions.Truthy` = `strings.TrimSpace(s) != ""`, byte for byte

Go 1.23 `strings.TrimSpace`, mirrored loop by loop:

    start := 0
    for ; start < len(s); start++ {
        c := s[start]
        if c >= utf8.RuneSelf { return TrimFunc(s[start:], unicode.IsSpace) }   -- non-ASCII: slow path
        if asciiSpace[c] == 0 { break }
    }
    stop := len(s)
    for ; stop > start; stop-- {
        c := s[stop-1]
        if c >= utf8.RuneSelf { return TrimRightFunc(s[start:stop], unicode.IsSpace) }
        if asciiSpace[c] == 0 { break }
    }
    return s[start:stop]

`TrimFunc(s, f) = TrimRightFunc(TrimLeftFunc(s, f), f)`; `TrimLeftFunc` ranges over the string (`for i, r :=
range s`: `utf8.DecodeRuneInString`, an invalid byte is U+FFFD of width 1 – `Rare.C20.decode1`);
`TrimRightFunc` walks backwards with `utf8.DecodeLastRuneInString` (`decodeLast` below: at most
`UTFMax` bytes back to a rune start, decode forwards from there, U+FFFD of width 1 unless that rune ends
exactly at the end).  `unicode.IsSpace`: the Latin-1 switch and the `White_Space` range table.
-/
namespace Rare.C01
open Rare.C20 (decode1 runeError)

/-- `asciiSpace[c] == 1`: `'\t', '\n', '\v', '\f', '\r', ' '` -/
def asciiSpaceB (c : UInt8) : Bool := c == 9 || c == 10 || c == 11 || c == 12 || c == 13 || c == 32

/-- `unicode.IsSpace(r)`: for `r ≤ MaxLatin1` the switch `'\t' '\n' '\v' '\f' '\r' ' ' U+0085 U+00A0`, otherwise
    membership in `unicode.White_Space` (U+1680, U+2000–U+200A, U+2028, U+2029, U+202F, U+205F, U+3000). -/
def isSpaceR (r : Nat) : Bool :=
  if r ≤ 0xFF then r == 9 || r == 10 || r == 11 || r == 12 || r == 13 || r == 32 || r == 0x85 || r == 0xA0
  else r == 0x1680 || (0x2000 ≤ r && r ≤ 0x200a) || r == 0x2028 || r == 0x2029 || r == 0x202f || r == 0x205f ||
    r == 0x3000

/-- `TrimLeftFunc(s, unicode.IsSpace)`: `indexFunc(s, f, false)` ranges over the runes; `-1` (every rune a
    space) gives `""`.  First argument = fuel (`len(s)` suffices). -/
def trimLeftF : Nat → Bytes → Bytes
  | 0, s => s
  | _ + 1, [] => []
  | f + 1, b :: tl =>
    let d := decode1 (b :: tl)
    if isSpaceR d.1 then trimLeftF f (tl.drop (d.2 - 1)) else b :: tl

def trimLeftFunc (s : Bytes) : Bytes := trimLeftF s.length s

/-- `utf8.RuneStart(b)`: `b&0xC0 != 0x80` -/
def runeStart (b : UInt8) : Bool := !(0x80 ≤ b.toNat && b.toNat < 0xC0)

/-- the loop `for start--; start >= lim; start-- { if RuneStart(s[start]) { break } }` of
    `DecodeLastRuneInString`, entered with the decremented `start`; first argument = fuel (4 suffices). -/
def scanBack (s : Bytes) (lim : Int) : Nat → Int → Int
  | 0, start => start
  | n + 1, start =>
    if start ≥ lim then
      if runeStart (s.getD start.toNat 0) then start else scanBack s lim n (start - 1)
    else start

/-- `start` of `DecodeLastRuneInString` after `lim := max(end-UTFMax, 0)`, the backward loop and
    `if start < 0 { start = 0 }` -/
def lastStart (s : Bytes) : Int :=
  let stop : Int := s.length
  let lim : Int := if stop - 4 < 0 then 0 else stop - 4
  let start := scanBack s lim 5 (stop - 2)
  if start < 0 then 0 else start

/-- `utf8.DecodeLastRuneInString(s)` -/
def decodeLast (s : Bytes) : Nat × Nat :=
  let stop := s.length
  if stop = 0 then (runeError, 0)
  else
    let last := s.getD (stop - 1) 0
    if last.toNat < 0x80 then (last.toNat, 1)
    else
      let start := lastStart s
      let d := decode1 (s.drop start.toNat)
      if start + (d.2 : Int) ≠ (stop : Int) then (runeError, 1) else d

/-- `lastIndexFunc(s, unicode.IsSpace, false)`; `none` = `-1`.  First argument = fuel. -/
def lastIndexNotSpace : Nat → Bytes → Option Nat
  | 0, _ => none
  | f + 1, s =>
    if s.length = 0 then none
    else
      let d := decodeLast s
      let i := s.length - d.2
      if !isSpaceR d.1 then some i else lastIndexNotSpace f (s.take i)

/-- `TrimRightFunc(s, unicode.IsSpace)` -/
def trimRightFunc (s : Bytes) : Bytes :=
  match lastIndexNotSpace (s.length + 1) s with
  | some i =>
    if (s.getD i 0).toNat ≥ 0x80 then s.take (i + (decode1 (s.drop i)).2) else s.take (i + 1)
  | none => s.take 0

/-- the second loop of `TrimSpace` on `s[start:stop]`; first argument = fuel -/
def trimBack : Nat → Bytes → Bytes
  | 0, s => s
  | f + 1, s =>
    match s.getLast? with
    | none => []
    | some c =>
      if c.toNat ≥ 0x80 then trimRightFunc s
      else if asciiSpaceB c then trimBack f s.dropLast
      else s

/-- `strings.TrimSpace(s)` -/
def trimSpace : Bytes → Bytes
  | [] => []
  | c :: r =>
    if c.toNat ≥ 0x80 then trimRightFunc (trimLeftFunc (c :: r))
    else if asciiSpaceB c then trimSpace r
    else trimBack (r.length + 1) (c :: r)

/-- `expressions.Truthy(s)` as the Go code computes it. -/
def truthyGo (s : Bytes) : Bool := !(trimSpace s).isEmpty

end Rare.C01
