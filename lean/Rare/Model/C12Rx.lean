import Rare.Spec.C12
import Rare.Model.C02Rx
/-!
Seam C12 / C02: a dissect pattern as an expression of C02's model of Go's regexp engine
(`Model/C02Rx.lean`: `Re`, priority-ordered `den`, backtracking `mk`, `findSubmatchIndex`).

`lit₀ %{k₁}lit₁ … %{kₙ}litₙ`  ↦  `lit₀ (.*?) lit₁ (.*?) … litₙ`   (with `(?s)`: `.` is any byte)

* a captured token is a numbered group around a LAZY loop over "any byte", a skipped token the
  same loop without the group;
* a token without trailing literal (only the last token of a compiled pattern) is the GREEDY loop.
-/
namespace Rare.C12
open Rare.C02.Rx

/-- `(?s).` – any byte -/
def anyByte : Re := .cls true []

/-- the literal `u`, then `k` -/
def litRe : Bytes → Re → Re
  | [], k => k
  | b :: bs, k => .cat (.cls false [(b, b)]) (litRe bs k)

/-- tokens from group number `n` on -/
def toksRe : List Tok → Nat → Re
  | [], _ => .eps
  | t :: ts, n =>
    let body : Re := .star (t.lit == []) anyByte
    .cat (if t.skip then body else .grp n body) (litRe t.lit (toksRe ts (if t.skip then n else n + 1)))

/-- the regular expression a dissect pattern stands for -/
def patRe (p : Pat) : Re := litRe p.pre (toksRe p.toks 1)

/-- number of groups of `patRe` -/
def groupsOf (ts : List Tok) : Nat := (ts.filter fun t => !t.skip).length

/-- only the LAST token may lack a trailing literal (what `CompileEx` enforces: "sequential token") -/
def midLits : List Tok → Bool
  | [] => true
  | [_] => true
  | t :: ts => t.lit != [] && midLits ts

/-- `regexp.FindSubmatchIndex` of C02's model on the pattern's expression, `none` = nil -/
def rxDissect (p : Pat) (line : Bytes) : Option (List Int) :=
  match Rare.C02.Rx.findSubmatchIndex line (patRe p) (groupsOf p.toks) with
  | [] => none
  | r => some r


/-! ### how the command line chooses the matcher (`cmd/helpers/extractorBuilder.go`) -/

/-- what `BuildMatcherFromArguments` builds from the flags -/
inductive MatcherChoice where
  /-- `--match` and `--dissect` together: error "match and dissect conflict" -/
  | conflict
  /-- `dissect.CompileEx(expr, ignoreCase)` -/
  | dissect (expr : Bytes) (ignoreCase : Bool)
  /-- `fastregex.CompileEx(expr, posix)` -/
  | regex (expr : Bytes) (posix : Bool)
  /-- neither flag: `matchers.AlwaysMatch` -/
  | always
  deriving Repr, DecidableEq

/-- `(?i)` -/
def icPrefix : Bytes := [40, 63, 105, 41]

/-- the `switch` of `BuildMatcherFromArguments`: `-I` reaches dissect as `CompileEx`'s second
argument and the regex as a `(?i)` in front of the expression -/
def buildMatcher (matchSet dissectSet : Bool) (matchExpr dissectExpr : Bytes) (posix ignoreCase : Bool) :
    MatcherChoice :=
  if matchSet && dissectSet then .conflict
  else if dissectSet then .dissect dissectExpr ignoreCase
  else if matchSet then .regex (if ignoreCase then icPrefix ++ matchExpr else matchExpr) posix
  else .always

end Rare.C12
