/-!
# The reader goroutines of `OpenFilesToChan` / `TailFilesToChan` as programs of bookkeeping actions (C05)

`Model/C05Close.lean` abstracts a reader's exit block to a program counter.  Here the whole reader goroutine is a
PROGRAM – the list of the actions it performs on the state the status line shows, in program order:

    open failed:   incErrors                                   | deferred exit block
    open worked:   startFileReading, (send batch, incReadBytes)*   | deferred exit block

(`pkg/extractor/batchers/fileBatcher.go`, `tailBatcher.go`, `batcher.go: syncReaderToBatcher[WithTimeFlush]`), and the
deferred exit block is NOT written down here: `exitOf` reads it off the regenerated sync skeleton (`Gen.Skeleton`),
so the programs the theorems speak about end the way the source ends.  The spawner's `wg.Wait(); out.close()` is the
step `close`, enabled when every reader has executed `wg.Done()`.  Every interleaving of the readers' actions is a
run (blocking sends / the semaphore only remove interleavings, which is harmless for the safety statements made).

What `StatusString` / `ReadErrors` / `ReadBytes` show is a fold over the actions executed so far (`statOf`), faithful
to `stopFileReading` (removes and counts only a source that is listed as active).
-/
namespace Rare.C05Prog

inductive Act where
  | opened            -- out.startFileReading(name)
  | err               -- out.incErrors()
  | send (b : Nat)    -- s.c <- batch (b = the bytes read for it)
  | inc (b : Nat)     -- s.incReadBytes(b)
  | stop              -- out.stopFileReading(name)
  | done              -- wg.Done()
  deriving DecidableEq, Repr

/-- A reader goroutine: what it has executed (in order) and what it still has to execute. -/
structure R where
  exec : List Act
  todo : List Act

structure St where
  rs : List R
  closed : Bool := false

inductive Step : St → St → Prop
  | adv (s : St) (i : Nat) (h : i < s.rs.length) (a : Act) (rest : List Act) : s.rs[i].todo = a :: rest →
      Step s { s with rs := s.rs.set i ⟨s.rs[i].exec ++ [a], rest⟩ }
  | close (s : St) : s.closed = false → (∀ r ∈ s.rs, Act.done ∈ r.exec) → Step s { s with closed := true }

inductive Reach (s0 : St) : St → Prop
  | refl : Reach s0 s0
  | step {s s'} : Reach s0 s → Step s s' → Reach s0 s'

def init (ps : List (List Act)) : St := { rs := ps.map fun p => ⟨[], p⟩ }

/-- The status contribution of one source. -/
structure RStat where
  active : Bool := false
  read : Nat := 0
  errs : Nat := 0
  bytes : Nat := 0
  sent : Nat := 0
  deriving DecidableEq, Repr

def RStat.step (t : RStat) : Act → RStat
  | .opened => { t with active := true }
  | .stop => if t.active then { t with active := false, read := t.read + 1 } else t
  | .err => { t with errs := t.errs + 1 }
  | .inc b => { t with bytes := t.bytes + b }
  | .send b => { t with sent := t.sent + b }
  | .done => t

def statOf (l : List Act) : RStat := l.foldl RStat.step {}

/-- The observables: files listed as active, `readCount`, `errorCount`, `readBytes`; and the bytes handed to the channel. -/
def active (s : St) : Nat := (s.rs.filter fun r => (statOf r.exec).active).length
def readCount (s : St) : Nat := (s.rs.map fun r => (statOf r.exec).read).sum
def errors (s : St) : Nat := (s.rs.map fun r => (statOf r.exec).errs).sum
def readBytes (s : St) : Nat := (s.rs.map fun r => (statOf r.exec).bytes).sum
def sentBytes (s : St) : Nat := (s.rs.map fun r => (statOf r.exec).sent).sum

/-- A source: `none` = the open fails, `some bs` = it is read as batches of `bs` bytes. -/
abbrev Src := Option (List Nat)

def body : Src → List Act
  | none => [.err]
  | some bs => .opened :: bs.flatMap fun b => [.send b, .inc b]

/-- The program of a reader goroutine whose deferred exit block is `exit`. -/
def prog (exit : List Act) (f : Src) : List Act := body f ++ exit

/-- The deferred exit block of a regenerated sync skeleton: the tokens between the first `defer{` and its `}`. -/
def exitOf (skel : List String) : List Act :=
  ((skel.dropWhile (· != "defer{")).drop 1 |>.takeWhile (· != "}")).filterMap fun t =>
    if t == "call:out.stopFileReading" then some Act.stop else if t == "call:wg.Done" then some Act.done else none

def present (fs : List Src) : Nat := (fs.filter Option.isSome).length
def missing (fs : List Src) : Nat := (fs.filter Option.isNone).length
def bytesOfSrc : Src → Nat
  | none => 0
  | some bs => bs.sum
def totalBytes (fs : List Src) : Nat := (fs.map bytesOfSrc).sum

end Rare.C05Prog
