import Rare.Model.C14
/-!
C14, `cmd/reduce.go` table path: the row buffer `rowBuf` of the render callback as an explicit object (what a row shows
when the buffer it is built in is not fresh).  Separate from `Model/C14.lean` because only the reduce-table theorems need it.
-/
namespace Rare.C14
open Rare Rare.C20

/-! ### the row buffer of the reduce table (`rowBuf`), as an explicit object

`Reduce.rowCells` (Model/C14.lean) is what one iteration of the row loop hands to `WriteRow` BECAUSE the loop allocates
`rowBuf := make([]string, aggr.ColCount())` per group.  `fillRow` is the same iteration on an arbitrary
buffer: `rowBuf[idx] = …` overwrites only as many group cells as the key has parts (none for the empty key),
`copy(rowBuf[ng:], data)` only as many data cells as there are data values; every other cell keeps what the
buffer held.  (`reduce_fresh_buffer`: on a fresh buffer this IS `rowCells`; `reduce_shared_buffer_counterexample`:
on a buffer shared between rows it is not.) -/

/-- the cells of `rowBuf` after one iteration of the row loop that started from `buf` -/
def Reduce.fillRow (env : Env) (r : Reduce) (buf : List Bytes) (key : Bytes) (data : List Bytes) : List Bytes :=
  let ng := r.gnames.length
  let parts := (groupParts key).take ng
  buf.zipIdx.map fun (old, j) =>
    if j < ng then (match parts[j]? with | some p => wrap env cBrightWhite p | none => old)
    else match data[j - ng]? with | some x => x | none => old

/-- the rows a render callback hands to `WriteRow` when ONE buffer (initially `buf`) is used for all of them:
each row starts from the cells the previous one left -/
def Reduce.rowsShared (env : Env) (r : Reduce) : List Bytes → List (Bytes × List Bytes) → List (List Bytes)
  | _, [] => []
  | buf, g :: rest => let row := r.fillRow env buf g.1 g.2; row :: Reduce.rowsShared env r row rest

end Rare.C14
