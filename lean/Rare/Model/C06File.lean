import Rare.Model.C06
import Rare.Model.C06Inflate
/-!
A readable regular file as a FUNCTION OF ITS BYTES: what `compress/gzip` answers for it (`FileOracle.gzDecoded`,
`gzFails`) is computed by the model of the gzip reader (`Gz.gunzip`, `Model/C06Inflate.lean`) instead of being handed in.
The driver builds every file of the `open` / `run` / `runtree` / `errsched` / `errtrace` ops this way, so those ops compare
rare's `-z` output with the MODEL's decompression of the file's bytes.
-/
namespace Rare.C06

/-- the bytes the gzip reader delivers for a file with this content, and whether it ends with an error
    (`([], false)` when `gzip.NewReader` does not accept the file: never looked at then) -/
def gzAnswers (content : Bytes) : Bytes × Bool :=
  match Gz.gunzip content with
  | some p => p
  | none => ([], false)

/-- a readable regular file with this content -/
def FileOracle.ofBytes (content : Bytes) : FileOracle :=
  { canOpen := true, isDir := false, content := content, gzProbed := 0,
    gzDecoded := (gzAnswers content).1, gzFails := (gzAnswers content).2 }

/-- the gzip answers of an oracle replaced by the model's -/
def FileOracle.withModelGzip (f : FileOracle) : FileOracle :=
  { f with gzDecoded := (gzAnswers f.content).1, gzFails := (gzAnswers f.content).2 }

end Rare.C06
