import Rare.Model.C19F64Math
/-!
C19, round 4: the HIDDEN STATE of the `{! …}` stage (`kfMath`, funcsMath.go).

The closure `kfMath` returns captures two things: the compiled formula (`expr`, never written after the
builder returned) and `ctxPool`, a `slicepool.ObjectPool[keyBuilderContextWrapper]` of five wrapper
objects `{sub KeyBuilderContext; errors int}`.  Every evaluation

    mathCtx := ctxPool.Get()                      -- Gen.C19.kfMathClosure, statement 0
    defer ctxPool.Return(mathCtx)                 --                                  1
    *mathCtx = keyBuilderContextWrapper{sub: ctx, errors: 0}                          2
    val := expr.Eval(mathCtx)                     -- look-ups go through mathCtx.sub, failures are counted in mathCtx.errors   3
    if mathCtx.errors > 0 { return ErrorNum }                                         4
    return strconv.FormatFloat(val, 'f', -1, 64)                                      5

takes an object whose fields are whatever its previous user left in them.  This file makes that state
explicit:

* `Obj`, `Pool` (`ObjectPool.pool`, a stack: `Get` takes the last element or makes a new object when
  the pool is empty, `Return` appends), `evalW` – `expr.Eval(mathCtx)` threading the wrapper object,
  reading through ITS `sub` field and counting in ITS `errors` field;
* `stageRun reset` – one evaluation; `reset = false` is the variant that does not write `errors: 0`
  (the counterexample of `Props/C19.lean`); `runHistory` – a sequence of evaluations through one stage;
* `Sys`, `step`, `run` – several goroutines evaluating through ONE stage at the same time: a heap of
  wrapper objects (addresses), the pool as a list of addresses, one program counter per goroutine, and
  a scheduler choosing which goroutine takes its next memory-access step (`Get` and `Return` are
  atomic: `ObjectPool` takes its mutex, `Gen.Access.objectPool`).
-/
namespace Rare.C19.Pool
open Rare Rare.F64 Rare.C19 Rare.C19.IEEE Rare.Expr

/-- A `keyBuilderContextWrapper` as it lies in the pool. -/
structure Obj where
  sub : Ctx
  errors : Nat

/-- `new(keyBuilderContextWrapper)`: `sub` is nil (never read before it is overwritten), `errors` 0. -/
def Obj.fresh : Obj := ⟨⟨fun _ => [], fun _ => []⟩, 0⟩

/-- `ObjectPool.pool` -/
abbrev Pool := List Obj

/-- `NewObjectPool(size)` -/
def Pool.new (size : Nat) : Pool := List.replicate size Obj.fresh

/-- `Get`: the last object, or a new one when the pool is empty. -/
def Pool.get (p : Pool) : Obj × Pool :=
  match p.getLast? with
  | none => (Obj.fresh, [])
  | some o => (o, p.dropLast)

/-- `Return` -/
def Pool.ret (p : Pool) (o : Obj) : Pool := p ++ [o]

/-- `keyBuilderContextWrapper.GetKey/GetMatch` on the object `o`: the text comes from `o.sub`, a failure
    of `strconv.ParseFloat` is counted in `o.errors` and reads as 0. -/
def Obj.look (o : Obj) (text : Ctx → Bytes) : F64 × Obj :=
  let r := conv (text o.sub)
  (r.1, { o with errors := o.errors + r.2 })

/-- `expr.Eval(mathCtx)` (expression.go) with the wrapper object threaded through. -/
def evalW (L : Libm) : C19.Expr F64 → Obj → F64 × Obj
  | .val v, o => (v, o)
  | .named n, o => o.look (fun c => c.getKey n)
  | .idx i, o => o.look (fun c => c.getMatch i)
  | .un m e, o =>
    let r := evalW L e o
    ((arith L).un m r.1, r.2)
  | .bin op l r, o =>
    let a := evalW L l o
    let b := evalW L r a.2
    ((arith L).bin op a.1 b.1, b.2)

/-- One evaluation of the stage on `ctx`: output and the pool afterwards.  `reset = false` leaves the
    `errors` field of the pooled object as it was found. -/
def stageRun (L : Libm) (reset : Bool) (e : C19.Expr F64) (pool : Pool) (ctx : Ctx) : Bytes × Pool :=
  let g := pool.get
  let o1 : Obj := ⟨ctx, if reset then 0 else g.1.errors⟩
  let r := evalW L e o1
  (if r.2.errors > 0 then ErrorNum else render r.1, g.2.ret r.2)

/-- Several evaluations, one after the other, through one stage. -/
def runHistory (L : Libm) (reset : Bool) (e : C19.Expr F64) : Pool → List Ctx → List Bytes × Pool
  | p, [] => ([], p)
  | p, c :: cs =>
    let r := stageRun L reset e p c
    let rest := runHistory L reset e r.2 cs
    (r.1 :: rest.1, rest.2)

/-- What the stage answers on `ctx` when nothing is remembered (the stage of the shared expression
    model, `Funcs.Math.kfMathWith`, is this function: `stage_is_stateless`). -/
def stateless (L : Libm) (e : C19.Expr F64) (ctx : Ctx) : Bytes :=
  let b : Binding F64 := ⟨fun i => (conv (ctx.getMatch i)).1, fun k => (conv (ctx.getKey k)).1⟩
  let bad := (evalW L e ⟨ctx, 0⟩).2.errors
  if bad > 0 then ErrorNum else render (e.eval (arith L) b)

/-! ### Several goroutines through one stage -/

/-- A variable occurrence of the formula. -/
inductive Var where
  | named (n : Bytes)
  | idx (i : Int)
  deriving DecidableEq

def Var.text (c : Ctx) : Var → Bytes
  | .named n => c.getKey n
  | .idx i => c.getMatch i

/-- The look-ups `expr.Eval` makes, in evaluation order (left operand first; `&&`/`||` do not
    short-circuit: both operands are always evaluated). -/
def lookups : C19.Expr F64 → List Var
  | .val _ => []
  | .named n => [.named n]
  | .idx i => [.idx i]
  | .un _ e => lookups e
  | .bin _ l r => lookups l ++ lookups r

/-- `expr.Eval` as a function of the values its look-ups returned (consumed in order). -/
def evalL (L : Libm) : C19.Expr F64 → List F64 → F64 × List F64
  | .val v, vs => (v, vs)
  | .named _, vs => (vs.headD zeroP, vs.tail)
  | .idx _, vs => (vs.headD zeroP, vs.tail)
  | .un m e, vs =>
    let r := evalL L e vs
    ((arith L).un m r.1, r.2)
  | .bin op l r, vs =>
    let a := evalL L l vs
    let b := evalL L r a.2
    ((arith L).bin op a.1 b.1, b.2)

/-- Program counter of one goroutine evaluating the stage on its own context. -/
inductive Pc where
  | idle                                              -- before `ctxPool.Get()`
  | got (a : Nat)                                     -- holds the object at address `a`, not yet overwritten
  | eval (a : Nat) (todo : List Var) (vals : List F64)   -- inside `expr.Eval`: look-ups still to make, values read so far
  | done (out : Bytes)                                -- returned `out` (object back in the pool)

structure Sys where
  /-- the wrapper objects ever allocated, by address -/
  heap : Nat → Obj
  /-- number of addresses in use -/
  next : Nat
  /-- `ObjectPool.pool`: addresses -/
  pool : List Nat
  /-- the goroutines: context each evaluates, and where it is -/
  ctxOf : Nat → Ctx
  pc : Nat → Pc

def setHeap (h : Nat → Obj) (a : Nat) (o : Obj) : Nat → Obj := fun x => if x = a then o else h x
def setPc (p : Nat → Pc) (i : Nat) (s : Pc) : Nat → Pc := fun x => if x = i then s else p x

/-- Goroutine `i` takes its next step (one access to shared memory each). -/
def step (L : Libm) (e : C19.Expr F64) (s : Sys) (i : Nat) : Sys :=
  match s.pc i with
  | .idle =>                                           -- `ctxPool.Get()` (atomic: under the pool's mutex)
    match s.pool.getLast? with
    | none => { s with heap := setHeap s.heap s.next Obj.fresh, next := s.next + 1, pc := setPc s.pc i (.got s.next) }
    | some a => { s with pool := s.pool.dropLast, pc := setPc s.pc i (.got a) }
  | .got a =>                                          -- `*mathCtx = keyBuilderContextWrapper{sub: ctx, errors: 0}`
    { s with heap := setHeap s.heap a ⟨s.ctxOf i, 0⟩, pc := setPc s.pc i (.eval a (lookups e) []) }
  | .eval a (v :: todo) vals =>                        -- one `GetKey`/`GetMatch` of the wrapper at address `a`
    let r := (s.heap a).look (fun c => v.text c)
    { s with heap := setHeap s.heap a r.2, pc := setPc s.pc i (.eval a todo (vals ++ [r.1])) }
  | .eval a [] vals =>                                 -- `if mathCtx.errors > 0 …`, then the deferred `Return`
    let out := if (s.heap a).errors > 0 then ErrorNum else render (evalL L e vals).1
    { s with pool := s.pool ++ [a], pc := setPc s.pc i (.done out) }
  | .done _ => s

/-- A schedule: which goroutine moves next. -/
def run (L : Libm) (e : C19.Expr F64) : Sys → List Nat → Sys
  | s, [] => s
  | s, i :: rest => run L e (step L e s i) rest

/-- The start: a pool of `size` fresh objects, every goroutine idle. -/
def Sys.init (size : Nat) (ctxOf : Nat → Ctx) : Sys :=
  ⟨fun _ => Obj.fresh, size, List.range size, ctxOf, fun _ => .idle⟩

end Rare.C19.Pool

/-! ### Variable occurrences (round 4b): of the compiled expression and of the parse tree, for any arithmetic -/
namespace Rare.C19
open Rare.C19.Pool

/-- The look-up an atom stands for. -/
def Atom.vars {α : Type} : Atom α → List Var
  | .num _ => []
  | .named n => [.named n]
  | .idx i => [.idx i]

/-- The variable occurrences of a parse tree, left to right (groups entered). -/
def Tree.vars {α : Type} (cls : Bytes → Option (Atom α)) : Tree → List Var
  | .lit v => match cls v with
    | some a => a.vars
    | none => []
  | .grp _ e => e.vars cls
  | .un _ e => e.vars cls
  | .bin _ _ l r => l.vars cls ++ r.vars cls

/-- The look-ups `Eval` makes on a compiled expression, in order (`Pool.lookups` for any arithmetic). -/
def Expr.vars {α : Type} : Expr α → List Var
  | .val _ => []
  | .named n => [.named n]
  | .idx i => [.idx i]
  | .un _ e => e.vars
  | .bin _ l r => l.vars ++ r.vars

/-! ### Variable tokens of the formula TEXT (round 4c) -/

/-- The look-ups a token list stands for: a literal token that denotes `[n]` / `[name]` / a bare name is one
    look-up, a group token contributes what `g` answers for its text, operators and unary modifiers nothing. -/
def tokListVars {α : Type} (cls : Bytes → Option (Atom α)) (g : Bytes → List Var) : List Token → List Var
  | [] => []
  | tk :: rest =>
    (match tk.t with
     | .lit => (match cls tk.val with | some a => a.vars | none => [])
     | .group => g tk.val
     | _ => []) ++ tokListVars cls g rest

/-- … of a text tokenized by `tk`, with a nesting budget (one unit per level of parentheses). -/
def textVarsF {α : Type} (tk : Bytes → Option (List Token)) (cls : Bytes → Option (Atom α)) : Nat → Bytes → List Var
  | 0, _ => []
  | f + 1, s =>
    match tk s with
    | none => []
    | some toks => tokListVars cls (textVarsF tk cls f) toks

/-- The variable tokens of a formula text, in text order, groups entered. -/
def textVars {α : Type} (tk : Bytes → Option (List Token)) (cls : Bytes → Option (Atom α)) (s : Bytes) : List Var :=
  textVarsF tk cls (s.length + 1) s

end Rare.C19
