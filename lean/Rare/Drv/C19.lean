import Rare.Drv.Expr
import Rare.Model.C19Float
/-!
Driver ops of C19.

  math <formula hex> <matches: bits,bits,… | .> <keys: namehex=bits,… | .>

compiles and evaluates the formula with the float64 instance of the model; bindings are float64
bit patterns (16 hex digits).  Answers `ok <bits>` (any NaN is `ok nan`), `err <kind>` (compile
error), `unmodelled <why>` (value depends on a libm function / a literal spelling outside the
modelled grammar) or `panic`.

  ref <formula hex> <matches> <keys>

is the implementation-vs-independent-evaluator differential run inside the harness; the model's
answer is the constant `ok agree`.

  tok <formula hex>   token list of the tokenizer model (kind:hex,…), for debugging.

Plus the shared `expr` op (`{! …}` inside templates).
-/
namespace Rare.Drv.C19
open Rare Rare.C19 Rare.Proto

def hexDigitVal (c : Char) : Option Nat := Hex.val c

def parseBits (s : String) : Option Float :=
  if s.length ≠ 16 then none
  else (s.toList.foldlM (fun (acc : Nat) c => (hexDigitVal c).map (acc * 16 + ·)) 0).map
    (fun n => Float.ofBits (UInt64.ofNat n))

def parseMatches (s : String) : Option (List Float) :=
  if s = "." then some [] else (s.splitOn ",").mapM parseBits

def parseKeys (s : String) : Option (List (Bytes × Float)) :=
  if s = "." then some [] else
  (s.splitOn ",").mapM fun kv =>
    match kv.splitOn "=" with
    | [k, v] => do
      let kb ← Hex.dec k
      let f ← parseBits v
      pure (kb, f)
    | _ => none

def hex16 (n : UInt64) : String :=
  let ds := (List.range 16).map fun i => Hex.digit ((n.toNat / 16 ^ (15 - i)) % 16)
  String.ofList ds

def errStr : Err → String
  | .overclosed => "err overclosed"
  | .unclosed => "err unclosed"
  | .numeric => "err numeric"
  | .unexpectedEnd => "err end"
  | .expectedExpr => "err expr"
  | .unknownOp => "err unknownop"
  | .expectedOp => "err op"
  | .panic _ => "panic"
  | .fuel => "fuel"
  | .unmodelled w => "unmodelled " ++ w

def binding (ms : List Float) (ks : List (Bytes × Float)) : Binding F.FV :=
  { getMatch := fun i => if i < 0 then some 0.0 else some (ms.getD i.toNat 0.0),
    getKey := fun k => match ks.find? (·.1 == k) with
      | some p => some p.2
      | none => some 0.0 }

def tokKind : TokT → String
  | .lit => "L" | .group => "G" | .op => "O" | .mod => "M"

def handle (args : List String) : String :=
  match args with
  | ["math", f, ms, ks] =>
    match Hex.dec f, parseMatches ms, parseKeys ks with
    | some fb, some m, some k =>
      match compile F.arith fb with
      | .error e => errStr e
      | .ok (_, e) =>
        match e.eval F.arith (binding m k) with
        | none => "unmodelled inexact"
        | some v => if v.isNaN then "ok nan" else "ok " ++ hex16 v.toBits
    | _, _, _ => "bad-args"
  | ["ref", _, _, _] => "ok agree"
  | ["tok", f] =>
    match Hex.dec f with
    | some fb =>
      match tokenize fb with
      | .ok toks => "ok " ++ ",".intercalate (toks.map fun t => tokKind t.t ++ ":" ++ Hex.enc t.val)
      | .error e => errStr e
    | none => "bad-args"
  | _ =>
    match Rare.Drv.Expr.handle args with
    | some a => a
    | none => "bad-op"

end Rare.Drv.C19
