import Rare.Drv.Expr
import Rare.Model.C19Float
import Rare.Model.C19F64Math
import Rare.Model.C19Pool
import Rare.Proofs.C19Lit
/-!
Driver ops of C19.

  math <formula hex> <matches: bits,bits,… | .> <keys: namehex=bits,… | .>

compiles and evaluates the formula with the float64 instance of the model; bindings are float64
bit patterns (16 hex digits).  Answers `ok <bits>` (any NaN is `ok nan`), `err <kind>` (compile
error), `unmodelled <why>` (value depends on a libm function / a literal spelling outside the
modelled grammar) or `panic`.

  ref <formula hex> <matches> <keys>

is the implementation-vs-independent-evaluator differential run inside the harness; the model's
answer is the constant `ok agree`.

  tok <formula hex>   token list of the tokenizer model (kind:hex,…), for debugging.

  gram <formula hex>

the SPECIFICATION's answer to "is this a formula": `accepts` of `Spec/C19Grammar.lean` (token grammar,
recursively through groups) – `ok accept` / `ok reject`; the harness answers from `stdmath.Compile`.
(`unmodelled <why>` for literal spellings outside the modelled grammar; `grammar-model-disagree` if
the model's `compile` and the grammar ever differ, which `compile_iff_grammar` excludes.)

  lit <base 2|8|10|16> <prefix letter hex | -> <digits hex>

the value of the literal `0<prefix><digits>` from the specification (`baseVal`, then float64 of the
integer) as `ok <bits>`; the harness compiles and evaluates the text.

  impl <implied hex> <explicit hex> <matches> <keys>

a formula with implied multiplications and the same formula with `*` written out: both compile, the
second parse is `Tree.explicit` of the first, and the value is the same (`ok <bits>`); the harness
evaluates both texts with the real code and answers `ok <bits>` if they agree bit for bit.

  meta <f1 hex> <f2 hex> <matches> <keys>

metamorphic "constants equal bound variables": `f2` is `f1` with numeric constants replaced by
variables that `<keys>` binds to the same values; both are compiled and evaluated (here by the
model, in the harness by the real code) and must agree bit for bit; answer `ok <bits>`.

  khist <opt> <template hex> <elems 1> <keys 1> <elems 2> <keys 2> …

ONE compiled `{! …}` stage on several contexts in order (and, in the harness, the same contexts again from
8 goroutines at once through the same stage).  The model's stage has no state – that this is what the
pooled wrapper objects of `kfMath` amount to is `kfmath_history_independent` /
`kfmath_concurrent_independent` – so every value is computed from its context alone:
`ok errs=… vals=v1,v2,…`.

  look <formula hex>

the look-ups `Eval` makes on the compiled formula, in order (`i:<n>` / `k:<namehex>`, `ok -` for none); the
harness records them on the real code with a logging context (round 4b, `lookups_are_formula_variables`).

  docop <b|u> <operator hex>

an operator listed in docs/usage/math.md; the SPECIFICATION's answer is the constant `ok accept` (a
documented operator is an operator; `docs_operators_are_the_tables`), the harness answers from
`stdmath.Compile` of `2 <op> 3` / `<op>2` / `<op>(2)`.

  docex <formula hex> <expected hex> <keys>

an example of docs/usage/math.md: `ok <expected hex>` if the model's `{! formula}` under the documented
binding prints the documented value (`docs_examples_hold` proves it does for the examples of the tree the
proofs were checked against).

Plus the shared `expr` op (`{! …}` inside templates), here with `{! …}` bound to the IEEE instance.

Every value is computed with the software binary64 instance `IEEE.arithT` (`Model/C19F64.lean`, the
instance of the `*_f64` theorems; `none` = went through `exp` or a fractional power – all that is left of libm
since round 4c – → `unmodelled inexact`).
The native-`Float` instance of `Model/C19Float.lean` is evaluated next to it as a cross-check: when
both give a definite answer and the answers differ the driver says `model-vs-native …` (a bug in one
of the two models, shown even if Go happened to agree with the software model).
-/
namespace Rare.Drv.C19
open Rare Rare.C19 Rare.Proto

def hexDigitVal (c : Char) : Option Nat := Hex.val c

/-- 16 hex digits = a float64 bit pattern. -/
def parsePat (s : String) : Option UInt64 :=
  if s.length ≠ 16 then none
  else (s.toList.foldlM (fun (acc : Nat) c => (hexDigitVal c).map (acc * 16 + ·)) 0).map UInt64.ofNat

def parseMatches (s : String) : Option (List UInt64) :=
  if s = "." then some [] else (s.splitOn ",").mapM parsePat

def parseKeys (s : String) : Option (List (Bytes × UInt64)) :=
  if s = "." then some [] else
  (s.splitOn ",").mapM fun kv =>
    match kv.splitOn "=" with
    | [k, v] => do
      let kb ← Hex.dec k
      let f ← parsePat v
      pure (kb, f)
    | _ => none

def hex16 (n : UInt64) : String :=
  let ds := (List.range 16).map fun i => Hex.digit ((n.toNat / 16 ^ (15 - i)) % 16)
  String.ofList ds

def errStr : Err → String
  | .overclosed => "err overclosed"
  | .unclosed => "err unclosed"
  | .numeric => "err numeric"
  | .unexpectedEnd => "err end"
  | .expectedExpr => "err expr"
  | .unknownOp => "err unknownop"
  | .expectedOp => "err op"
  | .panic _ => "panic"
  | .fuel => "fuel"
  | .unmodelled w => "unmodelled " ++ w

/-- binding for the IEEE instance -/
def binding (ms : List UInt64) (ks : List (Bytes × UInt64)) : Binding IEEE.TV :=
  { getMatch := fun i => if i < 0 then some IEEE.zeroP else some (F64.ofBits (ms.getD i.toNat 0)),
    getKey := fun k => match ks.find? (·.1 == k) with
      | some p => some (F64.ofBits p.2)
      | none => some IEEE.zeroP }

/-- the same binding for the native cross-check instance -/
def bindingN (ms : List UInt64) (ks : List (Bytes × UInt64)) : Binding F.FV :=
  { getMatch := fun i => if i < 0 then some 0.0 else some (Float.ofBits (ms.getD i.toNat 0)),
    getKey := fun k => match ks.find? (·.1 == k) with
      | some p => some (Float.ofBits p.2)
      | none => some 0.0 }

def tokKind : TokT → String
  | .lit => "L" | .group => "G" | .op => "O" | .mod => "M"

def valAns (v : IEEE.TV) : String :=
  match v with
  | none => "unmodelled inexact"
  | some v => if v.isNaN then "ok nan" else "ok " ++ hex16 v.toBits

def valAnsN (v : F.FV) : String :=
  match v with
  | none => "unmodelled inexact"
  | some v => if v.isNaN then "ok nan" else "ok " ++ hex16 v.toBits

/-- Cross-check: two definite answers must be the same answer. -/
def xcheck (model native : String) : String :=
  if model.startsWith "unmodelled" || native.startsWith "unmodelled" || model == native then model
  else s!"model-vs-native model=[{model}] native=[{native}]"

def mathAns (fb : Bytes) (m : List UInt64) (k : List (Bytes × UInt64)) : String :=
  match compile IEEE.arithT fb with
  | .error e => errStr e
  | .ok (_, e) => valAns (e.eval IEEE.arithT (binding m k))

def mathAnsN (fb : Bytes) (m : List UInt64) (k : List (Bytes × UInt64)) : String :=
  match compile F.arith fb with
  | .error e => errStr e
  | .ok (_, e) => valAnsN (e.eval F.arith (bindingN m k))

def gramAns (fb : Bytes) : String :=
  let r := compile IEEE.arithT fb
  match r with
  | .error (.unmodelled w) => "unmodelled " ++ w
  | _ =>
    let a := accepts tok (fun v => (classify IEEE.arithT v).isSome) (fun o => opKeys.contains o) fb
    let ok := match r with | .ok _ => true | .error _ => false
    if a != ok then "grammar-model-disagree" else if a then "ok accept" else "ok reject"

def varStr : Pool.Var → String
  | .named n => "k:" ++ Hex.enc n
  | .idx i => "i:" ++ toString i

/-- `look`: the look-ups of the compiled expression, in evaluation order; cross-checked on every case with the
    variable occurrences of the ghost parse tree (`lookups_are_formula_variables` proves them equal) and with the
    variable tokens of the text (`textVars`, `lookups_are_text_tokens`). -/
def lookAns (fb : Bytes) : String :=
  match compile IEEE.arithT fb with
  | .error e => errStr e
  | .ok (t, e) =>
    let vs := e.vars
    if t.vars (classify IEEE.arithT) != vs then "vars-tree-vs-expr-disagree"
    else if textVars tok (classify IEEE.arithT) fb != vs then "vars-text-vs-expr-disagree"
    else if vs.isEmpty then "ok -" else "ok " ++ ",".intercalate (vs.map varStr)

/-- The expression registry with `{! …}` bound to the IEEE instance (first entry wins). -/
def registry : Rare.Expr.Registry :=
  Rare.Expr.mkRegistry (("!", IEEE.kfMath) :: Rare.Expr.stdTable) Gen.stdFunctionNames

/-- `<elems 1> <keys 1> <elems 2> <keys 2> …` -/
def ctxPairs : List String → Option (List Rare.Expr.Ctx)
  | [] => some []
  | el :: ks :: rest =>
    match decHexList el, decHexList ks, ctxPairs rest with
    | some e, some k, some r => some (Rare.Drv.Expr.mkCtx e k :: r)
    | _, _, _ => none
  | _ => none

/-- one compiled expression, every context on its own (the model's stages have no state) -/
def histAns (reg : Rare.Expr.Registry) (opt : Bool) (t : List Char) (ctxs : List Rare.Expr.Ctx) : String :=
  match Rare.Expr.compile reg opt t with
  | .error m => Rare.Drv.Expr.panicAns m
  | .ok (stages, errs) =>
    match Rare.Drv.Expr.unmodelledTag errs with
    | some n => "unmodelled " ++ n
    | none =>
      let rec go : List Rare.Expr.Ctx → List String → String
        | [], acc => s!"ok errs={Rare.Drv.Expr.errsStr errs} vals={",".intercalate acc.reverse}"
        | c :: cs, acc =>
          match (Rare.Expr.buildKey stages).run c with
          | .error m => Rare.Drv.Expr.panicAns m
          | .ok v => go cs (Hex.enc v :: acc)
      go ctxs []

def handle (args : List String) : String :=
  match args with
  | ["gram", f] =>
    match Hex.dec f with
    | some fb => gramAns fb
    | none => "bad-args"
  | ["lit", base, pre, ds] =>
    match base.toNat?, Hex.dec pre, Hex.dec ds with
    | some b, some _, some d =>
      if d.isEmpty || !d.all (isBaseDigit b) then "ok not-a-literal"
      else if baseVal b d > 9223372036854775807 then "ok out-of-range"
      else xcheck (valAns (IEEE.arithT.ofInt (baseVal b d))) (valAnsN (F.arith.ofInt (baseVal b d)))
    | _, _, _ => "bad-args"
  | ["impl", f1, f2, ms, ks] =>
    match Hex.dec f1, Hex.dec f2, parseMatches ms, parseKeys ks with
    | some b1, some b2, some m, some k =>
      match compile IEEE.arithT b1, compile IEEE.arithT b2 with
      | .ok (t1, e1), .ok (t2, e2) =>
        if t1.explicit != t2 then "explicit-parse-differs"
        else
          let v1 := e1.eval IEEE.arithT (binding m k)
          let v2 := e2.eval IEEE.arithT (binding m k)
          if valAns v1 != valAns v2 then "explicit-value-differs" else xcheck (valAns v1) (mathAnsN b1 m k)
      | .error e, _ => errStr e
      | _, .error e => errStr e
    | _, _, _, _ => "bad-args"
  | ["meta", f1, f2, ms, ks] =>
    match Hex.dec f1, Hex.dec f2, parseMatches ms, parseKeys ks with
    | some b1, some b2, some m, some k =>
      match compile IEEE.arithT b1, compile IEEE.arithT b2 with
      | .ok (_, e1), .ok (_, e2) =>
        let v1 := e1.eval IEEE.arithT (binding m k)
        let v2 := e2.eval IEEE.arithT (binding m k)
        if valAns v1 != valAns v2 then "meta-value-differs" else xcheck (valAns v1) (mathAnsN b1 m k)
      | .error e, _ => errStr e
      | _, .error e => errStr e
    | _, _, _, _ => "bad-args"
  | ["math", f, ms, ks] =>
    match Hex.dec f, parseMatches ms, parseKeys ks with
    | some fb, some m, some k => xcheck (mathAns fb m k) (mathAnsN fb m k)
    | _, _, _ => "bad-args"
  | ["ref", _, _, _] => "ok agree"
  | ["look", f] =>
    match Hex.dec f with
    | some fb => lookAns fb
    | none => "bad-args"
  | ["tok", f] =>
    match Hex.dec f with
    | some fb =>
      match tokenize fb with
      | .ok toks => "ok " ++ ",".intercalate (toks.map fun t => tokKind t.t ++ ":" ++ Hex.enc t.val)
      | .error e => errStr e
    | none => "bad-args"
  | "khist" :: o :: t :: rest =>
    match Hex.dec t, ctxPairs rest with
    | some tb, some ctxs =>
      match Rare.Drv.Expr.decodeTemplate tb with
      | some tc => xcheck (histAns registry (o == "1") tc ctxs) (histAns Rare.Drv.Expr.registry (o == "1") tc ctxs)
      | none => "bad-args"
    | _, _ => "bad-args"
  | ["docop", _, _] => "ok accept"
  | ["docex", f, want, ks] =>
    match Hex.dec f, Hex.dec want, decHexList ks with
    | some fb, some wb, some keys =>
      match IEEE.kfMath [Rare.Expr.Stage.lit fb] with
      | .ok ⟨some st, none⟩ =>
        match st.run (Rare.Drv.Expr.mkCtx [] keys) with
        | .ok v => if v == wb then "ok " ++ Hex.enc v else "doc-example-differs model=" ++ Hex.enc v
        | .error m => Rare.Drv.Expr.panicAns m
      | _ => "doc-example-does-not-compile"
    | _, _, _ => "bad-args"
  | ["expr", o, t, el, ks] =>
    match Hex.dec t, decHexList el, decHexList ks with
    | some tb, some elems, some keys =>
      match Rare.Drv.Expr.decodeTemplate tb with
      | some tc =>
        let ctx := Rare.Drv.Expr.mkCtx elems keys
        xcheck (Rare.Drv.Expr.evalWith registry (o == "1") tc ctx)
          (Rare.Drv.Expr.evalWith Rare.Drv.Expr.registry (o == "1") tc ctx)
      | none => "bad-args"
    | _, _, _ => "bad-args"
  | _ =>
    match Rare.Drv.Expr.handle args with
    | some a => a
    | none => "bad-op"

end Rare.Drv.C19
