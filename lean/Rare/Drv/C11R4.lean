import Rare.Drv.Expr
import Rare.Drv.C11F64
import Rare.Model.C11Table
/-!
C11, round 4 ops (see `harness/corr/c11r4.go`):

  case <upper|lower> <value hex>      `{upper {0}}` / `{lower {0}}` for ANY byte string: `strings.ToUpper` / `ToLower`
                                      with the full `unicode.CaseRanges` table (`Rare/Model/C11Case.lean`)
  path <base|dir|ext> <value hex>     `{basename {0}}` / `{dirname {0}}` / `{extname {0}}` = `filepath.Base/Dir/Ext`
  rt64 <bits>                         `ParseFloat(FormatFloat(x, 'f', -1, 64))`: the shortest rendering reads back
  expr …                              the shared op, with `upper` / `lower` taken from the full model
-/
namespace Rare.Drv.C11R4
open Rare Rare.Expr Rare.Proto

/-- The C11 registry: the standard table with the full-Unicode `upper` / `lower` and the modelled
    `ln` / `log10` / `log2` / `pow` (`Rare/Model/C11Log.lean`) in front (`Rare/Model/C11Table.lean`; the table
    `arity_guards` of `Props/C11.lean` speaks about). -/
def registry : Registry := mkRegistry Rare.C11.c11Table Gen.stdFunctionNames

def val (b : Bytes) : String := s!"ok val={Hex.enc b}"

def handle : List String → Option String
  | ["case", which, v] => some <|
    match Hex.dec v with
    | some b =>
      if which == "upper" then val (Rare.C11.Case.goToUpper b)
      else if which == "lower" then val (Rare.C11.Case.goToLower b)
      else "bad-args"
    | none => "bad-args"
  | ["path", which, v] => some <|
    match Hex.dec v with
    | some b =>
      if which == "base" then val (Funcs.Misc.pathBase b)
      else if which == "dir" then val (Funcs.Misc.pathDir b)
      else if which == "ext" then val (Funcs.Misc.pathExt b)
      else "bad-args"
    | none => "bad-args"
  | ["rt64", a] => some <|
    match Rare.Drv.C11F64.parseHex64 a with
    | some x =>
      let s := F64.format x (-1)
      (match F64.parseFloat s with
      | some y => s!"ok s={Hex.enc s} back={Rare.Drv.C11F64.showF y}"
      | none => s!"ok s={Hex.enc s} back=err")
    | none => "bad-args"
  | ["expr", o, t, el, ks] => some <|
    match Hex.dec t, decHexList el, decHexList ks with
    | some tb, some elems, some keys =>
      match Rare.Drv.Expr.decodeTemplate tb with
      | some tc => Rare.Drv.Expr.evalWith registry (o == "1") tc (Rare.Drv.Expr.mkCtx elems keys)
      | none => "bad-args"
    | _, _, _ => "bad-args"
  | _ => none

end Rare.Drv.C11R4
