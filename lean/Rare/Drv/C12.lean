import Rare.Base.Proto
import Rare.Model.C12
import Rare.Spec.C12Grammar
import Rare.Model.C16
namespace Rare.Drv.C12
open Rare Rare.C12 Rare.Proto

def errName : CErr → String
  | .unclosed => "unclosed"
  | .sequential => "sequential"
  | .conflict => "conflict"
  | .fuel => "fuel"

def specErrName : CompileErr → String
  | .unclosed => "unclosed"
  | .sequential => "sequential"
  | .conflict => "conflict"

def renderNames (m : List (Bytes × Nat)) : String :=
  if m.isEmpty then "." else
  let strs := m.map fun e => s!"{Hex.enc e.1}:{e.2}"
  ",".intercalate (strs.mergeSort (fun a b => decide (a ≤ b)))

def renderInts (l : List Int) : String := ",".intercalate (l.map toString)

def renderRes (rs : List (Option (List Int))) : String :=
  if rs.isEmpty then "." else
  "|".intercalate (rs.map fun r => match r with | none => "-" | some l => renderInts l)

/-- run all lines with one instance; per call keep the view and what it held when it was returned -/
def runKeep : Instance → List Bytes → Except String (List (Option (View × List Int)) × Instance)
  | s, [] => .ok ([], s)
  | s, l :: ls =>
    match findSubmatchIndex s l with
    | .error e => .error e
    | .ok (r, s) =>
      match runKeep s ls with
      | .error e => .error e
      | .ok (rs, s') => .ok ((r.map fun v => (v, s.pool.read v)) :: rs, s')

def cycle (l : List Bytes) (rep : Nat) : List Bytes := (List.replicate rep l).flatten

/-- `dissect <ic> <pattern> <lines> <rep>`: compile, create ONE instance, match `lines` (the list
repeated `rep` times), then re-read every returned slice after the last call. -/
def handle : List String → String
  | ["dissect", ic, pat, lines, rep] =>
    match Hex.dec pat, decHexList lines, rep.toNat? with
    | some pat, some lines, some rep =>
      match compileEx pat (ic == "1") with
      | .error e => s!"err {errName e}"
      | .ok d =>
        match runKeep d.createInstance (cycle lines rep), matchAll d (cycle lines rep) with
        | .ok (rs, _), .ok final =>
          let atRet := rs.map fun r => r.map fun x => x.2
          s!"ok n={renderNames d.groupNames} a={if final == atRet then 1 else 0} r={renderRes final}"
        | _, _ => "panic"
    | _, _, _ => "bad-args"
  -- the SPECIFICATION evaluated on a structured pattern (the Go side renders and compiles it)
  | ["specp", ic, pre, keys, lits, lines, rep] =>
    match Hex.dec pre, decHexList keys, decHexList lits, decHexList lines, rep.toNat? with
    | some pre, some keys, some lits, some lines, some rep =>
      if keys.length ≠ lits.length then "bad-args" else
      let p : Pat := ⟨pre, (keys.zip lits).map fun kl => ⟨kl.1, kl.2⟩⟩
      if ¬ (decide p.Shape) then "unmodelled shape" else
      match specErrors false p.toks [] with
      | some e => s!"err {specErrName e}"
      | none =>
        let f := if ic == "1" then specDissectIC p else specDissect p
        let rs := (cycle lines rep).map fun l => (f l).map (·.map Int.ofNat)
        s!"ok n={renderNames (nameTable p.toks)} a=1 r={renderRes rs}"
    | _, _, _, _, _ => "bad-args"
  -- the GRAMMAR (one-pass recogniser of `Spec/C12Grammar.lean`) against `CompileEx`: the answer is the
  -- recogniser's verdict and the model's error class; when recogniser and model disagree the answer is
  -- one the implementation can never give
  | ["grammar", pat] =>
    match Hex.dec pat with
    | some pat =>
      let acc := acceptsPattern pat
      let r0 := compileEx pat false
      let r1 := compileEx pat true
      let cls (r : Except CErr Dissect) : String := match r with | .ok _ => "none" | .error e => errName e
      if cls r0 != cls r1 then "model-modes-disagree"
      else if acc != (cls r0 == "none") then "spec-model-disagree"
      else s!"ok accept={if acc then 1 else 0} err={cls r0}"
    | none => "bad-args"
  -- seam C16/C12: the name table C16's model (`C16.dissectNameTable`) derives from the compiled tokens
  | ["nametab", ic, pat] =>
    match Hex.dec pat with
    | some pat =>
      match compileEx pat (ic == "1") with
      | .error e => s!"err {errName e}"
      | .ok d =>
        match C16.dissectNameTable (d.tokens.map fun t => (t.name, t.skip)) with
        | .error m => s!"c16-error {m}"
        | .ok table =>
          if table != d.groupNames.map (fun e => (e.1, (e.2 : Int))) then "c16-c12-disagree"
          else s!"ok n={renderNames (table.map fun e => (e.1, e.2.toNat))} count={d.groupCount}"
    | none => "bad-args"
  | _ => "bad-op"

end Rare.Drv.C12
