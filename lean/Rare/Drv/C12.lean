import Rare.Base.Proto
import Rare.Model.C12
import Rare.Model.C12Go
import Rare.Spec.C12Grammar
import Rare.Spec.C12Lazy
import Rare.Model.C12Rx
import Rare.Model.C16
namespace Rare.Drv.C12
open Rare Rare.C12 Rare.Proto

def errName : CErr → String
  | .unclosed => "unclosed"
  | .sequential => "sequential"
  | .conflict => "conflict"
  | .fuel => "fuel"

def specErrName : CompileErr → String
  | .unclosed => "unclosed"
  | .sequential => "sequential"
  | .conflict => "conflict"

def renderNames (m : List (Bytes × Nat)) : String :=
  if m.isEmpty then "." else
  let strs := m.map fun e => s!"{Hex.enc e.1}:{e.2}"
  ",".intercalate (strs.mergeSort (fun a b => decide (a ≤ b)))

def renderInts (l : List Int) : String := ",".intercalate (l.map toString)

def renderRes (rs : List (Option (List Int))) : String :=
  if rs.isEmpty then "." else
  "|".intercalate (rs.map fun r => match r with | none => "-" | some l => renderInts l)

/-- run all lines with one instance; per call keep the view and what it held when it was returned -/
def runKeep : Instance → List Bytes → Except String (List (Option (View × List Int)) × Instance)
  | s, [] => .ok ([], s)
  | s, l :: ls =>
    match findSubmatchIndex s l with
    | .error e => .error e
    | .ok (r, s) =>
      match runKeep s ls with
      | .error e => .error e
      | .ok (rs, s') => .ok ((r.map fun v => (v, s.pool.read v)) :: rs, s')


def getManyD : Pool → List Nat → Except String (List View × Pool)
  | p, [] => .ok ([], p)
  | p, n :: ns =>
    match p.get n with
    | .error e => .error e
    | .ok (v, p) =>
      match getManyD p ns with
      | .error e => .error e
      | .ok (vs, p) => .ok (v :: vs, p)

/-- fill view `k` (0-based) with `k+1` right after it was handed out; at the end re-read all -/
def fillAll : Pool → List View → Nat → Except String Pool
  | p, [], _ => .ok p
  | p, v :: vs, k =>
    match (List.range v.len).foldlM (fun (p : Pool) i => p.write v i ((k : Int) + 1)) p with
    | .error e => .error e
    | .ok p => fillAll p vs (k + 1)

def sliceOf (line : Bytes) (a b : Int) : Option Bytes :=
  if 0 ≤ a ∧ a ≤ b ∧ b ≤ (line.length : Int) then some ((line.drop a.toNat).take (b.toNat - a.toNat)) else none

def cycle (l : List Bytes) (rep : Nat) : List Bytes := (List.replicate rep l).flatten

/-- `dissect <ic> <pattern> <lines> <rep>`: compile, create ONE instance, match `lines` (the list
repeated `rep` times), then re-read every returned slice after the last call. -/
def dissectOp (ic pat lines rep : String) : String :=
    match Hex.dec pat, decHexList lines, rep.toNat? with
    | some pat, some lines, some rep =>
      match compileEx pat (ic == "1") with
      | .error e => s!"err {errName e}"
      | .ok d =>
        match runKeep d.createInstance (cycle lines rep), matchAll d (cycle lines rep) with
        | .ok (rs, _), .ok final =>
          let atRet := rs.map fun r => r.map fun x => x.2
          s!"ok n={renderNames d.groupNames} a={if final == atRet then 1 else 0} r={renderRes final}"
        | _, _ => "panic"
    | _, _, _ => "bad-args"

def handle : List String → String
  | ["dissect", ic, pat, lines, rep] => dissectOp ic pat lines rep
  -- `par <ic> <pattern> <lines> <rep> <k>`: k goroutines, each with its OWN instance (through
  -- matchers.ToFactory) of the one compiled pattern, match the same lines concurrently; by
  -- `instances_independent` every one of them answers what a single instance answers
  | ["par", ic, pat, lines, rep, _k] => dissectOp ic pat lines rep
  -- `hist <ic> <pattern> <lines>`: a history matched by ONE instance; the Go side also runs every
  -- line on a fresh instance and through a re-used buffer and demands the same answers
  -- (`history_independent`: the answer for a line is a function of pattern and line alone)
  | ["hist", ic, pat, lines] => dissectOp ic pat lines "1"
  -- the SPECIFICATION evaluated on a structured pattern (the Go side renders and compiles it)
  | ["specp", ic, pre, keys, lits, lines, rep] =>
    match Hex.dec pre, decHexList keys, decHexList lits, decHexList lines, rep.toNat? with
    | some pre, some keys, some lits, some lines, some rep =>
      if keys.length ≠ lits.length then "bad-args" else
      let p : Pat := ⟨pre, (keys.zip lits).map fun kl => ⟨kl.1, kl.2⟩⟩
      if ¬ (decide p.Shape) then "unmodelled shape" else
      match specErrors false p.toks [] with
      | some e => s!"err {specErrName e}"
      | none =>
        let f := if ic == "1" then specDissectIC p else specDissect p
        let rs := (cycle lines rep).map fun l => (f l).map (·.map Int.ofNat)
        s!"ok n={renderNames (nameTable p.toks)} a=1 r={renderRes rs}"
    | _, _, _, _, _ => "bad-args"
  -- the DECLARATIVE specification: the pattern as the lazy regular expression `lit0(.*?)lit1…`, run by the
  -- backtracking matcher of `Spec/C12Lazy.lean` (`dissect_eq_backtracking`); the Go side also asks Go's regexp
  | ["lazy", ic, pre, keys, lits, lines] =>
    match Hex.dec pre, decHexList keys, decHexList lits, decHexList lines with
    | some pre, some keys, some lits, some lines =>
      if keys.length ≠ lits.length then "bad-args" else
      let p : Pat := ⟨pre, (keys.zip lits).map fun kl => ⟨kl.1, kl.2⟩⟩
      if ¬ (decide p.Shape) then "unmodelled shape" else
      match specErrors false p.toks [] with
      | some e => s!"err {specErrName e}"
      | none =>
        let f := if ic == "1" then lazyDissectIC p else lazyDissect p
        let rs := lines.map fun l => (f l).map (·.map Int.ofNat)
        -- seam C12/C02: C02's model of the regexp engine on the pattern's expression (`dissect_eq_regexp_model`)
        let q := if ic == "1" then p.lowerLits else p
        let rx := lines.map fun l => rxDissect q (if ic == "1" then lower l else l)
        if rx != rs then s!"c02-c12-disagree rx={renderRes rx} lazy={renderRes rs}"
        else s!"ok r={renderRes rs}"
    | _, _, _, _ => "bad-args"
  -- the GRAMMAR (one-pass recogniser of `Spec/C12Grammar.lean`) against `CompileEx`: the answer is the
  -- recogniser's verdict and the model's error class; when recogniser and model disagree the answer is
  -- one the implementation can never give
  | ["grammar", pat] =>
    match Hex.dec pat with
    | some pat =>
      let acc := acceptsPattern pat
      let r0 := compileEx pat false
      let r1 := compileEx pat true
      let cls (r : Except CErr Dissect) : String := match r with | .ok _ => "none" | .error e => errName e
      if cls r0 != cls r1 then "model-modes-disagree"
      else if acc != (cls r0 == "none") then "spec-model-disagree"
      else s!"ok accept={if acc then 1 else 0} err={cls r0}"
    | none => "bad-args"
  -- seam C16/C12: the name table C16's model (`C16.dissectNameTable`) derives from the compiled tokens
  | ["nametab", ic, pat] =>
    match Hex.dec pat with
    | some pat =>
      match compileEx pat (ic == "1") with
      | .error e => s!"err {errName e}"
      | .ok d =>
        match C16.dissectNameTable (d.tokens.map fun t => (t.name, t.skip)) with
        | .error m => s!"c16-error {m}"
        | .ok table =>
          if table != d.groupNames.map (fun e => (e.1, (e.2 : Int))) then "c16-c12-disagree"
          else s!"ok n={renderNames (table.map fun e => (e.1, e.2.toNat))} count={d.groupCount}"
    | none => "bad-args"
  -- what Go runs behind strings.Index / bytes.Index / IndexByte, and case.go's helpers, directly
  | ["index", hay, needle] =>
    match Hex.dec hay, Hex.dec needle with
    | some hay, some needle =>
      let si := goIndex hay needle
      if si != stringsIndex hay needle then "model-contract-disagree"
      -- the amd64 text of stringslite.Index (both values of MaxLen) around a routine with IndexString's contract
      else if goIndexAmd64 63 stringsIndex hay needle != si || goIndexAmd64 31 stringsIndex hay needle != si then
        "model-amd64-disagree"
      else
        let ib : Int := match needle with | [] => -1 | c :: _ => goIndexByte hay c
        let low := lowerASCII needle
        s!"ok si={si} ib={ib} ic={indexIgnoreCase hay low} icraw={indexIgnoreCase hay needle} low={Hex.enc low} lowhay={Hex.enc (lowerASCII hay)}"
    | _, _ => "bad-args"
  -- slicepool.IntPool directly: the views (start:len) of a sequence of Get calls, whether every slice
  -- still holds what was written into it right after its Get, and the panic
  | ["pool", size, ns] =>
    match size.toNat?, (if ns == "." then some [] else (ns.splitOn ",").mapM String.toNat?) with
    | some size, some ns =>
      match getManyD (Pool.new size) ns with
      | .error _ => "panic"
      | .ok (vs, p) =>
        match fillAll p vs 0 with
        | .error _ => "panic"
        | .ok p =>
          let intact := (vs.zipIdx 0).all fun vk => p.read vk.1 == List.replicate vk.1.len ((vk.2 : Int) + 1)
          let views := ",".intercalate (vs.map fun v => s!"{v.start}:{v.len}")
          s!"ok v={if vs.isEmpty then "." else views} intact={if intact then 1 else 0}"
    | _, _ => "bad-args"
  -- Compile / MustCompile: MustCompile panics exactly on the patterns CompileEx rejects
  | ["must", pat] =>
    match Hex.dec pat with
    | some pat => match mustCompile pat with | .ok _ => "ok" | .error _ => "panic"
    | none => "bad-args"
  -- named-field view: the text of {0} and of every named capture, cut out of the line by the caller
  | ["field", ic, pat, line] =>
    match Hex.dec pat, Hex.dec line with
    | some pat, some line =>
      match compileEx pat (ic == "1") with
      | .error e => s!"err {errName e}"
      | .ok d =>
        match matchAll d [line] with
        | .ok [none] => "ok nomatch"
        | .ok [some r] =>
          let cut (i : Nat) : Option Bytes :=
            match r[2 * i]?, r[2 * i + 1]? with
            | some a, some b => sliceOf line a b
            | _, _ => none
          let fields := d.groupNames.map fun e => (cut e.2).map fun t => s!"{Hex.enc e.1}={Hex.enc t}"
          match cut 0, fields.mapM id with
          | some whole, some fs =>
            let fs := fs.mergeSort (fun a b => decide (a ≤ b))
            s!"ok len={r.length} 0={Hex.enc whole} f={if fs.isEmpty then "." else ",".intercalate fs}"
          | _, _ => "panic"
        | _ => "panic"
    | _, _ => "bad-args"
  | _ => "bad-op"

end Rare.Drv.C12
