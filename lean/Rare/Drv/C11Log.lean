import Rare.Drv.Expr
import Rare.Model.C11Log
/-!
C11, round 4b ops (see `harness/corr/c11log.go`):

  lg <ln|log10|log2> <value hex>     `{ln {0}}` / `{log10 {0}}` / `{log2 {0}}` – `math.Log*` as they run on amd64
                                     (`Rare/Model/C11Log.lean`, bit-exact mirror of `log_amd64.s`)
  pw <base hex> <exponent hex>       `{pow {0} {1}}` – `math.Pow`; `unmodelled pow` when the call reaches `math.Exp`
  spec ln|log10 <value hex>          the SPECIFICATION side: the documented algorithm on the `Frexp` decomposition.
                                     Differs from the code exactly on subnormal arguments (known finding).
-/
namespace Rare.Drv.C11Log
open Rare Rare.Expr Rare.C11.Log

def val (b : Bytes) : String := s!"ok val={Hex.enc b}"

def un (f : F64 → F64) (v : Bytes) : String :=
  match Funcs.Float.parseF v with
  | none => val ErrorNum
  | some x => val (Funcs.Float.fmtF (f x))

def handle : List String → Option String
  | ["lg", which, v] => some <|
    match Hex.dec v with
    | some b =>
      if which == "ln" then un logAsm b
      else if which == "log10" then un log10 b
      else if which == "log2" then un log2 b
      else "bad-args"
    | none => "bad-args"
  | ["spec", which, v] =>
    if which == "ln" || which == "log10" then some <|
      match Hex.dec v with
      | some b => if which == "ln" then un logNorm b else un log10Norm b
      | none => "bad-args"
    else none
  | ["pw", a, b] => some <|
    match Hex.dec a, Hex.dec b with
    | some x, some y =>
      (match Funcs.Float.parseF x, Funcs.Float.parseF y with
      | some fx, some fy =>
        (match pow fx fy with
        | some r => val (Funcs.Float.fmtF r)
        | none => "unmodelled pow")
      | _, _ => val ErrorNum)
    | _, _ => "bad-args"
  | _ => none

end Rare.Drv.C11Log
