import Rare.Base.Proto
import Rare.Model.Expr.Funcs.Format
/-!
The `fmt` op of C08 / C11:

    fmt <format hex> <operands hexlist>      `fmt.Sprintf(format, operands...)` as `{format …}` calls it

answers `ok val=<hex>`, `panic`, or `unmodelled format-isprint` when the answer depends on
`unicode.IsPrint` of a non-ASCII rune (`%q` without `+`): the model is evaluated for the two extreme
oracles and declines when they disagree.
-/
namespace Rare.Drv.C08Fmt
open Rare Rare.Expr Rare.Proto Rare.Expr.Funcs

def sprintfAns (format : Bytes) (a : List Bytes) : String :=
  match Format.sprintf (fun _ => true) format a, Format.sprintf (fun _ => false) format a with
  | .ok v, .ok v' => if v = v' then s!"ok val={Hex.enc v}" else "unmodelled format-isprint"
  | _, _ => "panic"

def handle : List String → Option String
  | ["fmt", f, a] =>
    some <| match Hex.dec f, decHexList a with
    | some format, some args => sprintfAns format args
    | _, _ => "bad-args"
  | _ => none

end Rare.Drv.C08Fmt
