import Rare.Drv.Expr
import Rare.Model.C09
import Rare.Model.C09Utf8
import Rare.Spec.C09Frag
import Rare.Model.C09Err
import Rare.Spec.C09WFB
import Rare.Spec.C09Pos
import Rare.Spec.C09FragW
import Rare.Spec.C09All
import Rare.Model.C09Sig
import Rare.Drv.C08Time
/-!
Line-protocol ops of C09.

  expr  <opt> <template> <elems> <keys>          shared op (standard function registry)
  tpl   <opt> <template raw bytes> <elems> <keys> compile + evaluate with the probe registry; the template
                                                  may be invalid UTF-8 (`compileBytes` decodes like `[]rune(s)`)
  xtpl  <opt> <template raw bytes> <elems> <keys> the same with the standard function registry
  runes <raw bytes>                               `[]rune(s)` as code points, `utf8.Valid`, `string([]rune(s))`
  seps  <plane>                                   the runes of a Unicode plane that separate two arguments
  enc   <n,n,…>                                   `string([]rune{n,…})` for arbitrary values (surrogates, > U+10FFFF)
  lit   <opt> <text raw bytes>                    `escapeLit` of the text, compiled and evaluated
  split <text raw bytes>                          `splitTokenizedArguments`
  tree  <opt> <tokens> <elems> <keys>             a serialised (tree, style): the SPEC prints it, the model
                                                  compiles the print; the answer also carries `evalTree`
  stree <opt> <tokens> <elems> <keys>             the same over the STANDARD registry: the tree must be in the fragment
                                                  (`fragOk`, else `not-in-fragment`); the model compiles the SPEC's print
                                                  and checks `print_compile_std_fragment` on it (no errors, value =
                                                  `evalTree` under `stdSem`); the real side compiles ITS print with the real
                                                  function table – so `stdSem` is compared with the real helpers
  look  <opt> <template raw bytes>                 compile with the probe registry, evaluate against a RECORDING context:
                                                  value + every `GetMatch(i)` / `GetKey(k)` in order (so that the integer
                                                  rule of `stageSimpleVariable` is observed, not just its value)
  cerr  <opt> <template raw bytes>                 `StageCount()`, `errors.Is` for the three sentinels, `Unwrap()`, and the
                                                  full `Error()` text of the returned `*CompilerErrors` (errors.go)
  wfck  <opt> <template raw bytes>                 the SPEC's answer to "does this template have a syntax error": the
                                                  decision procedure `wfB` of the grammar `WellFormed` (proved equivalent,
                                                  `wellformed_decidable`) – no compile on the model side; the real side
                                                  answers with `errors.Is` for the three sentinels (`compile_ok_iff_wellformed`)
  serr  <opt> <template raw bytes>                 the SPEC's answer to "which syntax errors, where, with which text, in which
                                                  order": `synErrs` (`Spec/C09Pos.lean`; no compile on the model side); the
                                                  real side lists the recorded errors whose `Err` is one of the three sentinels
                                                  (`syntax_errors_exact`)
  xcli  <opt> <template raw bytes> <elems> <keys>  what `rare expression --raw [--no-optimize] -d … -k … <template>` prints (the
                                                  extra step `extra/C09.py` runs the built CLI): exit status, stdout (value +
                                                  newline) or the first part of stderr (`CompilerErrors.Error()` + newline);
                                                  standard function table; templates with builder errors are `unmodelled`
  kbapi <name> <template raw bytes>                `NewKeyBuilder()` (optimiser on), `Funcs(map)`, `HasFunc(name)`,
                                                  `StageCount()`, `DetailedError.Unwrap()` of every recorded error
  aerr  <opt> <template raw bytes>                 the SPEC's answer to "which errors AT ALL, builder errors included": `allErrs`
                                                  under the arity signature of the probe registry (`Spec/C09All.lean`; no compile on
                                                  the model side); the real side lists every recorded error (`all_errors_exact_arity`)
  aerrs <opt> <template raw bytes>                 the same against the REAL standard function table, for templates whose function
                                                  names are among the 33 arity-only names (else `unmodelled non-arity-name`)
  wtree <opt> <tokens> <elems> <keys>             the WORLD-RELATIVE fragment (`Spec/C09FragW.lean`): trees over the value-level
                                                  names, `format`, the binders `@map @filter @reduce @for` and the UTC time
                                                  helpers; the model compiles the SPEC's print with the registry of the world and
                                                  checks `print_compile_std_fragment_world` on it (no errors, value = `evalW`, the
                                                  tree semantics WITH BINDERS); `wtreex`: without the claim.  The world of the
                                                  driver: `unicode.IsPrint` unknown (both extremes are evaluated; when they differ
                                                  the answer is `unmodelled format-isprint`), library calls beyond C18 `unmodelled`
  streex <opt> <tokens> <elems> <keys>            the same without the claim: any tree over the standard names; the
                                                  theorem is checked when `fragOk` holds, otherwise only compile + evaluate
-/
namespace Rare.Drv.C09
open Rare Rare.Expr Rare.Proto Rare.C09

/-! Go's UTF-8 decoding (`[]rune(s)`, `range s`) is part of the model: `Rare.C09.decodeRunes`,
    `compileBytes`, `splitArgsBytes` (`Rare/Model/C09Utf8.lean`).  Every template / text field of a case
    line is the RAW byte string handed to the real code; nothing is decoded on the harness side. -/

/-- `Compile(template string)` + `BuildKey`, through the byte-level entry point of the model. -/
def answerBytes (reg : Registry) (opt : Bool) (tb : Bytes) (ctx : Ctx) : String :=
  match compileBytes reg opt tb with
  | .error m => Rare.Drv.Expr.panicAns m
  | .ok (stages, errs) =>
    match Rare.Drv.Expr.unmodelledTag errs with
    | some n => "unmodelled " ++ n
    | none =>
      match (buildKey stages).run ctx with
      | .error m => Rare.Drv.Expr.panicAns m
      | .ok v => s!"ok errs={Rare.Drv.Expr.errsStr errs} val={Hex.enc v}"

/-! ### serialised trees: Polish notation, tokens joined by `,`

    L:<hex>:<q>   G:<n>:<lead>:<trail>   K:<hex>:<lead>:<trail>   C:<hex>:<argc>:<lead>:<trail>
    each argument of a call is preceded by  S:<sep>.   White space: a word over a…y (index into
    `spaceRunes`: a = space, b = tab, c = LF … y = U+3000), `-` = empty. -/
inductive PTree where
  | node (e : Expr) (ns : NodeStyle) (kids : List PTree)

/-- White-space words: one letter per rune, `a`… `y` = index 0…24 into `spaceRunes` (`a` = space, `b` = tab). -/
def parseWs (s : String) : WsRun :=
  if s = "-" then [] else s.toList.map (fun c => c.toNat - 97)

def nthSep (seps : List WsRun) (i : Nat) : Nat × WsRun :=
  match seps.getD i [0] with
  | [] => (0, [])
  | b :: r => (b, r)

def hexChars (s : String) : Option (List Char) :=
  (Hex.dec s).map decodeRunes

mutual
def parseNode : Nat → List String → Option (PTree × List String)
  | 0, _ => none
  | f + 1, tok :: rest =>
    match tok.splitOn ":" with
    | ["L", h, q] => (hexChars h).map fun s => (.node (.lit s) ⟨q == "1", [], [], fun _ => (0, [])⟩ [], rest)
    | ["G", n, l, t] => n.toNat?.map fun n => (.node (.group n) ⟨false, parseWs l, parseWs t, fun _ => (0, [])⟩ [], rest)
    | ["K", h, l, t] => (hexChars h).map fun k => (.node (.key k) ⟨false, parseWs l, parseWs t, fun _ => (0, [])⟩ [], rest)
    | ["C", h, c, l, t] =>
      match hexChars h, c.toNat? with
      | some name, some argc =>
        match parseKids f argc rest with
        | some (kids, seps, rest') =>
          let args := kids.map fun | .node e _ _ => e
          some (.node (.call name args) ⟨false, parseWs l, parseWs t, nthSep seps⟩ kids, rest')
        | none => none
      | _, _ => none
    | _ => none
  | _, [] => none
def parseKids : Nat → Nat → List String → Option (List PTree × List WsRun × List String)
  | 0, _, _ => none
  | _, 0, rest => some ([], [], rest)
  | f + 1, n + 1, tok :: rest =>
    match tok.splitOn ":" with
    | ["S", w] =>
      match parseNode f rest with
      | some (k, rest') =>
        match parseKids f n rest' with
        | some (ks, seps, rest'') => some (k :: ks, parseWs w :: seps, rest'')
        | none => none
      | none => none
    | _ => none
  | _, _, [] => none
end

/-- The style function of a parsed tree: follow the path, answer the node's choices. -/
def styleAt : List Nat → PTree → NodeStyle
  | [], .node _ ns _ => ns
  | i :: q, .node _ ns kids =>
    match kids[i]? with
    | some k => styleAt q k
    | none => ns

def styleOf (t : PTree) : Style := fun p => styleAt p t

def treeOf : PTree → Expr
  | .node e _ _ => e

def probeFn : List Char → List Bytes → Bytes := probeSem

def lookStr : Look → String
  | .m i => s!"m{i}"
  | .k key => "k" ++ Hex.enc key

/-- messages of the probe registry's failing builders (`bad`, `nil`) -/
def testFuncMsg (tag : String) : String :=
  if tag == "argcount" then "invalid number of arguments" else "?" ++ tag

def synKindStr : SynKind → String
  | .unterminated => "unterminated"
  | .emptyStatement => "empty"
  | .missingFunction => "missing"

def synErrsStr (es : List SynErr) : String :=
  if es.isEmpty then "." else
  ",".intercalate (es.map fun e => s!"{synKindStr e.kind}@{e.index}:{Hex.enc (encodeRunes e.context)}")

/-! ### rendering for the ops `aerr` / `aerrs` (signatures: `Model/C09Sig.lean`) -/

def repErrsStr (es : List RepErr) : String :=
  if es.isEmpty then "." else
  ",".intercalate (es.map fun e =>
    let k := match e.kind with
      | .syn k => synKindStr k
      | .builder m => "func." ++ m
    s!"{k}@{e.index}:{Hex.enc (encodeRunes e.context)}")

/-! ### the world of the driver (op `wtree`) -/

def drvTw : Funcs.TimeW.TimeWorld := Rare.Drv.C08Time.world {}

/-- `unicode.IsPrint` answers `p` for every non-ASCII rune; library calls beyond the model have no value here
    (the model side answers `unmodelled …` before the value is looked at). -/
def drvWorld (p : Bool) : FragWorld := ⟨fun _ => p, drvTw, fun _ => []⟩

/-- The registry of the driver's world: `format` evaluated for both extremes of `unicode.IsPrint`. -/
def registryW : Registry :=
  mkRegistry (stdTable ++ [("format", Funcs.Format.kfFormatDrv)] ++ Funcs.TimeW.table drvTw) Gen.stdFunctionNames

def handle (args : List String) : String :=
  match args with
  | ["aerr", _, t] =>
    match Hex.dec t with
    | some tb => "ok " ++ repErrsStr (allErrs splitArgs testSig (decodeRunes tb))
    | none => "bad-args"
  | ["aerrs", _, t] =>
    match Hex.dec t with
    | some tb =>
      let es := allErrs splitArgs drvAritySig (decodeRunes tb)
      if es.any (fun e => e.kind == .builder "?") then "unmodelled non-arity-name" else "ok " ++ repErrsStr es
    | none => "bad-args"
  | ["serr", _, t] =>
    match Hex.dec t with
    | some tb => "ok " ++ synErrsStr (synErrs splitArgs (fun n => (testRegistry n).isSome) (decodeRunes tb))
    | none => "bad-args"
  | ["xcli", o, t, el, ks] =>
    match Hex.dec t, decHexList el, decHexList ks with
    | some tb, some elems, some keys =>
      match compileBytes Rare.Drv.Expr.registry (o == "1") tb with
      | .error m => Rare.Drv.Expr.panicAns m
      | .ok (stages, errs) =>
        match Rare.Drv.Expr.unmodelledTag errs with
        | some n => "unmodelled " ++ n
        | none =>
          if errs.any (fun e => match e.kind with | .func _ => true | _ => false) then "unmodelled builder-error"
          else
            match compileError (fun tag => tag) tb errs with
            | some m => s!"ok rc=2 out=- err={Hex.enc (m ++ [10])}"
            | none =>
              match (buildKey stages).run (Rare.Drv.Expr.mkCtx elems keys) with
              | .error m => Rare.Drv.Expr.panicAns m
              | .ok v => s!"ok rc=0 out={Hex.enc (v ++ [10])} err=-"
    | _, _, _ => "bad-args"
  | ["kbapi", n, t] =>
    match Hex.dec n, Hex.dec t with
    | some nb, some tb =>
      let reg := pureRegistry probeNames probeSem
      match compileBytes reg true tb with
      | .error m => Rare.Drv.Expr.panicAns m
      | .ok (stages, errs) =>
        let un := errs.map fun e => match e.kind with
          | .unterminated => "unterminated" | .emptyStatement => "empty" | .missingFunction => "missing" | .func _ => "other"
        s!"ok has={if (reg (decodeRunes nb)).isSome then 1 else 0} n={stages.length} unwrap={if un.isEmpty then "." else ",".intercalate un}"
    | _, _ => "bad-args"
  | ["look", o, t] =>
    match Hex.dec t with
    | some tb =>
      match compileBytes testRegistry (o == "1") tb with
      | .error m => Rare.Drv.Expr.panicAns m
      | .ok (stages, errs) =>
        match runLog (buildKey stages) [] with
        | .error m => Rare.Drv.Expr.panicAns m
        | .ok (v, log) =>
          s!"ok errs={Rare.Drv.Expr.errsStr errs} val={Hex.enc v} log={if log.isEmpty then "." else ",".intercalate (log.map lookStr)}"
    | none => "bad-args"
  | ["wfck", _, t] =>
    match Hex.dec t with
    | some tb =>
      let tc := decodeRunes tb
      let wf := wfB splitArgs (fun n => (testRegistry n).isSome) (tc.length + 1) tc
      s!"ok syn={if wf then 0 else 1}"
    | none => "bad-args"
  | ["cerr", o, t] =>
    match Hex.dec t with
    | some tb =>
      match compileBytes testRegistry (o == "1") tb with
      | .error m => Rare.Drv.Expr.panicAns m
      | .ok (stages, errs) =>
        let b := fun (x : Bool) => if x then "1" else "0"
        let first := match unwrapFirst errs with
          | some e => Hex.enc (detailedError testFuncMsg e)
          | none => "-"
        let msg := match compileError testFuncMsg tb errs with
          | some m => Hex.enc m
          | none => "nil"
        s!"ok n={stages.length} is={b (errorsIs errs .unterminated)}{b (errorsIs errs .emptyStatement)}{b (errorsIs errs .missingFunction)} first={first} msg={msg}"
    | none => "bad-args"
  | ["tpl", o, t, el, ks] =>
    match Hex.dec t, decHexList el, decHexList ks with
    | some tb, some elems, some keys =>
      answerBytes testRegistry (o == "1") tb (Rare.Drv.Expr.mkCtx elems keys)
    | _, _, _ => "bad-args"
  | ["xtpl", o, t, el, ks] =>
    match Hex.dec t, decHexList el, decHexList ks with
    | some tb, some elems, some keys =>
      answerBytes Rare.Drv.Expr.registry (o == "1") tb (Rare.Drv.Expr.mkCtx elems keys)
    | _, _, _ => "bad-args"
  | ["runes", t] =>
    match Hex.dec t with
    | some tb =>
      let rs := decodeUtf8 tb
      let cps := if rs.isEmpty then "." else ",".intercalate (rs.map toString)
      s!"ok {cps} wf={if wellFormed tb then 1 else 0} re={Hex.enc (encodeUtf8 rs)} chars={Hex.enc (encodeRunes (decodeRunes tb))}"
    | none => "bad-args"
  | ["seps", p] =>
    match p.toNat? with
    | some plane =>
      let cs := (List.range 0x10000).filterMap fun i =>
        let c := plane * 0x10000 + i
        if 0xD800 ≤ c && c ≤ 0xDFFF then none
        else if splitArgsBytes ([0x61] ++ Rare.C20.encodeRune c ++ [0x62]) == [[0x61], [0x62]] then some c else none
      s!"ok {if cs.isEmpty then "." else ",".intercalate (cs.map toString)}"
    | none => "bad-args"
  | ["enc", ns] =>
    match (if ns == "." then some [] else (ns.splitOn ",").mapM String.toNat?) with
    | some rs => s!"ok {Hex.enc (encodeUtf8 rs)}"
    | none => "bad-args"
  | ["lit", o, t] =>
    match Hex.dec t with
    | some tb =>
      let text := decodeRunes tb
      let tpl := escapeLit text
      let ans := answerBytes testRegistry (o == "1") (encodeRunes tpl) (Rare.Drv.Expr.mkCtx [] [])
      if ans != s!"ok errs=. val={Hex.enc (utf8 text)}" then s!"spec-violation model {ans}"
      else s!"{ans} tpl={Hex.enc (encodeRunes tpl)}"
    | none => "bad-args"
  | ["split", t] =>
    match Hex.dec t with
    | some tb => s!"ok {hexList (splitArgsBytes tb)}"
    | none => "bad-args"
  | ["tree", o, toks, el, ks] =>
    match decHexList el, decHexList ks with
    | some elems, some keys =>
      let tl := toks.splitOn ","
      match parseNode (tl.length + 1) tl with
      | some (pt, []) =>
        let ctx := Rare.Drv.Expr.mkCtx elems keys
        let tpl := printTop (styleOf pt) (treeOf pt)
        let spec := evalTree (envOf ctx probeFn) (treeOf pt)
        let ans := answerBytes testRegistry (o == "1") (encodeRunes tpl) ctx
        if ans != s!"ok errs=. val={Hex.enc spec}" then
          s!"spec-violation model {ans} tpl={Hex.enc (encodeRunes tpl)} spec={Hex.enc spec}"
        else s!"{ans} tpl={Hex.enc (encodeRunes tpl)} spec={Hex.enc spec}"
      | _ => "bad-args"
    | _, _ => "bad-args"
  | [op, o, toks, el, ks] =>
    if op == "wtree" || op == "wtreex" then
      match decHexList el, decHexList ks with
      | some elems, some keys =>
        let tl := toks.splitOn ","
        match parseNode (tl.length + 1) tl with
        | some (pt, []) =>
          let ctx := Rare.Drv.Expr.mkCtx elems keys
          let tpl := printTop (styleOf pt) (treeOf pt)
          let ans := answerBytes registryW (o == "1") (encodeRunes tpl) ctx
          if ans.startsWith "unmodelled" then ans
          else if fragOkW (drvWorld true) (treeOf pt) && fragOkW (drvWorld false) (treeOf pt) then
            let spec := evalW (drvWorld true) (treeOf pt) ctx
            let spec0 := evalW (drvWorld false) (treeOf pt) ctx
            if spec != spec0 then "unmodelled format-isprint"
            else if ans != s!"ok errs=. val={Hex.enc spec}" then
              s!"spec-violation model {ans} tpl={Hex.enc (encodeRunes tpl)} spec={Hex.enc spec}"
            else ans
          else if op == "wtree" then s!"not-in-fragment tpl={Hex.enc (encodeRunes tpl)}"
          else ans
        | _ => "bad-args"
      | _, _ => "bad-args"
    else if op == "stree" || op == "streex" then
      match decHexList el, decHexList ks with
      | some elems, some keys =>
        let tl := toks.splitOn ","
        match parseNode (tl.length + 1) tl with
        | some (pt, []) =>
          let ctx := Rare.Drv.Expr.mkCtx elems keys
          let tpl := printTop (styleOf pt) (treeOf pt)
          let ans := answerBytes Rare.Drv.Expr.registry (o == "1") (encodeRunes tpl) ctx
          if fragOk (treeOf pt) then
            let spec := evalTree (envOf ctx stdSem) (treeOf pt)
            if ans != s!"ok errs=. val={Hex.enc spec}" then
              s!"spec-violation model {ans} tpl={Hex.enc (encodeRunes tpl)} spec={Hex.enc spec}"
            else ans
          else if op == "stree" then s!"not-in-fragment tpl={Hex.enc (encodeRunes tpl)}"
          else ans
        | _ => "bad-args"
      | _, _ => "bad-args"
    else
      match Rare.Drv.Expr.handle args with
      | some a => a
      | none => "bad-op"
  | _ =>
    match Rare.Drv.Expr.handle args with
    | some a => a
    | none => "bad-op"

end Rare.Drv.C09
