import Rare.Drv.Expr
import Rare.Model.C09
/-!
Line-protocol ops of C09.

  expr  <opt> <template> <elems> <keys>          shared op (standard function registry)
  tpl   <opt> <template raw bytes> <elems> <keys> compile + evaluate with the probe registry; the template
                                                  may be invalid UTF-8 (decoded the way Go's `[]rune(s)` does)
  lit   <opt> <text raw bytes>                    `escapeLit` of the text, compiled and evaluated
  split <text raw bytes>                          `splitTokenizedArguments`
  tree  <opt> <tokens> <elems> <keys>             a serialised (tree, style): the SPEC prints it, the model
                                                  compiles the print; the answer also carries `evalTree`
-/
namespace Rare.Drv.C09
open Rare Rare.Expr Rare.Proto Rare.C09

/-! Go's UTF-8 decoding (`[]rune(s)`, `range s`): every byte that does not start a well-formed
    sequence becomes U+FFFD on its own. -/
def cont (b : UInt8) (lo hi : UInt8) : Bool := lo ≤ b && b ≤ hi

/-- First rune of a non-empty byte string and its width. -/
def decodeOne (b0 : UInt8) (rest : Bytes) : Char × Nat :=
  let bad : Char × Nat := (Char.ofNat 0xFFFD, 1)
  let n0 := b0.toNat
  if n0 < 0x80 then (Char.ofNat n0, 1)
  else if 0xC2 ≤ n0 && n0 ≤ 0xDF then
    match rest with
    | b1 :: _ => if cont b1 0x80 0xBF then (Char.ofNat ((n0 - 0xC0) * 64 + (b1.toNat - 0x80)), 2) else bad
    | _ => bad
  else if 0xE0 ≤ n0 && n0 ≤ 0xEF then
    let lo : UInt8 := if n0 == 0xE0 then 0xA0 else 0x80
    let hi : UInt8 := if n0 == 0xED then 0x9F else 0xBF
    match rest with
    | b1 :: b2 :: _ =>
      if cont b1 lo hi && cont b2 0x80 0xBF then
        (Char.ofNat ((n0 - 0xE0) * 4096 + (b1.toNat - 0x80) * 64 + (b2.toNat - 0x80)), 3)
      else bad
    | _ => bad
  else if 0xF0 ≤ n0 && n0 ≤ 0xF4 then
    let lo : UInt8 := if n0 == 0xF0 then 0x90 else 0x80
    let hi : UInt8 := if n0 == 0xF4 then 0x8F else 0xBF
    match rest with
    | b1 :: b2 :: b3 :: _ =>
      if cont b1 lo hi && cont b2 0x80 0xBF && cont b3 0x80 0xBF then
        (Char.ofNat ((n0 - 0xF0) * 262144 + (b1.toNat - 0x80) * 4096 + (b2.toNat - 0x80) * 64 + (b3.toNat - 0x80)), 4)
      else bad
    | _ => bad
  else bad

def decodeGoF : Nat → Bytes → List Char
  | 0, _ => []
  | _, [] => []
  | f + 1, b0 :: rest =>
    let (c, w) := decodeOne b0 rest
    c :: decodeGoF f (rest.drop (w - 1))

def decodeGo (b : Bytes) : List Char := decodeGoF b.length b

def answer (reg : Registry) (opt : Bool) (t : List Char) (ctx : Ctx) : String :=
  Rare.Drv.Expr.evalWith reg opt t ctx

/-! ### serialised trees: Polish notation, tokens joined by `,`

    L:<hex>:<q>   G:<n>:<lead>:<trail>   K:<hex>:<lead>:<trail>   C:<hex>:<argc>:<lead>:<trail>
    each argument of a call is preceded by  S:<sep>.   White space: a word over s/t, `-` = empty. -/
inductive PTree where
  | node (e : Expr) (ns : NodeStyle) (kids : List PTree)

def parseWs (s : String) : List Bool :=
  if s = "-" then [] else s.toList.map (· == 't')

def nthSep (seps : List (List Bool)) (i : Nat) : Bool × List Bool :=
  match seps.getD i [false] with
  | [] => (false, [])
  | b :: r => (b, r)

def hexChars (s : String) : Option (List Char) :=
  (Hex.dec s).bind Rare.Drv.Expr.decodeTemplate

mutual
def parseNode : Nat → List String → Option (PTree × List String)
  | 0, _ => none
  | f + 1, tok :: rest =>
    match tok.splitOn ":" with
    | ["L", h, q] => (hexChars h).map fun s => (.node (.lit s) ⟨q == "1", [], [], fun _ => (false, [])⟩ [], rest)
    | ["G", n, l, t] => n.toNat?.map fun n => (.node (.group n) ⟨false, parseWs l, parseWs t, fun _ => (false, [])⟩ [], rest)
    | ["K", h, l, t] => (hexChars h).map fun k => (.node (.key k) ⟨false, parseWs l, parseWs t, fun _ => (false, [])⟩ [], rest)
    | ["C", h, c, l, t] =>
      match hexChars h, c.toNat? with
      | some name, some argc =>
        match parseKids f argc rest with
        | some (kids, seps, rest') =>
          let args := kids.map fun | .node e _ _ => e
          some (.node (.call name args) ⟨false, parseWs l, parseWs t, nthSep seps⟩ kids, rest')
        | none => none
      | _, _ => none
    | _ => none
  | _, [] => none
def parseKids : Nat → Nat → List String → Option (List PTree × List (List Bool) × List String)
  | 0, _, _ => none
  | _, 0, rest => some ([], [], rest)
  | f + 1, n + 1, tok :: rest =>
    match tok.splitOn ":" with
    | ["S", w] =>
      match parseNode f rest with
      | some (k, rest') =>
        match parseKids f n rest' with
        | some (ks, seps, rest'') => some (k :: ks, parseWs w :: seps, rest'')
        | none => none
      | none => none
    | _ => none
  | _, _, [] => none
end

/-- The style function of a parsed tree: follow the path, answer the node's choices. -/
def styleAt : List Nat → PTree → NodeStyle
  | [], .node _ ns _ => ns
  | i :: q, .node _ ns kids =>
    match kids[i]? with
    | some k => styleAt q k
    | none => ns

def styleOf (t : PTree) : Style := fun p => styleAt p t

def treeOf : PTree → Expr
  | .node e _ _ => e

def probeFn : List Char → List Bytes → Bytes := probeSem

def handle (args : List String) : String :=
  match args with
  | ["tpl", o, t, el, ks] =>
    match Hex.dec t, decHexList el, decHexList ks with
    | some tb, some elems, some keys =>
      answer testRegistry (o == "1") (decodeGo tb) (Rare.Drv.Expr.mkCtx elems keys)
    | _, _, _ => "bad-args"
  | ["lit", o, t] =>
    match Hex.dec t with
    | some tb =>
      let text := decodeGo tb
      let tpl := escapeLit text
      let ans := answer testRegistry (o == "1") tpl (Rare.Drv.Expr.mkCtx [] [])
      if ans != s!"ok errs=. val={Hex.enc (utf8 text)}" then s!"spec-violation model {ans}"
      else s!"{ans} tpl={Hex.enc (encodeRunes tpl)}"
    | none => "bad-args"
  | ["split", t] =>
    match Hex.dec t with
    | some tb => s!"ok {hexList ((splitArgs (decodeGo tb)).map encodeRunes)}"
    | none => "bad-args"
  | ["tree", o, toks, el, ks] =>
    match decHexList el, decHexList ks with
    | some elems, some keys =>
      let tl := toks.splitOn ","
      match parseNode (tl.length + 1) tl with
      | some (pt, []) =>
        let ctx := Rare.Drv.Expr.mkCtx elems keys
        let tpl := printTop (styleOf pt) (treeOf pt)
        let spec := evalTree (envOf ctx probeFn) (treeOf pt)
        let ans := answer testRegistry (o == "1") tpl ctx
        if ans != s!"ok errs=. val={Hex.enc spec}" then
          s!"spec-violation model {ans} tpl={Hex.enc (encodeRunes tpl)} spec={Hex.enc spec}"
        else s!"{ans} tpl={Hex.enc (encodeRunes tpl)} spec={Hex.enc spec}"
      | _ => "bad-args"
    | _, _ => "bad-args"
  | _ =>
    match Rare.Drv.Expr.handle args with
    | some a => a
    | none => "bad-op"

end Rare.Drv.C09
