import Rare.Base.Proto
import Rare.Model.C07Acc
import Rare.Drv.Expr
/-!
Driver ops of C07 for the accumulating-group aggregator (see `harness/corr/c07acc.go`):

  acc <opt 0|1> <rev 0|1> <ops>

`ops` is a comma-separated call sequence on a fresh `AccumulatingGroup` whose compiler is
`funclib.NewKeyBuilderEx(opt)`:

  g:<name>:<template>            AddGroupExpr
  d:<name>:<template>:<initial>  AddDataExpr
  o:<template>                   SetSort
  s:<element>                    Sample

(all fields hex).  Templates are compiled by the SHARED expression model (`Rare.Expr.compile` with
the standard registry); a template using a helper outside the model makes the whole case
`unmodelled <name>`.  After EVERY call the full state is dumped through the public accessors.
-/
namespace Rare.Drv.C07Acc
open Rare Rare.C07 Rare.Proto Rare.Expr

inductive CompileRes
  | stage (s : Stage)
  | errors
  | panic
  | unmodelled (n : String)

/-- `compiler.Compile(template)` as far as `AccumulatingGroup` looks at it: a compiled builder, or errors. -/
def compileT (opt : Bool) (t : Bytes) : CompileRes :=
  match Rare.Drv.Expr.decodeTemplate t with
  | none => .panic        -- the harness only sends valid UTF-8
  | some tc =>
    match compile Rare.Drv.Expr.registry opt tc with
    | .error m => if m.startsWith "unmodelled:" then .unmodelled (m.drop 11).toString else .panic
    | .ok (stages, errs) =>
      match Rare.Drv.Expr.unmodelledTag errs with
      | some n => .unmodelled n
      | none => if errs.isEmpty then .stage (buildKey stages) else .errors

inductive Op
  | group (name t : Bytes)
  | data (name t initial : Bytes)
  | sort (t : Bytes)
  | sample (e : Bytes)

def parseOp (s : String) : Option Op :=
  match s.splitOn ":" with
  | ["g", n, t] => do pure (.group (← Hex.dec n) (← Hex.dec t))
  | ["d", n, t, i] => do pure (.data (← Hex.dec n) (← Hex.dec t) (← Hex.dec i))
  | ["o", t] => do pure (.sort (← Hex.dec t))
  | ["s", e] => do pure (.sample (← Hex.dec e))
  | _ => none

def errStr : Option String → String
  | none => "ok"
  | some e => e

def sortBytes (l : List Bytes) : List Bytes := l.mergeSort fun a b => !bLt b a

def missingKey : Bytes := [1, 109, 105, 115, 115]

/-- Full dump through the accessors; `.error` when `Groups` panics. -/
def dump (s : AccGroup) (rev : Bool) : Except String String :=
  let less : Bytes → Bytes → Bool := if rev then (fun a b => !bLt a b) else bLt
  match s.groups less with
  | .error m => .error m
  | .ok gs =>
    let rows := (sortBytes (akeys s.data)).map fun k =>
      s!"{Hex.enc k}:{hexList (s.dataOf k)}:{hexList (s.dataNoCopy k)}:{hexList (groupKeyParts k)}"
    .ok s!"gc={hexList s.groupCols} dc={hexList s.dataCols} cnt={s.dataCount} cols={s.colCount}/{s.groupColCount} pe={s.parseErrors} rows[{",".intercalate rows}] groups={hexList gs} miss={hexList (s.dataOf missingKey)}/{hexList (s.dataNoCopy missingKey)}"

inductive Outcome
  | ok (outs : List String)
  | panic
  | unmodelled (n : String)

def errAns (m : String) : Outcome :=
  if m.startsWith "unmodelled:" then .unmodelled (m.drop 11).toString else .panic

/-- Apply one call with an already compiled template. -/
def step (s : AccGroup) (opt : Bool) (op : Op) : Except Outcome (AccGroup × String) :=
  let withC (t : Bytes) (k : Option Stage → AccGroup × Option String) : Except Outcome (AccGroup × String) :=
    -- Go checks "data exists" / "duplicate name" before it compiles: then the template is never looked at
    let pre := k none
    if pre.2 == some "existing-data" || pre.2 == some "duplicate" then .ok (pre.1, errStr pre.2) else
    match compileT opt t with
    | .panic => .error .panic
    | .unmodelled n => .error (.unmodelled n)
    | .errors => let r := k none; .ok (r.1, errStr r.2)
    | .stage st => let r := k (some st); .ok (r.1, errStr r.2)
  match op with
  | .group n t => withC t (s.addGroupExpr n)
  | .data n t i => withC t (fun c => s.addDataExpr n c i)
  | .sort t => withC t s.setSort
  | .sample e =>
    match s.sample e with
    | .error m => .error (errAns m)
    | .ok s' => .ok (s', "-")

def runOps (opt rev : Bool) (ops : List Op) : Outcome :=
  let rec go (s : AccGroup) (ops : List Op) (outs : List String) : Outcome :=
    match ops with
    | [] => .ok outs.reverse
    | op :: rest =>
      match step s opt op with
      | .error o => o
      | .ok (s', e) =>
        match dump s' rev with
        | .error m => errAns m
        | .ok d => go s' rest (s!"e={e} {d}" :: outs)
  go {} ops []

def handle : List String → Option String
  | ["acc", o, r, ops] =>
    some <| match (if ops = "." then some [] else (ops.splitOn ",").mapM parseOp) with
    | none => "bad-args"
    | some ops =>
      match runOps (o == "1") (r == "1") ops with
      | .ok outs => "ok " ++ " | ".intercalate outs
      | .panic => "panic"
      | .unmodelled n => "unmodelled " ++ n
  | _ => none

end Rare.Drv.C07Acc
