import Rare.Base.Proto
import Rare.Model.C07Acc
import Rare.Model.C07AccCompile
import Rare.Drv.Expr
/-!
Driver ops of C07 for the accumulating-group aggregator (see `harness/corr/c07acc.go`):

  acc <opt 0|1> <rev 0|1> <ops>

`ops` is a comma-separated call sequence on a fresh `AccumulatingGroup` whose compiler is
`funclib.NewKeyBuilderEx(opt)`:

  g:<name>:<template>            AddGroupExpr
  d:<name>:<template>:<initial>  AddDataExpr
  o:<template>                   SetSort
  s:<element>                    Sample

(all fields hex).  Templates are compiled by the SHARED expression model (`Rare.Expr.compile` with
the standard registry) inside the model's template-level calls (`AccGroup.applyT`, `Model/C07AccCompile.lean`);
a template using a helper outside the model makes the whole case `unmodelled <name>`.  After EVERY call the full state is dumped through the public accessors.
-/
namespace Rare.Drv.C07Acc
open Rare Rare.C07 Rare.Proto Rare.Expr

inductive Op
  | group (name t : Bytes)
  | data (name t initial : Bytes)
  | sort (t : Bytes)
  | sample (e : Bytes)

def parseOp (s : String) : Option Op :=
  match s.splitOn ":" with
  | ["g", n, t] => do pure (.group (← Hex.dec n) (← Hex.dec t))
  | ["d", n, t, i] => do pure (.data (← Hex.dec n) (← Hex.dec t) (← Hex.dec i))
  | ["o", t] => do pure (.sort (← Hex.dec t))
  | ["s", e] => do pure (.sample (← Hex.dec e))
  | _ => none

def errStr : Option String → String
  | none => "ok"
  | some e => e

def sortBytes (l : List Bytes) : List Bytes := l.mergeSort fun a b => !bLt b a

def missingKey : Bytes := [1, 109, 105, 115, 115]

/-- Full dump through the accessors; `.error` when `Groups` panics. -/
def dump (s : AccGroup) (rev : Bool) : Except String String :=
  let less : Bytes → Bytes → Bool := if rev then (fun a b => !bLt a b) else bLt
  match s.groups less with
  | .error m => .error m
  | .ok gs =>
    let rows := (sortBytes (akeys s.data)).map fun k =>
      s!"{Hex.enc k}:{hexList (s.dataOf k)}:{hexList (s.dataNoCopy k)}:{hexList (groupKeyParts k)}"
    .ok s!"gc={hexList s.groupCols} dc={hexList s.dataCols} cnt={s.dataCount} cols={s.colCount}/{s.groupColCount} pe={s.parseErrors} rows[{",".intercalate rows}] groups={hexList gs} miss={hexList (s.dataOf missingKey)}/{hexList (s.dataNoCopy missingKey)}"

inductive Outcome
  | ok (outs : List String)
  | panic
  | unmodelled (n : String)

def errAns (m : String) : Outcome :=
  if m.startsWith "unmodelled:" then .unmodelled (m.drop 11).toString else .panic

def toTOp : Op → Option AccTOp
  | .group n t => (Rare.Drv.Expr.decodeTemplate t).map (AccTOp.addGroup n)
  | .data n t i => (Rare.Drv.Expr.decodeTemplate t).map fun tc => AccTOp.addData n tc i
  | .sort t => (Rare.Drv.Expr.decodeTemplate t).map AccTOp.setSort
  | .sample e => some (.sample e)

def templateOf : AccTOp → Option (List Char)
  | .addGroup _ t => some t
  | .addData _ t _ => some t
  | .setSort t => some t
  | .sample _ => none

/-- Apply one call through the model's template-level `AccGroup.applyT` (`Model/C07AccCompile.lean`: Go checks
"data exists" / "duplicate name" before it compiles, then the template is never looked at).  The driver only
adds the `unmodelled` verdict for helpers outside the shared expression model. -/
def step (s : AccGroup) (opt : Bool) (op : Op) : Except Outcome (AccGroup × String) :=
  match toTOp op with
  | none => .error .panic        -- the harness only sends valid UTF-8
  | some top =>
    let unm : Option String :=
      if s.compiles top then
        match templateOf top with
        | some tc =>
          (match compile Rare.Drv.Expr.registry opt tc with
           | .ok (_, errs) => Rare.Drv.Expr.unmodelledTag errs
           | .error _ => none)
        | none => none
      else none
    match unm with
    | some n => .error (.unmodelled n)
    | none =>
      match s.applyT Rare.Drv.Expr.registry opt top with
      | .error m => .error (errAns m)
      | .ok (s', e) => .ok (s', if top.isSample then "-" else errStr e)

def runOps (opt rev : Bool) (ops : List Op) : Outcome :=
  let rec go (s : AccGroup) (ops : List Op) (outs : List String) : Outcome :=
    match ops with
    | [] => .ok outs.reverse
    | op :: rest =>
      match step s opt op with
      | .error o => o
      | .ok (s', e) =>
        match dump s' rev with
        | .error m => errAns m
        | .ok d => go s' rest (s!"e={e} {d}" :: outs)
  go {} ops []

/-- `gk <perm> <elements>`: groups `{p}` for every digit of `perm`, the data column `c = {sumi {.} 1}` (initial 0),
every element sampled; the records of `csv.WriteAccumulator` and `Parts()` of every group key. -/
def runGk (perm : String) (elems : List Bytes) : String :=
  let digits : List Char := if perm = "-" then [] else perm.toList
  let gops : List Op := (List.range digits.length).map fun i =>
    Op.group (ascii s!"g{i}") (ascii s!"\{{digits.getD i '0'}}")
  let ops := gops ++ [Op.data (ascii "c") (ascii "{sumi {.} 1}") (ascii "0")] ++ elems.map Op.sample
  let rec go (s : AccGroup) (ops : List Op) : Except Outcome AccGroup :=
    match ops with
    | [] => .ok s
    | op :: rest =>
      match step s true op with
      | .error o => .error o
      | .ok (s', _) => go s' rest
  match go {} ops with
  | .error .panic => "panic"
  | .error (.unmodelled n) => "unmodelled " ++ n
  | .error (.ok _) => "bad-args"
  | .ok s =>
    match s.csvRows, s.groups bLt with
    | .ok rows, .ok gs =>
      s!"ok n={s.groupColCount} rows={"|".intercalate (rows.map hexList)} parts={"|".intercalate (gs.map fun k => hexList (groupKeyParts k))}"
    | _, _ => "panic"

def handle : List String → Option String
  | ["parts", k] => some <| match Hex.dec k with
    | some k => "ok " ++ hexList (groupKeyParts k)
    | none => "bad-args"
  | ["gk", perm, es] => some <| match decHexList es with
    | some es => runGk perm es
    | none => "bad-args"
  | ["acc", o, r, ops] =>
    some <| match (if ops = "." then some [] else (ops.splitOn ",").mapM parseOp) with
    | none => "bad-args"
    | some ops =>
      match runOps (o == "1") (r == "1") ops with
      | .ok outs => "ok " ++ " | ".intercalate outs
      | .panic => "panic"
      | .unmodelled n => "unmodelled " ++ n
  | _ => none

end Rare.Drv.C07Acc
