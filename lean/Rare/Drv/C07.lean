import Rare.Base.Proto
import Rare.Model.C07
import Rare.Model.C07Sorted
import Rare.Drv.C07Acc
import Rare.Drv.C07NumF64
import Rare.Base.F64Str
/-!
Line-protocol driver for C07 (see `harness/corr/c07.go` for the op list and dump formats).

`Float` appears only in this file: the polymorphic numerical model (`Rare.C07.Numerical`) is
instantiated with IEEE doubles so that its answers can be compared bit for bit with the Go code
(same operations in the same order; Go on amd64 does not fuse multiply-add), and the float results
are additionally checked against the exact rational instance of the same model (`tol=ok`).
-/
namespace Rare.Drv.C07
open Rare Rare.C07 Rare.Proto

def sortByKey {α : Type} (l : List (Bytes × α)) : List (Bytes × α) :=
  l.mergeSort fun a b => !bLt b.1 a.1

def commaJoin (l : List String) : String := ",".intercalate l

def dumpCounter (c : Counter) : String :=
  let items := (sortByKey c.items).map fun (k, v) => s!"{Hex.enc k}={v}"
  s!"e={c.errors} t={c.total} n={c.items.length} [{commaJoin items}]"

def dumpSubKey (c : SubKeyCounter) : String :=
  let items := (sortByKey c.items).map fun (k, it) =>
    s!"{Hex.enc k}={it.count}({commaJoin (it.submatches.map toString)})"
  s!"e={c.errors} sk={hexList c.subKeys} [{commaJoin items}]"

def dumpTable (t : Table) : String :=
  let cols := (akeys t.cols).mergeSort fun a b => !bLt b a
  let cparts := cols.map fun c => s!"{Hex.enc c}={t.colTotal c}"
  let rparts := (sortByKey t.rows).map fun (_, r) =>
    s!"{Hex.enc r.name}={r.sum}({commaJoin (cols.map fun c => toString (r.value c))})"
  let mm := t.computeMinMax
  s!"e={t.errors} rc={t.rows.length} cc={t.cols.length} sum={t.sum} min={mm.1} max={mm.2} cols[{commaJoin cparts}] rows[{commaJoin rparts}]"

/-- scan-left: the model state after every prefix. -/
def prefixes {σ : Type} (step : σ → Bytes → σ) (init : σ) (h : List Bytes) : List σ :=
  (h.foldl (fun (acc : σ × List σ) e => let s := step acc.1 e; (s, s :: acc.2)) (init, [])).2.reverse

def bar (l : List String) : String := " | ".intercalate l

/-! table ops -/

structure PredSpec where
  neg : Bool
  cols : List Bytes
  rows : List Bytes
  lo : Int
  hi : Int

def PredSpec.eval (p : PredSpec) : Pred := fun c r v =>
  (p.cols.contains c || p.rows.contains r || (decide (p.lo ≤ v) && decide (v ≤ p.hi))) != p.neg

inductive TOp
  | sample (e : Bytes)
  | trim (p : PredSpec)

def parseTOp (s : String) : Option TOp :=
  match s.splitOn ":" with
  | ["s", h] => (Hex.dec h).map TOp.sample
  | ["t", n, cs, rs, lo, hi] => do
    let cs ← decHexList cs
    let rs ← decHexList rs
    let lo ← lo.toInt?
    let hi ← hi.toInt?
    pure (TOp.trim ⟨n == "1", cs, rs, lo, hi⟩)
  | _ => none

def runTable (d : Bytes) (ops : List TOp) : String :=
  let (_, outs) := ops.foldl (fun (acc : Table × List String) op =>
    match op with
    | .sample e => let t := acc.1.sample e; (t, dumpTable t :: acc.2)
    | .trim p =>
      -- insertion order as the map order; reversed order must agree (cheap self-check, the theorem covers all orders)
      let r := acc.1.trim p.eval (akeys acc.1.cols) (fun _ => akeys acc.1.rows)
      let r2 := acc.1.trim p.eval (akeys acc.1.cols).reverse (fun _ => (akeys acc.1.rows).reverse)
      let tag := if dumpTable r.1 == dumpTable r2.1 && r.2 == r2.2 then "" else "order-dependent "
      (r.1, s!"{tag}trim={r.2} {dumpTable r.1}" :: acc.2)) (({ delim := d } : Table), [])
  "ok " ++ bar outs.reverse

/-! numerical on Lean's native `Float` (second opinion next to the software-float ops `numf` / `numfv`):
`strconv.ParseFloat` is the model's `F64.parseFloat`, its bit pattern handed to `Float.ofBits` -/

def parseNative (s : Bytes) : Option Float := (F64.parseFloat s).map fun v => Float.ofBits v.toBits

/-- Exact value of a finite double. -/
def floatToRat (f : Float) : Option Rat :=
  let b := f.toBits.toNat
  let sign := b / 2 ^ 63
  let ex : Nat := (b / 2 ^ 52) % 2048
  let mant := b % 2 ^ 52
  if ex = 2047 then none
  else
    let (m, e) : Nat × Int := if ex = 0 then (mant, -1074) else (2 ^ 52 + mant, (ex : Int) - 1075)
    let v : Rat := if e ≥ 0 then ((m * 2 ^ e.toNat : Nat) : Rat) else (m : Rat) / ((2 ^ (-e).toNat : Nat) : Rat)
    some (if sign = 1 then -v else v)

def floatOps : NumOps Float :=
  { add := (· + ·), sub := (· - ·), mul := (· * ·), div := (· / ·), ofNat := Float.ofNat,
    lt := fun a b => decide (a < b), zero := 0.0,
    maxVal := Float.ofBits 0x7FF0000000000000, negMaxVal := Float.ofBits 0xFFF0000000000000 }

/-- bits of a double, both zeros printed as +0 (sort order of -0/+0 is unspecified in Go). -/
def bits (f : Float) : String := if f == 0.0 then "0" else if f.isNaN then "nan" else toString f.toBits.toNat

def rabs (q : Rat) : Rat := if q < 0 then -q else q

/-- Float results of the model against the exact rational run of the same model on the same doubles. -/
def tolCheck (vals : List Float) : String :=
  match vals.mapM floatToRat with
  | none => "tol=ok"
  | some qs =>
    let sf := vals.foldl (Numerical.samplef floatOps false) (Numerical.new floatOps)
    let sq := qs.foldl (Numerical.samplef ratOps false) (Numerical.new ratOps)
    match floatToRat sf.mean, floatToRat (sf.varianceOf floatOps), floatToRat (sf.varianceOf floatOps).sqrt with
    | some mf, some vf, some sdf =>
      if qs.isEmpty then "tol=ok" else
      let n : Rat := (qs.length : Rat)
      let maxAbs := qs.foldl (fun a x => if rabs x > a then rabs x else a) 0
      let spread := sq.max - sq.min
      let eps : Rat := 1 / 4503599627370496
      let delta := 2 * eps * n * (1 + maxAbs)
      let vq := sq.varianceOf ratOps
      let okMean : Bool := decide <| rabs (mf - sq.mean) ≤ delta
      let okVar : Bool := decide <| rabs (vf - vq) ≤ vq / 1000000000 + 4 * delta * spread * 2 + delta * delta
      let okSd : Bool := decide <| rabs (sdf * sdf - vf) ≤ 4 * eps * vf
      let okMin := floatToRat sf.min == some sq.min && floatToRat sf.max == some sq.max
      if okMean && okVar && okSd && okMin then "tol=ok"
      else s!"tol=bad(mean={okMean},var={okVar},sd={okSd},minmax={okMin})"
    | _, _, _ => "tol=ok"

def runNum (keep rev : Bool) (hist : List Bytes) (qs : List String) : String :=
  let parsed := hist.map parseNative
  match qs.mapM (fun q => parseNative (ascii q)) with
  | none => "bad-args"
  | some ps =>
    let step := fun (s : Numerical Float) (p : Option Float) =>
      match p with
      | some v => Numerical.samplef floatOps keep s v
      | none => { s with parseErrors := s.parseErrors + 1 }
    let (final, outs) := parsed.foldl (fun (acc : Numerical Float × List String) p =>
      let s := step acc.1 p
      (s, s!"n={s.samples} e={s.parseErrors} mean={bits s.mean} var={bits (s.varianceOf floatOps)} sd={bits (s.varianceOf floatOps).sqrt} min={bits s.min} max={bits s.max}" :: acc.2))
      (Numerical.new floatOps, [])
    let lt : Float → Float → Bool := fun a b => decide (a < b) || (a.isNaN && !b.isNaN)
    let ordered := analyze { floatOps with lt := lt } rev final.values
    let qouts := ps.map fun p =>
      match quantileAt (0.0 : Float) ordered (Float.ofNat ordered.length * p).toInt64.toInt with
      | .ok v => bits v
      | .error _ => "panic"
    if qouts.contains "panic" then "panic"
    else
      let vals := parsed.filterMap id
      let last := s!"median={bits (median 0.0 ordered)} mode={bits (mode 0.0 (fun a b => a == b) ordered)} q[{commaJoin qouts}]"
      s!"ok {tolCheck vals} " ++ bar (outs.reverse ++ [last])

def runSplit (d s : Bytes) (n : Nat) : String :=
  let (_, outs) := (List.range n).foldl (fun (acc : Splitter × List String) _ =>
    let (v, sp) := acc.1.next'
    (sp, s!"{Hex.enc v}/{if sp.done then 1 else 0}" :: acc.2)) (({ S := s, delim := d } : Splitter), [])
  "ok " ++ commaJoin outs.reverse

/-! sorted / counted accessors -/

def nvSorter (n : String) : NVLess := if n == "v" then nvValueSorter else nvNameSorter

def runSortedCounter (less : NVLess) (count : Int) (hist : List Bytes) : String :=
  let c := Counter.run hist
  match c.itemsSortedBy less (akeys c.items) count with
  | .error _ => "panic"
  | .ok items => s!"ok gc={c.groupCount} [{commaJoin (items.map fun (k, v) => s!"{Hex.enc k}={v}")}]"

def runSortedSubKey (less : NVLess) (hist : List Bytes) : String :=
  match SubKeyCounter.run hist with
  | .error _ => "panic"
  | .ok s =>
    let items := s.itemsSorted less (akeys s.items)
    s!"ok [{commaJoin (items.map fun (k, it) => s!"{Hex.enc k}={it.count}")}]"

def runSortedTable (less : NVLess) (d : Bytes) (hist : List Bytes) : String :=
  let t := Table.run d hist
  let cols := t.orderedColumns less (akeys t.cols)
  let rows := t.orderedRows less (akeys t.rows)
  s!"ok cc={t.columnCount} rc={t.rowCount} cols[{commaJoin (cols.map fun c => s!"{Hex.enc c}={t.colTotal c}")}] rows[{commaJoin (rows.map fun r => s!"{Hex.enc r.name}={r.sum}")}]"

def handle : List String → String
  | ["sorted", "counter", srt, count, h] =>
    match decHexList h, count.toInt? with
    | some hist, some n => runSortedCounter (nvSorter srt) n hist
    | _, _ => "bad-args"
  | ["sorted", "subkey", srt, h] =>
    match decHexList h with
    | some hist => runSortedSubKey (nvSorter srt) hist
    | none => "bad-args"
  | ["sorted", "table", srt, d, h] =>
    match Hex.dec d, decHexList h with
    | some d, some hist => runSortedTable (nvSorter srt) d hist
    | _, _ => "bad-args"
  | "acc" :: rest => (C07Acc.handle ("acc" :: rest)).getD "bad-args"
  | "gk" :: rest => (C07Acc.handle ("gk" :: rest)).getD "bad-args"
  | "parts" :: rest => (C07Acc.handle ("parts" :: rest)).getD "bad-args"
  | ["agg", "numf", k, r, h, q] => (C07NumF64.handle ["agg", "numf", k, r, h, q]).getD "bad-args"
  | ["agg", "numfv", k, r, h, q] => (C07NumF64.handle ["agg", "numfv", k, r, h, q]).getD "bad-args"
  | ["agg", "numerr", e, h] => (C07NumF64.handle ["agg", "numerr", e, h]).getD "bad-args"
  | ["agg", "numh", k, r, o, q] => (C07NumF64.handle ["agg", "numh", k, r, o, q]).getD "bad-args"
  | ["agg", "counter", h] =>
    match decHexList h with
    | some hist => "ok " ++ bar ((prefixes Counter.sample {} hist).map dumpCounter)
    | none => "bad-args"
  | ["agg", "subkey", h] =>
    match decHexList h with
    | some hist =>
      let (_, outs, bad) := hist.foldl (fun (acc : SubKeyCounter × List String × Bool) e =>
        if acc.2.2 then acc else
        match acc.1.sample e with
        | .ok s => (s, dumpSubKey s :: acc.2.1, false)
        | .error _ => (acc.1, acc.2.1, true)) (({} : SubKeyCounter), [], false)
      if bad then "panic" else "ok " ++ bar outs.reverse
    | none => "bad-args"
  | ["agg", "table", d, ops] =>
    match Hex.dec d, (if ops = "." then some [] else (ops.splitOn ",").mapM parseTOp) with
    | some d, some ops => runTable d ops
    | _, _ => "bad-args"
  | ["agg", "num", keep, rev, h, qs] =>
    match decHexList h with
    | some hist => runNum (keep == "1") (rev == "1") hist (if qs = "." then [] else qs.splitOn ",")
    | none => "bad-args"
  | ["split", d, s, n] =>
    match Hex.dec d, Hex.dec s, n.toNat? with
    | some d, some s, some n => runSplit d s n
    | _, _, _ => "bad-args"
  | _ => "bad-op"

end Rare.Drv.C07
