import Rare.Base.Proto
namespace Rare.Drv.C01

def handle : List String → String
  | _ => "bad-op"

end Rare.Drv.C01
