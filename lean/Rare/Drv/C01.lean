import Rare.Base.Proto
import Rare.Model.C01
import Rare.Model.PipelineTrace
namespace Rare.Drv.C01
open Rare Rare.C01 Rare.Proto Rare.Pipeline

def renderLine (l : Line) : String := s!"{l.src}:{l.num}:{Hex.enc l.text}:{Hex.enc (harnessGroup1 l.text)}"

/-! ### Trace cases (`ptrace <blob>`, blob = cfg/inputs/summary/trace; see harness/corr/c01trace.go) -/

open Rare.TraceOrder in
def parseEv (s : String) : Option Ev :=
  match s.splitOn "." with
  | [g, k, src, a, b] => do
    let g ← g.toNat?
    let a ← a.toNat?
    let b ← b.toNat?
    if k = "sa" then
      let key ← Hex.dec src
      pure ⟨g, k, noSrc, a, b, key⟩
    else if src = "x" then pure ⟨g, k, noSrc, a, b, []⟩
    else do
      let i ← src.toNat?
      pure ⟨g, k, i, a, b, []⟩
  | _ => none

def parseTrace (s : String) : Option (List TraceOrder.Ev) :=
  if s = "." then some [] else (s.splitOn "_").mapM parseEv

def parseInputs (s : String) : Option (List Bytes) :=
  if s = "." then some [] else (s.splitOn "_").mapM Hex.dec

/-- cfg = mode.batch.workers.readers.buffer.flushms.missing.procs.delay.script -/
def parseCfg (s : String) (inputs : List Bytes) (agg : Bool) : Option PipelineTrace.Cfg :=
  match s.splitOn "." with
  | mode :: batch :: w :: r :: b :: flush :: _ => do
    let batch ← batch.toNat?
    let w ← w.toNat?
    let r ← r.toNat?
    let b ← b.toNat?
    let _ ← flush.toNat?
    -- a reader source always runs the timed batching loop (250ms, or the harness' short timeout)
    pure { files := mode = "f", batch := batch, W := w, R := if mode = "f" then r else 1, B := b, timed := mode ≠ "f",
           inputs := inputs, agg := agg }
  | _ => none

def showEv (e : TraceOrder.Ev) : String :=
  s!"{e.g}.{e.kind}.{if e.src = TraceOrder.noSrc then "x" else toString e.src}.{e.a}.{e.b}"

structure PipeOutcome where
  answer : String
  consumed : List Line := []

/-- Run the pipeline trace check on the pipeline's share of a log. -/
def pipeTrace (cfg : PipelineTrace.Cfg) (evs : List TraceOrder.Ev) (others : List String := []) : PipeOutcome :=
  let kinds := PipelineTrace.pipeKinds cfg.agg
  match evs.find? fun e => !(kinds.contains e.kind || others.contains e.kind) with
  | some e => { answer := s!"rejected unknown event {showEv e}" }
  | none =>
  let evs := evs.filter fun e => kinds.contains e.kind
  match PipelineTrace.batchesOf cfg evs with
  | none => { answer := "rejected batches: the logged flushes are not the batches of the batching-loop model" }
  | some batches =>
    let wg := PipelineTrace.workerGs evs
    if wg.length ≠ cfg.W then { answer := s!"rejected workers: {wg.length} worker goroutines logged, {cfg.W} configured" } else
    let tr := evs.toArray
    match PipelineTrace.counterViolation cfg.W tr with
    | some p => { answer := s!"rejected counters: {p}:{showEv (TraceOrder.evAt tr p)} is outside the bounds implied by the logged line events" }
    | none =>
    match TraceOrder.verdict (PipelineTrace.machine cfg wg) (PipelineTrace.lin wg evs) (PipelineTrace.initSt cfg batches) tr with
    | .accepted ps _ =>
      let s := ps.lts
      { answer := s!"ok accepted final={s.nRead}.{s.nMatched}.{s.nIgnored}.{s.consumed.length}.{ps.errs}", consumed := s.consumed }
    | .rejected deepest stuck exhausted =>
      let st := " ".intercalate (stuck.map fun p => s!"{p}:{showEv (TraceOrder.evAt tr p)}")
      { answer := s!"rejected after={deepest}/{tr.size} exhaustive={exhausted} frontier={st}" }

/-- `pipe <inputs hexlist>`: the reference outcome (independent of batch/worker/reader/buffer settings,
    chunking and schedule – that independence is the theorem).
    `ptrace <blob>`: trace inclusion of a real run's event log. -/
def handle : List String → String
  | "pipe" :: ins :: _ =>
    match decHexList ins with
    | some inputs =>
      let ls := allLines inputs
      let t := seqTotals harnessCls ls
      let ms := seqMatches harnessCls ls
      let body := if ms.isEmpty then "." else ",".intercalate (ms.map renderLine)
      s!"ok read={t.read} matched={t.matched} ignored={t.ignored} inorder=1 matches={body}"
    | none => "bad-args"
  | "ptrace" :: blob :: _ =>
    match blob.splitOn "/" with
    | [cfg, ins, _, trace] =>
      match parseInputs ins with
      | none => "bad-args inputs"
      | some inputs =>
        match parseCfg cfg inputs false, parseTrace trace with
        | some cfg, some evs => (pipeTrace cfg evs).answer
        | _, _ => "bad-args cfg/trace"
    | _ => "bad-args blob"
  | op :: blob :: _ =>
    -- `pmut<k> <blob>`: a real log damaged by the harness in a way that no run can produce; must be rejected
    if op.startsWith "pmut" then
      match blob.splitOn "/" with
      | [cfg, ins, _, trace] =>
        match parseInputs ins with
        | none => "bad-args inputs"
        | some inputs =>
          match parseCfg cfg inputs false, parseTrace trace with
          | some cfg, some evs => if (pipeTrace cfg evs).answer.startsWith "ok " then "ok accepted" else "rejected"
          | _, _ => "bad-args cfg/trace"
      | _ => "bad-args blob"
    else "bad-op"
  | _ => "bad-op"

end Rare.Drv.C01
