import Rare.Base.Proto
import Rare.Model.C01
namespace Rare.Drv.C01
open Rare Rare.C01 Rare.Proto Rare.Pipeline

def renderLine (l : Line) : String := s!"{l.src}:{l.num}:{Hex.enc l.text}:{Hex.enc (harnessGroup1 l.text)}"

/-- `pipe <inputs hexlist>`: the reference outcome (independent of batch/worker/reader/buffer settings,
    chunking and schedule – that independence is the theorem). -/
def handle : List String → String
  | "pipe" :: ins :: _ =>
    match decHexList ins with
    | some inputs =>
      let ls := allLines inputs
      let t := seqTotals harnessCls ls
      let ms := seqMatches harnessCls ls
      let body := if ms.isEmpty then "." else ",".intercalate (ms.map renderLine)
      s!"ok read={t.read} matched={t.matched} ignored={t.ignored} inorder=1 matches={body}"
    | none => "bad-args"
  | _ => "bad-op"

end Rare.Drv.C01
