import Rare.Base.Proto
import Rare.Model.C01
import Rare.Model.C01Classify
import Rare.Model.C01Trim
import Rare.Model.PipelineTrace
import Rare.Model.C01Summary
import Rare.Model.C01FilterLine
import Rare.Model.C01Flags
import Rare.Model.C01Chunk
import Rare.Drv.Expr
namespace Rare.Drv.C01
open Rare Rare.C01 Rare.Proto Rare.Pipeline

def renderLine (l : Line) : String := s!"{l.src}:{l.num}:{Hex.enc l.text}:{Hex.enc (harnessGroup1 l.text)}"

/-! ### The classification configuration of a case: matcher, ignore expressions, extract expression

`<matcher>` = `h` (harness matcher, no named groups) | `n` (harness matcher with group 2 and the name table
`val`/`key`/`all`); `<ignores>` = `N` (nil `IgnoreSet`) | `E` (an `ExpressionIgnoreSet` without expressions) |
hex templates joined by `+`; `<extract>` = hex template.  The templates are the RAW bytes handed to the real
`extractor.NewIgnoreExpressions` / `extractor.Config.Extract`; the model compiles them with the shared
expression model (`Rare.Expr.compile` over `Drv.Expr.registry`, optimiser on as `funclib.NewKeyBuilder`). -/

structure ClsSpec where
  matcher : String := "h"
  ignores : Option (List Bytes) := some [ascii "{1}"]
  extract : Bytes := ascii "{0}"

def parseIgnores (s : String) : Option (Option (List Bytes)) :=
  if s = "N" then some none
  else if s = "E" then some (some [])
  else ((s.splitOn "+").mapM Hex.dec).map some

def parseClsSpec (m ig ex : String) : Option ClsSpec := do
  let ig ← parseIgnores ig
  let ex ← Hex.dec ex
  if m = "h" ∨ m = "n" ∨ m = "a" then pure { matcher := m, ignores := ig, extract := ex } else none

/-- source names: `OpenFilesToChan` reports the file name it was given (the harness passes `f0000`, … relative
    to the case's directory), `OpenReaderToChan` the name it was given (`s0`). -/
def sourceName (files : Bool) (i : Nat) : Bytes :=
  if files then
    let d := toString i
    ascii ("f" ++ String.ofList (List.replicate (4 - d.length) '0') ++ d)
  else ascii ("s" ++ toString i)

/-- the default matcher of the command line (`-m .*`): every line matches, group 0 is the line -/
def wholeLine (l : Bytes) : List Int := [0, l.length]

inductive Built
  | ok (e : Extractor)
  | compileError            -- the real constructor returns an error
  | fail (msg : String)     -- panic at compile time / outside the model

def buildExtractor (spec : ClsSpec) (files : Bool) : Built :=
  let reg := Drv.Expr.registry
  let ig : Except String (Option (Option (List Expr.Stage))) :=
    match spec.ignores with
    | none => .ok (some none)
    | some ts =>
      match compileAll reg ts with
      | .error m => .error m
      | .ok none => .ok none
      | .ok (some ss) => .ok (some (some ss))
  match ig, compileTemplate reg spec.extract with
  | .error m, _ => .fail m
  | _, .error m => .fail m
  | .ok none, _ => .compileError
  | _, .ok none => .compileError
  | .ok (some ig), .ok (some ex) =>
    .ok { matcher := if spec.matcher = "n" then harnessIndicesN else if spec.matcher = "a" then wholeLine else harnessIndices,
          names := if spec.matcher = "n" then harnessNamesN else [],
          ignore := ig, extract := ex, sourceName := sourceName files }

def failAns (m : String) : String := Drv.Expr.panicAns m

def renderKeyed (e : Extractor) (l : Line) : String := s!"{l.src}:{l.num}:{Hex.enc l.text}:{Hex.enc (keyOf e l)}"

/-- The reference outcome of the `pipe` op: sequential evaluation, every line classified with its own source
    name and 1-based number. -/
def pipeAnswer (spec : ClsSpec) (files keyed : Bool) (inputs : List Bytes) : String :=
  match buildExtractor spec files with
  | .compileError => "compile-error"
  | .fail m => failAns m
  | .ok e =>
    let ls := allLines inputs
    match firstPanic e ls with
    | some m => failAns m
    | none =>
      let t := seqTotals (clsOf e) ls
      let ms := seqMatches (clsOf e) ls
      let body := if ms.isEmpty then "." else ",".intercalate (ms.map (if keyed then renderKeyed e else renderLine))
      s!"ok read={t.read} matched={t.matched} ignored={t.ignored} inorder=1 matches={body}"

/-! ### Trace cases (`ptrace <blob>`, blob = cfg/inputs/summary/trace; see harness/corr/c01trace.go) -/

open Rare.TraceOrder in
def parseEv (s : String) : Option Ev :=
  match s.splitOn "." with
  | [g, k, src, a, b] => do
    let g ← g.toNat?
    let a ← a.toNat?
    let b ← b.toNat?
    if k = "sa" then
      let key ← Hex.dec src
      pure ⟨g, k, noSrc, a, b, key⟩
    else if src = "x" then pure ⟨g, k, noSrc, a, b, []⟩
    else do
      let i ← src.toNat?
      pure ⟨g, k, i, a, b, []⟩
  | _ => none

def parseTrace (s : String) : Option (List TraceOrder.Ev) :=
  if s = "." then some [] else (s.splitOn "_").mapM parseEv

def parseInputs (s : String) : Option (List Bytes) :=
  if s = "." then some [] else (s.splitOn "_").mapM Hex.dec

/-- cfg = mode.batch.workers.readers.buffer.flushms.missing.procs.delay.script -/
def parseCfg (s : String) (inputs : List Bytes) (agg : Bool) (cls : Line → Cls := harnessCls) : Option PipelineTrace.Cfg :=
  match s.splitOn "." with
  | mode :: batch :: w :: r :: b :: flush :: _ => do
    let batch ← batch.toNat?
    let w ← w.toNat?
    let r ← r.toNat?
    let b ← b.toNat?
    let _ ← flush.toNat?
    -- a reader source always runs the timed batching loop (250ms, or the harness' short timeout)
    -- an unbuffered batch channel (`buffer = 0`): every execution is an execution of the system with capacity 1
    -- (theorem `pipeline_unbuffered_refines`), which is what the log is checked against
    pure { files := mode = "f", batch := batch, W := w, R := if mode = "f" then r else 1, B := if b = 0 then 1 else b, timed := mode ≠ "f",
           inputs := inputs, agg := agg, cls := cls }
  | _ => none

def showEv (e : TraceOrder.Ev) : String :=
  s!"{e.g}.{e.kind}.{if e.src = TraceOrder.noSrc then "x" else toString e.src}.{e.a}.{e.b}"

structure PipeOutcome where
  answer : String
  consumed : List Line := []

/-- Run the pipeline trace check on the pipeline's share of a log. -/
def pipeTrace (cfg : PipelineTrace.Cfg) (evs : List TraceOrder.Ev) (others : List String := []) : PipeOutcome :=
  let kinds := PipelineTrace.pipeKinds cfg.agg
  match evs.find? fun e => !(kinds.contains e.kind || others.contains e.kind) with
  | some e => { answer := s!"rejected unknown event {showEv e}" }
  | none =>
  let evs := evs.filter fun e => kinds.contains e.kind
  match PipelineTrace.batchesOf cfg evs with
  | none => { answer := "rejected batches: the logged flushes are not the batches of the batching-loop model" }
  | some batches =>
    let wg := PipelineTrace.workerGs evs
    if wg.length ≠ cfg.W then { answer := s!"rejected workers: {wg.length} worker goroutines logged, {cfg.W} configured" } else
    let tr := evs.toArray
    match PipelineTrace.counterViolation cfg.W tr with
    | some p => { answer := s!"rejected counters: {p}:{showEv (TraceOrder.evAt tr p)} is outside the bounds implied by the logged line events" }
    | none =>
    match TraceOrder.verdict (PipelineTrace.machine cfg wg) (PipelineTrace.lin wg evs) (PipelineTrace.initSt cfg batches) tr with
    | .accepted ps _ =>
      let s := ps.lts
      { answer := s!"ok accepted final={s.nRead}.{s.nMatched}.{s.nIgnored}.{s.consumed.length}.{ps.errs}", consumed := s.consumed }
    | .rejected deepest stuck exhausted =>
      let st := " ".intercalate (stuck.map fun p => s!"{p}:{showEv (TraceOrder.evAt tr p)}")
      { answer := s!"rejected after={deepest}/{tr.size} exhaustive={exhausted} frontier={st}" }

/-- the classification part of a trace blob (`matcher.ignores.extract`, absent = `h`, `{1}`, `{0}`) -/
def blobExtractor (cfg : String) (clsPart : Option String) : Option Built :=
  let files := cfg.startsWith "f."
  match clsPart with
  | none => some (buildExtractor {} files)
  | some p =>
    match p.splitOn "." with
    | [m, ig, ex] => (parseClsSpec m ig ex).map fun spec => buildExtractor spec files
    | _ => none

/-- Trace case: `blob = cfg/inputs/summary/trace[/matcher.ignores.extract]`. -/
def traceCase (blob : String) (k : PipelineTrace.Cfg → List TraceOrder.Ev → String) : String :=
  match blob.splitOn "/" with
  | cfg :: ins :: _ :: trace :: rest =>
    if rest.length > 1 then "bad-args blob" else
    match parseInputs ins with
    | none => "bad-args inputs"
    | some inputs =>
      match blobExtractor cfg rest.head? with
      | none => "bad-args cls"
      | some .compileError => "compile-error"
      | some (.fail m) => failAns m
      | some (.ok e) =>
        match firstPanic e (allLines inputs) with
        | some m => failAns m
        | none =>
          match parseCfg cfg inputs false (clsOf e), parseTrace trace with
          | some cfg, some evs => k cfg evs
          | _, _ => "bad-args cfg/trace"
  | _ => "bad-args blob"

/-! ### Summary line, flags, `filter -n` -/

def bit (s : String) : Option Bool := if s = "1" then some true else if s = "0" then some false else none

def summaryOp : List String → String
  | [fmt, col, m, r, i, e, parts] =>
    match bit fmt, bit col, m.toNat?, r.toNat?, i.toNat?, e.toNat?, decHexList parts with
    | some fmt, some col, some m, some r, some i, some e, some parts =>
      s!"ok {Hex.enc (extractorSummary fmt col m r i e parts)}"
    | _, _, _, _, _, _, _ => "bad-args"
  | _ => "bad-args"

def flagsOp : List String → String
  | [input, batch, bb, workers, readers] =>
    match batch.toInt?, bb.toInt?, workers.toInt?, readers.toInt? with
    | some batch, some bb, some workers, some readers =>
      let inp := if input = "stdin" then Input.stdin else Input.files
      match configure ⟨batch, bb, workers, readers⟩ inp with
      | .error u => s!"usage {u.code} {Hex.enc (ascii u.msg)}"
      | .ok c => s!"ok batch={c.batch} B={c.B} W={c.W} K={c.K} timed={if c.timed then 1 else 0} R={c.R}"
    | _, _, _, _ => "bad-args"
  | _ => "bad-args"

/-- `filtern <limit> <fmt> <input> <ignores> <extract> [l]`: `rare filter -n limit` (with `l`: `--line`) over ONE file
    with one reader and one worker (so the matches arrive in input order): the printed lines (keys, with `l` behind
    `"<source> <number>: "`) and the stderr line. -/
def filterOpL (withLine : Bool) : List String → String
  | [limit, fmt, inp, ig, ex] =>
    match limit.toInt?, bit fmt, Hex.dec inp, parseClsSpec "a" ig ex with
    | some limit, some fmt, some data, some spec =>
      match buildExtractor spec true with
      | .compileError => "compile-error"
      | .fail m => failAns m
      | .ok e =>
        let ls := allLines [data]
        match firstPanic e ls with
        | some m => failAns m
        | none =>
          -- `uint64(c.Int64("num"))`
          let lim : Nat := if limit < 0 then (18446744073709551616 + limit).toNat else limit.toNat
          let t := seqTotals (clsOf e) ls
          let keys := (seqMatches (clsOf e) ls).map fun l => filterLine withLine false (sourceName true l.src) l.num (keyOf e l)
          let printed := filterLoop lim [keys] []
          s!"ok out={hexList printed} err={Hex.enc (filterSummary fmt false lim printed.length t.matched t.read t.ignored)}"
    | _, _, _, _ => "bad-args"
  | _ => "bad-args"

def filterOp : List String → String
  | [limit, fmt, inp, ig, ex, "l"] => filterOpL true [limit, fmt, inp, ig, ex]
  | args => filterOpL false args

/-! ### `pipex`: sources that are not all well-behaved files; the exit state; the summary with errors -/

def parseStepX (s : String) : Option C04.Step :=
  match s.splitOn ":" with
  | n :: e :: _ => do
    let n ← n.toNat?
    let e ← (if e = "n" then some none else if e = "e" then some (some C04.RErr.eof) else if e = "f" then some (some C04.RErr.fail) else none)
    pure ⟨n, e⟩
  | _ => none

def parseScriptX (s : String) : Option (List C04.Step) :=
  if s = "." then some [] else (s.splitOn ",").mapM parseStepX

def parseSrcX (s : String) : Option SrcIn :=
  match s.splitOn "/" with
  | [k, d, sc] => do
    let d ← Hex.dec d
    let sc ← parseScriptX sc
    if k = "d" then pure ⟨true, d, []⟩
    else if k = "p" ∨ k = "r" then pure ⟨true, d, sc⟩
    else if k = "m" then pure ⟨false, [], []⟩
    else if k = "D" then pure ⟨true, [], [⟨0, some .fail⟩]⟩
    else none
  | _ => none

def parseSrcsX (s : String) : Option (List SrcIn) :=
  if s = "." then some [] else (s.splitOn ";").mapM parseSrcX

/-- `pipex <mode> <batch> <workers> <readers> <buffer> <flushms> <sources> <matcher> <ignores> <extract>`: the sequential
    evaluation of the lines the scanner model hands over (`scannedLines`), the error count, `DetermineErrorState`
    and the summary line with the errors part. -/
def pipexOp : List String → String
  | [mode, _, _, _, _, _, srcs, m, ig, ex] =>
    match parseSrcsX srcs, parseClsSpec m ig ex with
    | some srcs, some spec =>
      match buildExtractor spec (mode != "reader") with
      | .compileError => "compile-error"
      | .fail msg => failAns msg
      | .ok e =>
        let ls := (srcs.zipIdx 0).flatMap fun p => scannedLines p.2 p.1
        match firstPanic e ls with
        | some msg => failAns msg
        | none =>
          let t := seqTotals (clsOf e) ls
          let ms := seqMatches (clsOf e) ls
          let errs := readErrors srcs
          let (code, msg) : Int × String := match determineErrorState errs none t.matched with
            | none => (0, "")
            | some (msg, c) => (c, msg)
          let body := if ms.isEmpty then "." else ",".intercalate (ms.map (renderKeyed e))
          s!"ok read={t.read} matched={t.matched} ignored={t.ignored} errors={errs} exit={code} msg={Hex.enc (ascii msg)} summary={Hex.enc (extractorSummary true false t.matched t.read t.ignored errs [])} matches={body}"
    | _, _ => "bad-args"
  | _ => "bad-args"

/-- `rdopen <readers> <nfiles>`: how many of `nfiles` files are read at the same time under `--readers readers`
    (`configure` gives `R`; theorems `pipeline_reader_bound`, `pipeline_readers_saturate`), and the lines read
    (one per file). -/
def rdopenOp : List String → String
  | [r, n] =>
    match r.toInt?, n.toNat? with
    | some r, some n =>
      match configure ⟨1, 1, 1, r⟩ .files with
      | .error u => s!"usage {u.code} {Hex.enc (ascii u.msg)}"
      | .ok c => s!"ok open={min c.R n} read={n}"
    | _, _ => "bad-args"
  | _ => "bad-args"

/-- `pipe <inputs hexlist> <mode> <batch> <workers> <readers> <buffer> <flushms> <script> <procs> <delay>
    [<matcher> <ignores> <extract>]`: the reference outcome – sequential evaluation in which every line is
    classified with its own source name and 1-based line number (independent of batch/worker/reader/buffer
    settings, chunking and schedule – that independence is the theorem).
    `ptrace <blob>`: trace inclusion of a real run's event log.
    `trim <bytes>`: `strings.TrimSpace` / `expressions.Truthy`. -/
def handle : List String → String
  | "pipe" :: ins :: rest =>
    match decHexList ins with
    | some inputs =>
      let files := rest.head? != some "reader"
      match rest.drop 9 with
      | [m, ig, ex] =>
        match parseClsSpec m ig ex with
        | some spec => pipeAnswer spec files true inputs
        | none => "bad-args cls"
      | [] => pipeAnswer {} files false inputs
      | _ => "bad-args"
    | none => "bad-args"
  | "ptrace" :: blob :: _ => traceCase blob fun cfg evs => (pipeTrace cfg evs).answer
  | "summary" :: rest => summaryOp rest
  | ["hui", fmt, n] =>
    match bit fmt, n.toNat? with
    | some fmt, some n => s!"ok {Hex.enc (hui fmt n)}"
    | _, _ => "bad-args"
  | "flags" :: rest => flagsOp rest
  | "filtern" :: rest => filterOp rest
  | "pipex" :: rest => pipexOp rest
  | "rdopen" :: rest => rdopenOp rest
  | ["trim", h] =>
    -- `strings.TrimSpace` byte for byte, `Truthy` as Go computes it, and the `truthy` of the shared expression model
    match Hex.dec h with
    | some b => s!"ok {Hex.enc (trimSpace b)} t={if truthyGo b then 1 else 0} m={if Expr.truthy b then 1 else 0}"
    | none => "bad-args"
  | op :: blob :: _ =>
    -- `pmut<k> <blob>`: a real log damaged by the harness in a way that no run can produce; must be rejected
    if op.startsWith "pmut" then
      traceCase blob fun cfg evs => if (pipeTrace cfg evs).answer.startsWith "ok " then "ok accepted" else "rejected"
    else "bad-op"
  | _ => "bad-op"

end Rare.Drv.C01
