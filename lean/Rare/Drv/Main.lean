import Rare.Base.Proto
/-!
Line-protocol loop shared by the per-property driver executables.
Input line: `<property> <op> <fields…>`; one canonical answer line per input line.
-/
namespace Rare.Drv

def chomp (s : String) : String :=
  let cs := s.toList.reverse.dropWhile (fun c => c == '\n' || c == '\r')
  String.ofList cs.reverse

partial def loop (pid : String) (handle : List String → String) (h out : IO.FS.Stream) : IO Unit := do
  let line ← h.getLine
  if line.isEmpty then return ()
  let ans := match Proto.words (chomp line) with
    | p :: rest => if p == pid then handle rest else "bad-property"
    | [] => "bad-property"
  out.putStrLn ans
  loop pid handle h out

def runDriver (pid : String) (handle : List String → String) : IO Unit := do
  let out ← IO.getStdout
  loop pid handle (← IO.getStdin) out
  out.flush

end Rare.Drv
