import Rare.Base.Proto
import Rare.Model.C20
/-!
Line protocol of property C20.

* `term <width> <trim 0|1> <history>` / `termx <width> <trim> <clear 0|1> <hide 0|1> <history>` –
  the live `TermWriter`; a final `Close()` is always appended.  History = `,`-joined items
  `<line>:<hex text>` or `c` (a `Close()` in the middle), `.` = empty.
  Answer `ok b=<bytes written to stdout> rows=<rows 0..maxLine+1 of the screen> row=<cursor row> vis=<cursor visible>`.
  `b` is the MODEL's byte string; `rows/row/vis` are the SPEC's answer (latest text per line, cursor
  parked below, visible) whenever the history satisfies the hypotheses of `screen_refines_latest`,
  and otherwise the reference terminal run on the model's bytes.
* `trim <width> <auto 0|1> <hex text>` – `WriteLineNoWrap` alone: `ok <hex out> v=<visible runes> e=<ends inside an escape>`.
* `vterm <history>` – `VirtualTerm`: `ok n=<LineCount> closed=<0|1> lines=<hex list> g=<Get(-1)>,<Get(n)>,<Get(0)>` or `panic`.
* `bterm <width> <trim> <history>` – `BufferedTerm` (final `Close()` appended): `ok b=<bytes> rows=<…> row=<…>` or `panic`.
-/
namespace Rare.Drv.C20
open Rare Rare.C20 Rare.Proto

inductive Item where
  | w (line : Int) (text : Bytes)
  | c

def parseItem (s : String) : Option Item :=
  if s = "c" then some .c else
  match s.splitOn ":" with
  | [l, t] => do
    let line ← l.toInt?
    let text ← Hex.dec t
    pure (.w line text)
  | _ => none

def parseHist (s : String) : Option (List Item) :=
  if s = "." then some [] else (s.splitOn ",").mapM parseItem

def writesOf : List Item → List (Int × Bytes)
  | [] => []
  | .w l t :: r => (l, t) :: writesOf r
  | .c :: r => writesOf r

def hasClose (h : List Item) : Bool := h.any fun | .c => true | _ => false

def bit (s : String) : Option Bool := if s = "1" then some true else if s = "0" then some false else none

/-- runes of a text the theorem speaks about: printable runes and `ESC [ digits/; m` only
(mode 0 = plain text, 1 = after ESC, 2 = inside the parameters) -/
def textOK : Nat → List Rune → Bool
  | 0, [] => true
  | _, [] => false
  | 0, r :: rest => if r = 27 then textOK 1 rest else (decide (32 ≤ r) && decide (r ≠ 127)) && textOK 0 rest
  | 1, r :: rest => decide (r = 91) && textOK 2 rest
  | _, r :: rest => if r = 109 then textOK 0 rest else (decide (48 ≤ r) && decide (r ≤ 59)) && textOK 2 rest

/-- does the rune string end inside an escape sequence (an ESC with no `m` after it)? -/
def endsInEsc : Bool → List Rune → Bool
  | b, [] => b
  | false, r :: rest => endsInEsc (r = 27) rest
  | true, r :: rest => endsInEsc (r ≠ 109) rest

def b01 (b : Bool) : String := if b then "1" else "0"

def rowsOut (t : Term) (n : Nat) : String :=
  hexList ((List.range n).map fun i => encodeUtf8 (t.rows i))

/-- hypotheses of `screen_refines_latest`, decided on a concrete history -/
def hypsHold (width : Int) (trim clear : Bool) (h : List Item) : Bool :=
  let ws := writesOf h
  !hasClose h && clear && decide (1 ≤ width) &&
  ws.all fun (l, t) =>
    decide (0 ≤ l) && textOK 0 (decodeUtf8 t) &&
      (trim || (decide (((visibleRunes (decodeUtf8 t)).length : Int) ≤ width) && decide (encodeUtf8 (decodeUtf8 t) = t)))

def runItems (c : Cfg) : TermWriter → List Item → TermWriter × Bytes
  | s, [] => (s, [])
  | s, .w l t :: rest =>
    let r1 := s.writeForLine c l t
    let r2 := runItems c r1.1 rest
    (r2.1, r1.2 ++ r2.2)
  | s, .c :: rest =>
    let r1 := s.close c
    let r2 := runItems c r1.1 rest
    (r2.1, r1.2 ++ r2.2)

def termAnswer (width : Int) (trim clear hide : Bool) (h : List Item) : String :=
  let c : Cfg := { E := handEsc, autoTrim := trim, cols := width }
  let s0 : TermWriter := { TermWriter.new with clearLine := clear, hideCursor := hide }
  let r1 := runItems c s0 h
  let r2 := r1.1.close c
  let bytes := r1.2 ++ r2.2
  let ws := writesOf h
  let ml := (maxLineOf ws).toNat
  let height := ml + 3
  let t := (Term.blank width.toNat height false).feedBytes bytes
  let machine := s!"rows={rowsOut t (ml + 2)} row={t.row} vis={b01 t.cursorVisible}"
  if hypsHold width trim clear h then
    let specRows := (List.range (ml + 2)).map fun (i : Nat) =>
      match latest ws (i : Int) with
      | some txt => encodeUtf8 (shown width.toNat trim txt)
      | none => []
    let spec := s!"rows={hexList specRows} row={ml + 1} vis=1"
    if spec = machine then s!"ok b={Hex.enc bytes} {spec}"
    else s!"ok b={Hex.enc bytes} {spec} MODEL-ON-MACHINE-DIFFERS {machine}"
  else s!"ok b={Hex.enc bytes} {machine}"

def runV : VirtualTerm → List Item → Except String VirtualTerm
  | v, [] => .ok v
  | v, .w l t :: rest => do
    let v' ← v.writeForLine l t
    runV v' rest
  | v, .c :: rest => runV v.close rest

/-- BufferedTerm: a `c` item is `BufferedTerm.Close()` (prints the lines, then closes) -/
def runB (c : Cfg) : VirtualTerm → List Item → Except String (VirtualTerm × Bytes)
  | v, [] => .ok (v, [])
  | v, .w l t :: rest => do
    let v' ← v.writeForLine l t
    runB c v' rest
  | v, .c :: rest => do
    let r1 := bufferedClose c v
    let r2 ← runB c r1.1 rest
    pure (r2.1, r1.2 ++ r2.2)

def handle : List String → String
  | ["term", w, tr, hs] =>
    match w.toInt?, bit tr, parseHist hs with
    | some width, some trim, some h => termAnswer width trim true true h
    | _, _, _ => "bad-args"
  | ["termx", w, tr, cl, hd, hs] =>
    match w.toInt?, bit tr, bit cl, bit hd, parseHist hs with
    | some width, some trim, some clear, some hide, some h => termAnswer width trim clear hide h
    | _, _, _, _, _ => "bad-args"
  | ["trim", w, au, tx] =>
    match w.toInt?, bit au, Hex.dec tx with
    | some width, some auto, some text =>
      let out := writeLineNoWrap handEsc auto width text
      let rs := decodeUtf8 out
      s!"ok {Hex.enc out} v={(visibleRunes rs).length} e={b01 (endsInEsc false rs)}"
    | _, _, _ => "bad-args"
  | ["vterm", hs] =>
    match parseHist hs with
    | some h =>
      match runV VirtualTerm.new h with
      | .error _ => "panic"
      | .ok v =>
        let n := v.lineCount
        s!"ok n={n} closed={b01 v.closed} lines={hexList v.lines} g={Hex.enc (v.get (-1))},{Hex.enc (v.get n)},{Hex.enc (v.get 0)}"
    | none => "bad-args"
  | ["bterm", w, tr, hs] =>
    match w.toInt?, bit tr, parseHist hs with
    | some width, some trim, some h =>
      let c : Cfg := { E := handEsc, autoTrim := trim, cols := width }
      match runB c VirtualTerm.new (h ++ [.c]) with
      | .error _ => "panic"
      | .ok (v, bytes) =>
        let n := v.lineCount
        let t := (Term.blank width.toNat (n + 2) true).feedBytes bytes
        let machine := s!"rows={rowsOut t (n + 1)} row={t.row}"
        let ws := writesOf h
        let hyp := !hasClose h && decide (1 ≤ width) && ws.all fun (l, t) =>
          decide (0 ≤ l) && textOK 0 (decodeUtf8 t) &&
            (trim || (decide (((visibleRunes (decodeUtf8 t)).length : Int) ≤ width) && decide (encodeUtf8 (decodeUtf8 t) = t)))
        if hyp then
          let specRows := (List.range (n + 1)).map fun (i : Nat) =>
            match latest ws (i : Int) with
            | some txt => encodeUtf8 (shown width.toNat trim txt)
            | none => []
          let spec := s!"rows={hexList specRows} row={n}"
          if spec = machine then s!"ok b={Hex.enc bytes} {spec}"
          else s!"ok b={Hex.enc bytes} {spec} MODEL-ON-MACHINE-DIFFERS {machine}"
        else s!"ok b={Hex.enc bytes} {machine}"
    | _, _, _ => "bad-args"
  | _ => "bad-op"

end Rare.Drv.C20
