import Rare.Base.Proto
import Rare.Model.C20
import Rare.Model.C20Items
import Rare.Spec.C20Screen
/-!
Line protocol of property C20.

* `term <width> <trim 0|1> <history>` / `termx <width> <trim> <clear 0|1> <hide 0|1> <history>` –
  the live `TermWriter` on a screen tall enough that nothing scrolls (`maxLine + 3` rows, cursor on
  row 0); a final `Close()` is always appended.  History = `,`-joined items `<line>:<hex text>` or
  `c` (a `Close()` in the middle), `.` = empty.
* `termh <width> <height> <row0> <trim> <history>` – the same on a screen of `height` rows with the
  cursor starting on row `row0`: the block may grow beyond the bottom row and the screen scrolls.
  Answer (all three) `ok b=<bytes written to stdout> rows=<rows of the screen> row=<cursor row> vis=<cursor visible>`.
  `b` is the MODEL's byte string; `rows/row/vis` are the SPEC's answer (latest text per line that is
  still on the screen, cursor parked below the last line, visible) whenever the history satisfies the
  hypotheses of `screen_refines_latest` / `close_parks_cursor` (texts in the class `TextSafe` for the
  cell-width table `eaWidth`, every update reachable); with `Close()` calls in the middle, the answer of
  `writes_after_close_scr` (the latest text per PHYSICAL line: every update after `d` Closes `d` rows lower) when its
  hypotheses hold; and otherwise the reference terminal `Scr` run on the model's bytes.
* `termspec <width> <height> <row0> <trim> <history>` – what the PROPERTY promises for that history on a screen
  of `height` rows, whether or not every update is `Reachable`: `ok rows=<latest text of the lines still in the
  window> row=<below the last line> vis=1` (`unmodelled` when a text is outside `TextSafe`).  The implementation
  side is the reference terminal run on the real writer's bytes.  Not generated; the witness of the known finding
  "terminal shorter than the block of lines" (`known_findings/C20.json`) is such a case.
* `trim <width> <auto 0|1> <hex text>` – `WriteLineNoWrap` alone:
  `ok <hex out> v=<visible runes> e=<ends inside an escape> c=<cells (eaWidth) of the visible runes>`.
* `vterm <history>` – `VirtualTerm`: `ok n=<LineCount> closed=<0|1> lines=<hex list> g=<Get(-1)>,<Get(n)>,<Get(0)>` or `panic`.
* `vt <width> <height> <row0> <onlcr 0|1> <hex bytes>` – the reference terminal `Scr` (cell widths `eaWidth`)
  alone on an arbitrary byte stream: `ok rows=<…> row=<…> col=<…> vis=<…>` – compared with the Go copy of
  the machine that the harness uses to judge the real writer's bytes (and that `extra/C20.py` compares with tmux).
* `termf` / `vtermf` – as `term` / `vterm`, the harness calling `WriteForLinef(line, "%s", text)`.
* `size <rows> <cols>` – `TermRows()` / `TermCols()` after the size has been set: `ok <rows> <cols>`.
* `init` – the state linetrim.go's `init()` leaves when stdout is not a terminal (the harness' case):
  `ok <AutoTrim> <TermRows> <TermCols>` = `ok 0 24 80`.
* `bterm <width> <trim> <history>` – `BufferedTerm` (final `Close()` appended): `ok b=<bytes> rows=<…> row=<…>` or `panic`.
* `same <width> <trim> <history>` – the live writer and the buffered writer on the same history, both outputs on a
  blank ONLCR screen of `maxLine + 3` rows: `ok same=<0|1> live=<row>,<col>,<vis> buf=<row>,<col>,<vis>` or `panic`
  (buffered store).  When the hypotheses of `live_and_buffered_same_screen` hold the answer is the THEOREM's
  (`same=1`, both cursors on row `maxLine + 1`, column 0, visible).
* `cli <noout> <csv hex> <snapshot> <stdout pipe|file|null|closed|pty> <rows> <cols> <history>` – the writer
  `cmd/helpers.BuildVTermFromArguments` picks for these flags and this kind of stdout, what the two tests of
  `termstate` say, and what the writer then writes for the history + `Close()` (start-up state of linetrim.go for that
  stdout): `ok kind=<null|buffered|live> piped=<0|1> size=<ok>,<rows>,<cols> <b=<hex bytes> | - | scr=<rows> row= col= vis=>`
  (bytes for pipe / file; for a pty the screen of `cols` x `rows` cells after the bytes as the tty passes them on: `\n` → `\r\n`) or `panic`.
-/
namespace Rare.Drv.C20
open Rare Rare.C20 Rare.Proto

def parseItem (s : String) : Option Item :=
  if s = "c" then some .c else
  match s.splitOn ":" with
  | [l, t] => do
    let line ← l.toInt?
    let text ← Hex.dec t
    pure (.w line text)
  | _ => none

def parseHist (s : String) : Option (List Item) :=
  if s = "." then some [] else (s.splitOn ",").mapM parseItem

def writesOfItems : List Item → List (Int × Bytes)
  | [] => []
  | .w l t :: r => (l, t) :: writesOfItems r
  | .c :: r => writesOfItems r

def hasClose (h : List Item) : Bool := h.any fun | .c => true | _ => false

def bit (s : String) : Option Bool := if s = "1" then some true else if s = "0" then some false else none

/-- the class `TextSafe` (for `cw = eaWidth`), decided on the decoded runes: printable runes of width
one and `ESC [ digits : ; m`; an unterminated sequence at the very end only when `tailOK`
(mode 0 = plain text, 1 = after ESC, 2 = inside the parameters) -/
def textSafe (tailOK : Bool) : Nat → List Rune → Bool
  | 0, [] => true
  | _, [] => tailOK
  | 0, r :: rest =>
    if r = 27 then textSafe tailOK 1 rest
    else (decide (32 ≤ r) && decide (r ≠ 127) && decide (eaWidth r = 1)) && textSafe tailOK 0 rest
  | 1, r :: rest => decide (r = 91) && textSafe tailOK 2 rest
  | _, r :: rest => if r = 109 then textSafe tailOK 0 rest else (decide (48 ≤ r) && decide (r ≤ 59)) && textSafe tailOK 2 rest

def b01 (b : Bool) : String := if b then "1" else "0"

def rowsOut (t : Scr) (n : Nat) : String :=
  hexList ((List.range n).map fun i => encodeUtf8 (t.rows i))

/-- `Reachable`, decided -/
def reachable (H r0 : Nat) : Nat → List (Int × Bytes) → Bool
  | _, [] => true
  | m, (l, _) :: rest => decide (r0 + max m l.toNat - (H - 1) ≤ r0 + l.toNat) && reachable H r0 (max m l.toNat) rest

def textHyp (width : Int) (trim tailOK : Bool) (t : Bytes) : Bool :=
  textSafe tailOK 0 (decodeUtf8 t) &&
    (trim || (decide (((visibleRunes (decodeUtf8 t)).length : Int) ≤ width) && decide (encodeUtf8 (decodeUtf8 t) = t)))

/-- hypotheses of `screen_refines_latest` / `close_parks_cursor`, decided on a concrete history -/
def hypsHold (width : Int) (H r0 : Nat) (trim clear : Bool) (h : List Item) : Bool :=
  let ws := writesOfItems h
  !hasClose h && clear && decide (1 ≤ width) && decide (r0 < H) &&
  (ws.all fun (l, t) => decide (0 ≤ l) && textHyp width trim true t) && reachable H r0 0 ws

def termAnswer (width : Int) (H? : Option Nat) (r0 : Nat) (trim clear hide : Bool) (h : List Item) : String :=
  let c : Cfg := { E := handEsc, autoTrim := trim, cols := width }
  let s0 : TermWriter := { TermWriter.new with clearLine := clear, hideCursor := hide }
  let r1 := runItems c s0 h
  let r2 := r1.1.close c
  let bytes := r1.2 ++ r2.2
  let ws := writesOfItems h
  let ml := (maxLineOf ws).toNat
  let H := H?.getD (ml + 3)
  let t := ({ Scr.blank width.toNat H false eaWidth with row := r0 }).feedBytes bytes
  let machine := s!"rows={rowsOut t H} row={t.row} vis={b01 t.cursorVisible}"
  -- `Close()` calls in the middle: the hypotheses of `writes_after_close_scr`, and the THEOREM's screen (the
  -- property's promise for the history in physical lines: every update after `d` Closes `d` rows lower)
  let closeSpec : Option String :=
    if hasClose h && clear && hide && decide (1 ≤ width) && decide (r0 < H) then
      match updsOf h with
      | some us =>
        if (ws.all fun (_, t) => textHyp width trim true t) && reachUpdB H r0 0 0 us then
          let phys := physHist 0 us
          let M := physMax 0 0 us
          let sf := r0 + M + 1 - (H - 1)
          let specRows := (List.range H).map fun (j : Nat) =>
            if j + sf < r0 then [] else
            match latest phys (j + sf - r0 : Nat) with
            | some txt => encodeUtf8 (shown width.toNat trim txt)
            | none => []
          some s!"rows={hexList specRows} row={r0 + M + 1 - sf} vis=1"
        else none
      | none => none
    else none
  if let some spec := closeSpec then
    if spec = machine then s!"ok b={Hex.enc bytes} {spec}"
    else s!"ok b={Hex.enc bytes} {spec} MODEL-ON-MACHINE-DIFFERS {machine}"
  else if hypsHold width H r0 trim clear h then
    let sf := r0 + ml + 1 - (H - 1)
    let specRows := (List.range H).map fun (j : Nat) =>
      if j + sf < r0 then [] else
      match latest ws ((j + sf - r0 : Nat) : Int) with
      | some txt => encodeUtf8 (shown width.toNat trim txt)
      | none => []
    let spec := s!"rows={hexList specRows} row={r0 + ml + 1 - sf} vis=1"
    if spec = machine then s!"ok b={Hex.enc bytes} {spec}"
    else s!"ok b={Hex.enc bytes} {spec} MODEL-ON-MACHINE-DIFFERS {machine}"
  else s!"ok b={Hex.enc bytes} {machine}"

def specRowsOut (width : Int) (H r0 : Nat) (trim : Bool) (ws : List (Int × Bytes)) : String :=
  let ml := (maxLineOf ws).toNat
  let sf := r0 + ml + 1 - (H - 1)
  let specRows := (List.range H).map fun (j : Nat) =>
    if j + sf < r0 then [] else
    match latest ws ((j + sf - r0 : Nat) : Int) with
    | some txt => encodeUtf8 (shown width.toNat trim txt)
    | none => []
  s!"rows={hexList specRows} row={r0 + ml + 1 - sf} vis=1"

def specAnswer (width : Int) (H r0 : Nat) (trim : Bool) (h : List Item) : String :=
  let ws := writesOfItems h
  if !hasClose h && decide (1 ≤ width) && decide (r0 < H) &&
      (ws.all fun (l, t) => decide (0 ≤ l) && textHyp width trim true t) then
    s!"ok {specRowsOut width H r0 trim ws}"
  else "unmodelled hypotheses"

def vtAnswer (width H row0 : Nat) (onlcr : Bool) (bytes : Bytes) : String :=
  let t := ({ Scr.blank width H onlcr eaWidth with row := row0 }).feedBytes bytes
  s!"ok rows={rowsOut t H} row={t.row} col={t.col} vis={b01 t.cursorVisible}"

def handle0 : List String → String
  | ["vt", w, hh, r0, nl, bs] =>
    match w.toNat?, hh.toNat?, r0.toNat?, bit nl, Hex.dec bs with
    | some width, some H, some row0, some onlcr, some bytes => vtAnswer width H row0 onlcr bytes
    | _, _, _, _, _ => "bad-args"
  | ["termspec", w, hh, r0, tr, hs] =>
    match w.toInt?, hh.toNat?, r0.toNat?, bit tr, parseHist hs with
    | some width, some H, some row0, some trim, some h => specAnswer width H row0 trim h
    | _, _, _, _, _ => "bad-args"
  | ["init"] =>
    let e := initEnv none
    s!"ok {b01 e.autoTrim} {e.rows} {e.cols}"
  | ["size", r, c] =>
    match r.toInt?, c.toInt? with
    | some rows, some cols => s!"ok {rows} {cols}"
    | _, _ => "bad-args"
  | ["term", w, tr, hs] =>
    match w.toInt?, bit tr, parseHist hs with
    | some width, some trim, some h => termAnswer width none 0 trim true true h
    | _, _, _ => "bad-args"
  | ["termx", w, tr, cl, hd, hs] =>
    match w.toInt?, bit tr, bit cl, bit hd, parseHist hs with
    | some width, some trim, some clear, some hide, some h => termAnswer width none 0 trim clear hide h
    | _, _, _, _, _ => "bad-args"
  | ["termh", w, hh, r0, tr, hs] =>
    match w.toInt?, hh.toNat?, r0.toNat?, bit tr, parseHist hs with
    | some width, some H, some row0, some trim, some h => termAnswer width (some H) row0 trim true true h
    | _, _, _, _, _ => "bad-args"
  | ["trim", w, au, tx] =>
    match w.toInt?, bit au, Hex.dec tx with
    | some width, some auto, some text =>
      let out := writeLineNoWrap handEsc auto width text
      let rs := decodeUtf8 out
      s!"ok {Hex.enc out} v={(visibleRunes rs).length} e={b01 (endsInEsc false rs)} c={cellsOf eaWidth (visibleRunes rs)}"
    | _, _, _ => "bad-args"
  | ["vterm", hs] =>
    match parseHist hs with
    | some h =>
      match runV VirtualTerm.new h with
      | .error _ => "panic"
      | .ok v =>
        let n := v.lineCount
        s!"ok n={n} closed={b01 v.closed} lines={hexList v.lines} g={Hex.enc (v.get (-1))},{Hex.enc (v.get n)},{Hex.enc (v.get 0)}"
    | none => "bad-args"
  | ["bterm", w, tr, hs] =>
    match w.toInt?, bit tr, parseHist hs with
    | some width, some trim, some h =>
      let c : Cfg := { E := handEsc, autoTrim := trim, cols := width }
      match runB c VirtualTerm.new (h ++ [.c]) with
      | .error _ => "panic"
      | .ok (v, bytes) =>
        let n := v.lineCount
        let t := (Scr.blank width.toNat (n + 2) true eaWidth).feedBytes bytes
        let machine := s!"rows={rowsOut t (n + 1)} row={t.row}"
        let ws := writesOfItems h
        let hyp := !hasClose h && decide (1 ≤ width) && ws.all fun (l, t) => decide (0 ≤ l) && textHyp width trim false t
        if hyp then
          let specRows := (List.range (n + 1)).map fun (i : Nat) =>
            match latest ws (i : Int) with
            | some txt => encodeUtf8 (shown width.toNat trim txt)
            | none => []
          let spec := s!"rows={hexList specRows} row={n}"
          if spec = machine then s!"ok b={Hex.enc bytes} {spec}"
          else s!"ok b={Hex.enc bytes} {spec} MODEL-ON-MACHINE-DIFFERS {machine}"
        else s!"ok b={Hex.enc bytes} {machine}"
    | _, _, _ => "bad-args"
  | ["same", w, tr, hs] =>
    match w.toInt?, bit tr, parseHist hs with
    | some width, some trim, some h =>
      let c : Cfg := { E := handEsc, autoTrim := trim, cols := width }
      match runB c VirtualTerm.new (h ++ [.c]) with
      | .error _ => "panic"
      | .ok (_, bbytes) =>
        let r1 := runItems c TermWriter.new h
        let r2 := r1.1.close c
        let lbytes := r1.2 ++ r2.2
        let ws := writesOfItems h
        let ml := (maxLineOf ws).toNat
        let H := ml + 3
        let t1 := (Scr.blank width.toNat H true eaWidth).feedBytes lbytes
        let t2 := (Scr.blank width.toNat H true eaWidth).feedBytes bbytes
        let same := rowsOut t1 H == rowsOut t2 H && t1.row == t2.row && t1.col == t2.col && t1.cursorVisible == t2.cursorVisible
        let machine := s!"same={b01 same} live={t1.row},{t1.col},{b01 t1.cursorVisible} buf={t2.row},{t2.col},{b01 t2.cursorVisible}"
        -- hypotheses of `live_and_buffered_same_screen`
        let hyp := !hasClose h && !ws.isEmpty && decide (1 ≤ width) && ws.all fun (l, t) => decide (0 ≤ l) && textHyp width trim false t
        if hyp then
          let spec := s!"same=1 live={ml + 1},0,1 buf={ml + 1},0,1"
          if spec = machine then s!"ok {spec}" else s!"ok {spec} MODEL-ON-MACHINE-DIFFERS {machine}"
        else s!"ok {machine}"
    | _, _, _ => "bad-args"
  | _ => "bad-op"

def stdoutOf (kind : String) (rows cols : Int) : Option StdoutInfo :=
  if kind = "pipe" ∨ kind = "file" then
    some { statOk := true, charDevice := false, isTerminal := false, sizeOk := false, width := 0, height := 0 }
  else if kind = "null" then
    some { statOk := true, charDevice := true, isTerminal := false, sizeOk := false, width := 0, height := 0 }
  else if kind = "closed" then
    some { statOk := false, charDevice := false, isTerminal := false, sizeOk := false, width := 0, height := 0 }
  else if kind = "pty" then
    some { statOk := true, charDevice := true, isTerminal := true, sizeOk := true, width := cols, height := rows }
  else none

def kindName : TermKind → String
  | .null => "null"
  | .buffered => "buffered"
  | .live => "live"

def cliAnswer (f : OutFlags) (kind : String) (o : StdoutInfo) (h : List Item) : String :=
  let env := initEnv (getTermRowsCols o)
  let c : Cfg := { E := handEsc, autoTrim := env.autoTrim, cols := env.cols }
  let k := buildVTermFromArguments f o
  -- a `Close()` in the middle of the history: the item runners (which `cliOutput` agrees with on plain histories)
  let bytes : Except String Bytes :=
    if hasClose h then
      match k with
      | .null => .ok []
      | .live => let r1 := runItems c TermWriter.new h; .ok (r1.2 ++ (r1.1.close c).2)
      | .buffered => (runB c VirtualTerm.new (h ++ [.c])).map (·.2)
    else cliOutput handEsc f o (writesOfItems h)
  match bytes with
  | .error _ => "panic"
  | .ok b =>
    let size := match getTermRowsCols o with
      | some (r, cc) => s!"1,{r},{cc}"
      | none => "0,0,0"
    let written :=
      if kind = "pipe" ∨ kind = "file" then s!"b={Hex.enc b}"
      else if kind = "pty" then
        -- the tty's output processing (OPOST ONLCR) turns every `\n` into `\r\n`; the terminal sees the result
        let b' : Bytes := b.flatMap fun x => if x = 10 then [13, 10] else [x]
        let t := (Scr.blank o.width.toNat o.height.toNat false eaWidth).feedBytes b'
        s!"scr={rowsOut t o.height.toNat} row={t.row} col={t.col} vis={b01 t.cursorVisible}"
      else "-"
    s!"ok kind={kindName k} piped={b01 (isPipedOutput o)} size={size} {written}"

def handle : List String → String
  | ["cli", no, csv, sn, kind, rows, cols, hs] =>
    match bit no, Hex.dec csv, bit sn, rows.toInt?, cols.toInt?, parseHist hs with
    | some noout, some csvB, some snapshot, some r, some c, some h =>
      match stdoutOf kind r c with
      | some o => cliAnswer { noout := noout, csv := csvB, snapshot := snapshot } kind o h
      | none => "bad-args"
    | _, _, _, _, _, _ => "bad-args"
  | ["termf", w, tr, hs] => handle0 ["term", w, tr, hs]
  | ["vtermf", hs] => handle0 ["vterm", hs]
  | args => handle0 args

end Rare.Drv.C20
