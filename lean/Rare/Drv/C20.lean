import Rare.Base.Proto
namespace Rare.Drv.C20

def handle : List String → String
  | _ => "bad-op"

end Rare.Drv.C20
