import Rare.Base.Proto
import Rare.Model.C16
import Rare.Model.C16Cmd
import Rare.Model.C16Ctx
namespace Rare.Drv.C16
open Rare Rare.C16 Rare.Proto

def parseNT (s : String) : Option (List (Bytes × Int)) :=
  if s = "." then some []
  else (s.splitOn ";").mapM fun e =>
    match e.splitOn ":" with
    | [h, i] => do
      let n ← Hex.dec h
      let v ← i.toInt?
      pure (n, v)
    | _ => none

def parseInts (s : String) : Option (List Int) :=
  if s = "." then some [] else (s.splitOn ",").mapM (·.toInt?)

/-- `<hex source>/<line number>/<indices>/<hex line>` items joined by `+`; `.` = none -/
def parseHist (s : String) : Option (List Hit) :=
  if s = "." then some []
  else (s.splitOn "+").mapM fun it =>
    match it.splitOn "/" with
    | [src, num, ix, ln] => do
      let source ← Hex.dec src
      let lineNum ← num.toNat?
      let indices ← parseInts ix
      let line ← Hex.dec ln
      pure { source, lineNum, indices, line }
    | _ => none

def tag : JVal → Bytes
  | .str s => 0x73 :: s
  | .num m e => ascii s!"n{m}e{e}"
  | .bool true => ascii "t"
  | .bool false => ascii "f"
  | .null => ascii "z"

/-- the observables of one JSON text: the text, validity (RFC 8259 parser of the spec), whether it is
well-formed UTF-8, and the members – of the text itself, or, when it is not UTF-8, of the text with
U+FFFD substituted (`sanitize`), which is what `encoding/json` decodes -/
def describe (out : Bytes) : String :=
  match parseObj out with
  | none => s!"ok {Hex.enc out} v=0 u=x m=x"
  | some ms =>
    if validUtf8 out then s!"ok {Hex.enc out} v=1 u=1 m={hexList (ms.flatMap fun p => [p.1, tag p.2])}"
    else
      match parseObj (sanitize out) with
      | none => s!"ok {Hex.enc out} v=1 u=0 m=x"
      | some ms' => s!"ok {Hex.enc out} v=1 u=0 m={hexList (ms'.flatMap fun p => [p.1, tag p.2])}"

/-- a name table as text: entries sorted by name -/
def showTable (t : List (Bytes × Int)) : String :=
  if t.isEmpty then "ok ."
  else "ok " ++ ";".intercalate ((sortNames (t.map (·.1))).map fun n => s!"{Hex.enc n}:{mapGet 0 t n}")

/-- three iteration orders of the same map -/
def orders {α : Type} (l : List α) : List (List α) := [l, l.reverse, l.drop (l.length / 2) ++ l.take (l.length / 2)]

def sameAll (rs : List (Except String Bytes)) : String :=
  match rs with
  | [] => "bad-args"
  | .error _ :: _ => "panic"
  | .ok a :: rest =>
    if rest.all (fun r => match r with | .ok b => a == b | .error _ => false) then describe a
    else if rest.any (fun r => match r with | .error _ => true | _ => false) then "panic"
    else "nondeterministic"

/-- `json <named> <numbered> <name table> <indices> <line>` /
    `key <key> <name table> <indices> <line>` – `GetKey(key)` for the JSON keys /
    `special <matches> <keys> <values>` /
    `nt regex <SubexpNames>` – `fastregex.createGroupNameTable` /
    `nt dissect <token names> <skipped flags>` – the `groupNames` of `dissect.CompileEx` /
    `san <bytes>` – U+FFFD substitution (against Go's own decoder) /
    `num <bytes>` – `isNumeric` directly, and whether the bytes are a complete RFC 8259 number /
    `esc <bytes>` – `escape` directly (+ whether the spec's string grammar reads it back) /
    `wint <key> <int>` – `WriteInt` and `KeyCount` /
    `msm <keys> <values>` – `MarshalStringMapInferred`, members sorted by name /
    `kv <arg>`, `kvmap <args>` – `parseKeyValue`, `parseKeyValuesIntoMap` /
    `xkey <key> <data> <kvs>` – the emulated `{.}` `{#}` `{.#}` `{#.}` of `rare expression -d … -k …` /
    `sfr <bytes>` – `smartFormatResult` / `arr <list>` – `MakeArray` and the split at the separator /
    `xout <flags> <key> <data> <kvs>` – what `rare expression [-r] [-n] -d … -k … '{key}'` prints /
    `keyeq <key> <name table> <indices 1> <line 1> <indices 2> <line 2>` – do two matches get the same text?
      answered from the SPEC (`sameShown`), not by rendering /
    `hist <keys> <name table> <seq>` – one worker's context over a history of lines, expression `{k1}|{k2}|…`:
      answered by the context-free `extractOf` of every line, for three iteration orders of the name table -/
def handle : List String → String
  | ["json", n, u, nt, ix, ln] =>
    match parseNT nt, parseInts ix, Hex.dec ln with
    | some order, some indices, some line =>
      sameAll ((orders order).map fun o => json (n == "1") (u == "1") o indices line)
    | _, _, _ => "bad-args"
  | ["key", k, nt, ix, ln] =>
    match Hex.dec k, parseNT nt, parseInts ix, Hex.dec ln with
    | some key, some order, some indices, some line =>
      match (orders order).mapM fun o => getKeyJson key o indices line with
      | none => "notjson"
      | some rs => sameAll rs
    | _, _, _, _ => "bad-args"
  | ["special", ms, ks, vs] =>
    match decHexList ms, decHexList ks, decHexList vs with
    | some texts, some keys, some vals =>
      if keys.length ≠ vals.length then "bad-args"
      else sameAll ((orders (keys.zip vals)).map fun o => .ok (buildSpecialKeyJson texts o))
    | _, _, _ => "bad-args"
  | ["nt", "regex", ns] =>
    match decHexList ns with
    | some names => showTable (regexNameTable names)
    | none => "bad-args"
  | ["nt", "dissect", ns, sk] =>
    match decHexList ns with
    | some names =>
      let skips := if sk = "." then [] else (sk.splitOn ",").map (· == "1")
      if skips.length ≠ names.length then "bad-args"
      else match dissectNameTable (names.zip skips) with
        | .ok t => showTable t
        | .error _ => "conflict"
    | none => "bad-args"
  | ["san", b] =>
    match Hex.dec b with
    | some bytes => s!"ok {Hex.enc (sanitize bytes)} u={if validUtf8 bytes then 1 else 0}"
    | none => "bad-args"
  | ["num", b] =>
    match Hex.dec b with
    | some s =>
      let full := match parseNumber s with | some (_, []) => true | _ => false
      s!"ok n={if isNumeric s then 1 else 0} j={if full then 1 else 0}"
    | none => "bad-args"
  | ["esc", b] =>
    match Hex.dec b with
    | some s => s!"ok {Hex.enc (escape s)} r={if strBody .norm (escape s ++ [0x22]) == some (s, []) then 1 else 0}"
    | none => "bad-args"
  | ["wint", k, n] =>
    match Hex.dec k, n.toInt? with
    | some key, some v =>
      let jb := JB.opened.writeInt key v
      s!"{describe jb.close.sb} c={jb.keyCount}"
    | _, _ => "bad-args"
  | ["msm", ks, vs] =>
    match decHexList ks, decHexList vs with
    | some keys, some vals =>
      if keys.length ≠ vals.length then "bad-args"
      else
        -- the Go map: a repeated key keeps its last value
        let m := (keys.zip vals).foldl (fun m p => mapSet m p.1 p.2) []
        let texts := (orders m).map marshalStringMap
        let canon := fun (t : Bytes) => (parseObj (sanitize t)).map fun ms =>
          (sortNames (ms.map (·.1))).flatMap fun k => [k, match ms.find? (·.1 == k) with | some p => tag p.2 | none => []]
        match texts.mapM canon with
        | none => "ok v=0 m=x"
        | some (c :: cs) => if cs.all (· == c) then s!"ok v=1 m={hexList c}" else "ok v=1 m=differs"
        | some [] => "bad-args"
    | _, _ => "bad-args"
  | ["kv", b] =>
    match Hex.dec b with
    | some s => s!"ok {Hex.enc (parseKeyValue s).1} {Hex.enc (parseKeyValue s).2}"
    | none => "bad-args"
  | ["kvmap", b] =>
    match decHexList b with
    | some kvs =>
      let m := parseKeyValuesIntoMap kvs
      if m.isEmpty then "ok ."
      else "ok " ++ ";".intercalate ((sortNames (m.map (·.1))).map fun n => s!"{Hex.enc n}={Hex.enc (mapGet [] m n)}")
    | none => "bad-args"
  | ["xkey", k, ds, kvs] =>
    match Hex.dec k, decHexList ds, decHexList kvs with
    | some key, some data, some kvl =>
      match (orders (parseKeyValuesIntoMap kvl)).mapM fun o => expressionJsonKey key data o with
      | none => "notjson"
      | some rs => sameAll (rs.map .ok)
    | _, _, _ => "bad-args"
  | ["sfr", b] =>
    match Hex.dec b with
    | some s => s!"ok {Hex.enc (smartFormatResult s)}"
    | none => "bad-args"
  | ["arr", l] =>
    match decHexList l with
    | some args => s!"ok {Hex.enc (makeArray args)} {hexList (splitSep arraySeparator (makeArray args))}"
    | none => "bad-args"
  | ["xout", fl, k, ds, kvs] =>
    match Hex.dec k, decHexList ds, decHexList kvs with
    | some key, some data0, some kvl0 =>
      let data := data0.map cliValue
      let kvl := kvl0.map cliValue
      let raw := fl.contains 'r'
      let nn := fl.contains 'n'
      match (orders (parseKeyValuesIntoMap kvl)).map fun o => expressionPrints raw nn data kvl o key with
      | a :: rest => if rest.all (· == a) then s!"ok {Hex.enc a}" else "nondeterministic"
      | [] => "bad-args"
    | _, _, _ => "bad-args"
  | ["keyeq", k, nt, ix1, ln1, ix2, ln2] =>
    match Hex.dec k, parseNT nt, parseInts ix1, Hex.dec ln1, parseInts ix2, Hex.dec ln2 with
    | some key, some order, some i1, some l1, some i2, some l2 =>
      match viewFlags key with
      | none => "notjson"
      | some (named, numbered) =>
        match json named numbered order i1 l1, json named numbered order i2 l2 with
        | .ok a, .ok b =>
          let c := ((a ++ b).filter fun x => x < 0x20).length
          s!"ok eq={if sameShown named numbered order i1 l1 i2 l2 then 1 else 0} c={c}"
        | _, _ => "panic"
    | _, _, _, _, _, _ => "bad-args"
  | ["hist", ks, nt, sq] =>
    match decHexList ks, parseNT nt, parseHist sq with
    | some keys, some order, some hs =>
      if keys.isEmpty then "bad-args"
      else
        let one := fun (o : List (Bytes × Int)) => hs.mapM fun h => (extractOf keys o h).map fun r => (h, r)
        match (orders order).mapM one with
        | .error _ => "panic"
        | .ok [] => "bad-args"
        | .ok (a :: rest) =>
          let shown := fun (l : List (Hit × Option Bytes)) => l.filterMap fun p =>
            p.2.map fun k => s!"{Hex.enc p.1.source}/{p.1.lineNum}/{Hex.enc k}"
          if rest.all (fun b => shown b == shown a) then
            (if (shown a).isEmpty then "ok ." else "ok " ++ "+".intercalate (shown a))
          else "nondeterministic"
    | _, _, _ => "bad-args"
  | _ => "bad-op"

end Rare.Drv.C16
