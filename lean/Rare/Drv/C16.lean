import Rare.Base.Proto
import Rare.Model.C16
namespace Rare.Drv.C16
open Rare Rare.C16 Rare.Proto

def parseNT (s : String) : Option (List (Bytes × Int)) :=
  if s = "." then some []
  else (s.splitOn ";").mapM fun e =>
    match e.splitOn ":" with
    | [h, i] => do
      let n ← Hex.dec h
      let v ← i.toInt?
      pure (n, v)
    | _ => none

def parseInts (s : String) : Option (List Int) :=
  if s = "." then some [] else (s.splitOn ",").mapM (·.toInt?)

def tag : JVal → Bytes
  | .str s => 0x73 :: s
  | .num m e => ascii s!"n{m}e{e}"
  | .bool true => ascii "t"
  | .bool false => ascii "f"
  | .null => ascii "z"

/-- the observables of one JSON text: the text, validity (RFC 8259 parser of the spec), members -/
def describe (out : Bytes) : String :=
  match parseObj out with
  | none => s!"ok {Hex.enc out} v=0 m=x"
  | some ms =>
    if !validUtf8 out then s!"ok {Hex.enc out} v=1 m=nonutf8"
    else s!"ok {Hex.enc out} v=1 m={hexList (ms.flatMap fun p => [p.1, tag p.2])}"

def big : Int := 4611686018427387904

/-- `json <named> <numbered> <name table> <indices> <line>` /
    `special <matches> <keys> <values>` -/
def handle : List String → String
  | ["json", n, u, nt, ix, ln] =>
    match parseNT nt, parseInts ix, Hex.dec ln with
    | some order, some indices, some line =>
      if order.any (fun p => p.2 ≥ big ∨ p.2 ≤ -big) then "unmodelled group-number-overflow"
      else
        let named := n == "1"
        let numbered := u == "1"
        -- two different iteration orders of the same map
        match json named numbered order indices line, json named numbered order.reverse indices line with
        | .ok a, .ok b => if a == b then describe a else "nondeterministic"
        | _, _ => "panic"
    | _, _, _ => "bad-args"
  | ["special", ms, ks, vs] =>
    match decHexList ms, decHexList ks, decHexList vs with
    | some texts, some keys, some vals =>
      if keys.length ≠ vals.length then "bad-args"
      else
        let a := buildSpecialKeyJson texts (keys.zip vals)
        let b := buildSpecialKeyJson texts (keys.zip vals).reverse
        if a == b then describe a else "nondeterministic"
    | _, _, _ => "bad-args"
  | _ => "bad-op"

end Rare.Drv.C16
