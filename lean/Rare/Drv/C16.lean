import Rare.Base.Proto
import Rare.Model.C16
namespace Rare.Drv.C16
open Rare Rare.C16 Rare.Proto

def parseNT (s : String) : Option (List (Bytes × Int)) :=
  if s = "." then some []
  else (s.splitOn ";").mapM fun e =>
    match e.splitOn ":" with
    | [h, i] => do
      let n ← Hex.dec h
      let v ← i.toInt?
      pure (n, v)
    | _ => none

def parseInts (s : String) : Option (List Int) :=
  if s = "." then some [] else (s.splitOn ",").mapM (·.toInt?)

def tag : JVal → Bytes
  | .str s => 0x73 :: s
  | .num m e => ascii s!"n{m}e{e}"
  | .bool true => ascii "t"
  | .bool false => ascii "f"
  | .null => ascii "z"

/-- the observables of one JSON text: the text, validity (RFC 8259 parser of the spec), whether it is
well-formed UTF-8, and the members – of the text itself, or, when it is not UTF-8, of the text with
U+FFFD substituted (`sanitize`), which is what `encoding/json` decodes -/
def describe (out : Bytes) : String :=
  match parseObj out with
  | none => s!"ok {Hex.enc out} v=0 u=x m=x"
  | some ms =>
    if validUtf8 out then s!"ok {Hex.enc out} v=1 u=1 m={hexList (ms.flatMap fun p => [p.1, tag p.2])}"
    else
      match parseObj (sanitize out) with
      | none => s!"ok {Hex.enc out} v=1 u=0 m=x"
      | some ms' => s!"ok {Hex.enc out} v=1 u=0 m={hexList (ms'.flatMap fun p => [p.1, tag p.2])}"

/-- a name table as text: entries sorted by name -/
def showTable (t : List (Bytes × Int)) : String :=
  if t.isEmpty then "ok ."
  else "ok " ++ ";".intercalate ((sortNames (t.map (·.1))).map fun n => s!"{Hex.enc n}:{mapGet 0 t n}")

/-- three iteration orders of the same map -/
def orders {α : Type} (l : List α) : List (List α) := [l, l.reverse, l.drop (l.length / 2) ++ l.take (l.length / 2)]

def sameAll (rs : List (Except String Bytes)) : String :=
  match rs with
  | [] => "bad-args"
  | .error _ :: _ => "panic"
  | .ok a :: rest =>
    if rest.all (fun r => match r with | .ok b => a == b | .error _ => false) then describe a
    else if rest.any (fun r => match r with | .error _ => true | _ => false) then "panic"
    else "nondeterministic"

/-- `json <named> <numbered> <name table> <indices> <line>` /
    `key <key> <name table> <indices> <line>` – `GetKey(key)` for the JSON keys /
    `special <matches> <keys> <values>` /
    `nt regex <SubexpNames>` – `fastregex.createGroupNameTable` /
    `nt dissect <token names> <skipped flags>` – the `groupNames` of `dissect.CompileEx` /
    `san <bytes>` – U+FFFD substitution (against Go's own decoder) -/
def handle : List String → String
  | ["json", n, u, nt, ix, ln] =>
    match parseNT nt, parseInts ix, Hex.dec ln with
    | some order, some indices, some line =>
      sameAll ((orders order).map fun o => json (n == "1") (u == "1") o indices line)
    | _, _, _ => "bad-args"
  | ["key", k, nt, ix, ln] =>
    match Hex.dec k, parseNT nt, parseInts ix, Hex.dec ln with
    | some key, some order, some indices, some line =>
      match (orders order).mapM fun o => getKeyJson key o indices line with
      | none => "notjson"
      | some rs => sameAll rs
    | _, _, _, _ => "bad-args"
  | ["special", ms, ks, vs] =>
    match decHexList ms, decHexList ks, decHexList vs with
    | some texts, some keys, some vals =>
      if keys.length ≠ vals.length then "bad-args"
      else sameAll ((orders (keys.zip vals)).map fun o => .ok (buildSpecialKeyJson texts o))
    | _, _, _ => "bad-args"
  | ["nt", "regex", ns] =>
    match decHexList ns with
    | some names => showTable (regexNameTable names)
    | none => "bad-args"
  | ["nt", "dissect", ns, sk] =>
    match decHexList ns with
    | some names =>
      let skips := if sk = "." then [] else (sk.splitOn ",").map (· == "1")
      if skips.length ≠ names.length then "bad-args"
      else match dissectNameTable (names.zip skips) with
        | .ok t => showTable t
        | .error _ => "conflict"
    | none => "bad-args"
  | ["san", b] =>
    match Hex.dec b with
    | some bytes => s!"ok {Hex.enc (sanitize bytes)} u={if validUtf8 bytes then 1 else 0}"
    | none => "bad-args"
  | _ => "bad-op"

end Rare.Drv.C16
