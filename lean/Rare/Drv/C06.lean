import Rare.Base.Proto
import Rare.Model.C06
import Rare.Model.C06Tree
import Rare.Model.C06ErrTrace
import Rare.Drv.C04
import Rare.Model.C06Read
import Rare.Model.C06Inflate
import Rare.Model.C06File
import Rare.Model.C06Dispatch
/-!
Line protocol of C06.

* `run <gunzip> <recursive> <readers> <batch> <mode> <args> <fs> <files> <stdin> [stdinfails]` – a whole CLI run
  (`mode` = `all` | `byte:<n>` | `histo`); answer: exit status, counters, canonical log lines, stdout multiset.
* `glob <recursive> <args> <fs>` – what `dirwalk.GlobExpand` sends.
* `open <gunzip> <names> <files>` – `batchers.OpenFilesToChan` over the names: error count and lines.
* `exit <readErrors> <hasAgg> <parseErrors> <matched>` – `DetermineErrorState`.
* `rdfault <data> <script> <batch>` – a reader that fails in the middle (`batchers.OpenReaderToChan` over a scripted reader:
  per `Read` call a byte count and `n`o error / `e`OF / `f`ailure, possibly together with data): the error count and the
  lines handed on, from the C04 scanner model; they must be what the C06 abstraction `runStream` says.
* `errsched <gunzip> <names> <files> <readers> <batch>` – `OpenFilesToChan` under a forced schedule (the logger's stderr is a
  full pipe): the error count seen at the moment the batch channel is closed.
* `errtrace <blob>` – the event log of a real `OpenFilesToChan` run: accepted iff no goroutine counts an error after it
  released its reader slot and every release precedes `wg.Wait()` returning (`Rare/Model/C06ErrTrace.lean`); answer: the
  model's error count.  blob = `gz/names/files/trace` with `_` for `;` and `~` for `,`; trace = `g.kind.src_…`.
* `gzhdr <content>` – `gzip.NewReader` on these bytes: `ok <offset of the compressed data>` or `err eof|ueof|header`
  (`Rare/Model/C06Gzip.lean`, the model of `readHeader`).

Ops whose file system is the Lean model of `filepath.Match/Glob/Walk` over a tree sent with the case
(`Rare/Model/C06Glob.lean`, `C06Tree.lean`):

* `match <pattern> <name>` – `filepath.Match`: `ok true|false` or `bad`.
* `clean <path>` / `join <a> <b>` – `filepath.Clean` / `filepath.Join`.
* `fsop <tree> <paths>` – for every path: `os.Lstat`, `os.Stat` (`f`ile, `d`ir, `l`ink, `-` error) and the sorted
  directory listing.
* `glob1 <pattern> <tree>` – `filepath.Glob`: `ok <list>` or `bad`.
* `globx <recursive> <args> <tree>` – `dirwalk.GlobExpand` with the model file system.
* `runtree <gunzip> <recursive> <readers> <batch> <mode> <args> <tree> <files> <stdin> [stdinfails]` – `run` with the
  model file system instead of an oracle table.

`<tree>`: `.` or `,`-joined `hexpath:d` | `hexpath:f[:hexcontent]` | `hexpath:l:hextarget`, created in this order with
`mkdir -p` for the parents; the root of the tree is the working directory.  Absolute paths and paths that climb above
the root are outside the model (`unmodelled`).

`<fs>`: `.` or `,`-joined `hexarg:isDir:walk-hexlist:b|f:glob-hexlist`;
`<files>`: `.` or `,`-joined `hexpath:canOpen:isDir:hexcontent:hdrOk:probed:hexdecoded:fails`.
Paths missing from `<files>` do not exist.
-/
namespace Rare.Drv.C06
open Rare Rare.C06 Rare.Proto

def bool? (s : String) : Option Bool :=
  if s = "1" then some true else if s = "0" then some false else none

structure FsEnt where
  arg : Path
  isDir : Bool
  walk : List Path
  glob : GlobRes

def parseFsEnt (s : String) : Option FsEnt :=
  match s.splitOn ":" with
  | [a, d, w, t, g] => do
    let a ← Hex.dec a
    let d ← bool? d
    let w ← decHexList w
    let g ← decHexList g
    let res ← if t = "b" then some GlobRes.badPattern else if t = "f" then some (GlobRes.found g) else none
    pure ⟨a, d, w, res⟩
  | _ => none

def parseFs (s : String) : Option (List FsEnt) :=
  if s = "." then some [] else (s.splitOn ",").mapM parseFsEnt

def mkFs (ents : List FsEnt) : FsOracle :=
  let find (p : Path) : Option FsEnt := ents.find? (fun e => e.arg == p)
  { isDir := fun p => match find p with | some e => e.isDir | none => false,
    walk := fun p => match find p with | some e => e.walk | none => [],
    glob := fun p => match find p with | some e => e.glob | none => .found [] }

def parseFile (s : String) : Option (Path × FileOracle) :=
  match s.splitOn ":" with
  | [p, o, d, c, h, pr, dec, fl] => do
    let p ← Hex.dec p
    let o ← bool? o
    let d ← bool? d
    let c ← Hex.dec c
    let h ← bool? h
    let pr ← nat? pr
    let dec ← Hex.dec dec
    let fl ← bool? fl
    let _ := h   -- what gzip.NewReader said at generation time: the model decides from the content (`Gz.readHeader`)
    -- … and what compress/gzip yielded (`dec`, `fl`): the model decompresses the content itself (`Gz.gunzip`)
    let _ := (dec, fl)
    pure (p, (⟨o, d, c, pr, [], false⟩ : FileOracle).withModelGzip)
  | _ => none

def parseFiles (s : String) : Option (List (Path × FileOracle)) :=
  if s = "." then some [] else (s.splitOn ",").mapM parseFile

def mkFiles (l : List (Path × FileOracle)) (p : Path) : FileOracle :=
  match l.find? (fun e => e.1 == p) with
  | some e => e.2
  | none => FileOracle.missing

def parseMode (s : String) : Option Mode :=
  if s = "all" then some .all
  else if s = "histo" then some .histo
  else match s.splitOn ":" with
    | ["byte", n] => (nat? n).map fun n => Mode.hasByte (UInt8.ofNat n)
    | _ => none

def logStr : Log → String
  | .pathError p => s!"patherr:{Hex.enc p}"
  | .openError p => s!"openerr:{Hex.enc p}"
  | .gunzipFallback p => s!"gunzipfallback:{Hex.enc p}"
  | .readError p => s!"readerr:{Hex.enc p}"
  | .usage n => s!"usage:{n}"
  | .final m => s!"final:{Hex.enc (ascii m)}"

def sortStrs (l : List String) : List String := l.mergeSort (fun a b => decide (a ≤ b))

def joinOrDot (sep : String) (l : List String) : String :=
  if l.isEmpty then "." else sep.intercalate l

/-! ### trees -/
open Rare.C06.Glob in
def parseTree (s : String) : Option Node :=
  if s = "." then some (.dir .nil)
  else (s.splitOn ",").foldlM (fun (t : Node) (e : String) =>
    match e.splitOn ":" with
    | [p, "d"] => (Hex.dec p).map fun p => t.insert (comps p) (.dir .nil)
    | [p, "f"] => (Hex.dec p).map fun p => t.insert (comps p) .file
    | [p, "f", _] => (Hex.dec p).map fun p => t.insert (comps p) .file
    | [p, "l", tg] => do
      let p ← Hex.dec p
      let tg ← Hex.dec tg
      pure (if tg.isEmpty then t else t.insert (comps p) (.link tg))   -- symlink(2) refuses an empty target
    | _ => none) (.dir .nil)

open Rare.C06.Glob in
/-- a path the model does not cover: absolute, or `..` where it might leave the tree -/
def outside (p : Bytes) : Bool := mayEscape 0 p

open Rare.C06.Glob in
def treeOutside (t : Node) : Bool := (t.linkTargets 0).any fun dt => mayEscape (dt.1 - 1) dt.2

open Rare.C06.Glob in
def kindStr : Option Node → String
  | none => "-"
  | some .file => "f"
  | some (.dir _) => "d"
  | some (.link _) => "l"

def parseErrTrace (s : String) : Option (List Rare.C06.ErrTrace.TEv) :=
  if s = "." then some [] else
  (s.splitOn "_").mapM fun e =>
    match e.splitOn "." with
    | [g, k, src] => do
      let g ← nat? g
      pure ⟨g, k, (nat? src).getD 1000000000⟩
    | _ => none

def handle : List String → String
  | ["match", pat, name] =>
    match Hex.dec pat, Hex.dec name with
    | some pat, some name =>
      match Rare.C06.Glob.goMatch pat name with
      | .matched b => s!"ok {b}"
      | .badPattern => "bad"
      | .outOfFuel => "fuel"
    | _, _ => "bad-args"
  | ["clean", p] =>
    match Hex.dec p with
    | some p => s!"ok {Hex.enc (Rare.C06.Glob.clean p)}"
    | _ => "bad-args"
  | ["join", a, b] =>
    match Hex.dec a, Hex.dec b with
    | some a, some b => s!"ok {Hex.enc (Rare.C06.Glob.join a b)}"
    | _, _ => "bad-args"
  | ["fsop", tree, paths] =>
    match parseTree tree, decHexList paths with
    | some t, some paths =>
      if paths.any outside || treeOutside t then "unmodelled outside-the-tree"
      else
        let one (p : Bytes) : String :=
          let ls := match Rare.C06.Glob.readDirNames t p with
            | some names => hexList names
            | none => "-"
          s!"{kindStr (Rare.C06.Glob.lstat t p)}{kindStr (Rare.C06.Glob.stat t p)}:{ls}"
        "ok " ++ joinOrDot "," (paths.map one)
    | _, _ => "bad-args"
  | ["glob1", pat, tree] =>
    match Hex.dec pat, parseTree tree with
    | some pat, some t =>
      if outside pat || treeOutside t then "unmodelled outside-the-tree"
      else match Rare.C06.Glob.glob t pat with
        | .badPattern => "bad"
        | .ok l => s!"ok {hexList l}"
    | _, _ => "bad-args"
  | ["globx", rec, args, tree] =>
    match bool? rec, decHexList args, parseTree tree with
    | some rec, some args, some t =>
      if args.any outside || treeOutside t then "unmodelled outside-the-tree"
      else s!"ok {hexList (planFiles (Rare.C06.treeFs t) rec args)}"
    | _, _, _ => "bad-args"
  | "runtree" :: gz :: rec :: readers :: batch :: mode :: args :: tree :: files :: stdin :: rest =>
    match bool? gz, bool? rec, int? readers, int? batch, parseMode mode, decHexList args, parseTree tree,
          parseFiles files, Hex.dec stdin with
    | some gz, some rec, some readers, some batch, some mode, some args, some t, some files, some stdin =>
      if args.any outside || treeOutside t then "unmodelled outside-the-tree"
      else
        let r := run ⟨gz, rec, readers, batch, mode⟩ args (Rare.C06.treeFs t) (mkFiles files) stdin (rest.head? == some "stdinfails")
        let logs := joinOrDot "," (sortStrs (r.logs.map logStr))
        let out := joinOrDot ";" (sortStrs (r.out.map Hex.enc))
        s!"ok exit={r.exit} errs={r.readErrors} read={r.readLines} matched={r.matched} logs={logs} out={out}"
    | _, _, _, _, _, _, _, _, _ => "bad-args"
  | "run" :: gz :: rec :: readers :: batch :: mode :: args :: fs :: files :: stdin :: rest =>
    match bool? gz, bool? rec, int? readers, int? batch, parseMode mode, decHexList args, parseFs fs,
          parseFiles files, Hex.dec stdin with
    | some gz, some rec, some readers, some batch, some mode, some args, some fs, some files, some stdin =>
      let r := run ⟨gz, rec, readers, batch, mode⟩ args (mkFs fs) (mkFiles files) stdin (rest.head? == some "stdinfails")
      let logs := joinOrDot "," (sortStrs (r.logs.map logStr))
      let out := joinOrDot ";" (sortStrs (r.out.map Hex.enc))
      s!"ok exit={r.exit} errs={r.readErrors} read={r.readLines} matched={r.matched} logs={logs} out={out}"
    | _, _, _, _, _, _, _, _, _ => "bad-args"
  | "glob" :: rec :: args :: fs :: _ =>
    match bool? rec, decHexList args, parseFs fs with
    | some rec, some args, some fs =>
      s!"ok {hexList (planFiles (mkFs fs) rec args)}"
    | _, _, _ => "bad-args"
  | "open" :: gz :: names :: files :: _ =>
    match bool? gz, decHexList names, parseFiles files with
    | some gz, some names, some files =>
      let srcs := names.map fun p => runFile gz p (mkFiles files p)
      let errs := (srcs.map (·.errs)).sum
      let out := joinOrDot ";" (sortStrs ((srcs.flatMap (outLines .all)).map Hex.enc))
      s!"ok errs={errs} out={out}"
    | _, _, _ => "bad-args"
  | ["rdfault", d, sc, _batch] =>
    match Hex.dec d, Rare.Drv.C04.parseScript sc with
    | some data, some script =>
      let fuel := data.length + script.length + 3
      let r := Rare.C04.Imm.scanAll fuel fuel (Rare.C04.Imm.init (128 * 1024) ⟨data, script⟩)
      let st := r.2.2
      -- the C06 abstraction of the same run
      let a := runStream stdinName st.delivered (Rare.C04.failsFirst script)
      if a.errs != st.errs || a.lines != r.1.map (·.2) then "model-inconsistent"
      else s!"ok errs={st.errs} lines={hexList (r.1.map (·.2))}"
    | _, _ => "bad-args"
  | ["errsched", gz, names, files, _readers, _batch] =>
    match bool? gz, decHexList names, parseFiles files with
    | some gz, some names, some files =>
      let srcs := names.map fun p => runFile gz p (mkFiles files p)
      s!"ok errs={(srcs.map (·.errs)).sum}"
    | _, _, _ => "bad-args"
  | ["errtrace", blob] =>
    match blob.splitOn "/" with
    | [gz, names, files, trace] =>
      match bool? gz, decHexList (names.replace "_" ";"), parseFiles (files.replace "~" ","), parseErrTrace trace with
      | some gz, some names, some files, some tr =>
        let srcs := names.map fun p => runFile gz p (mkFiles files p)
        let errs := (srcs.map (·.errs)).sum
        let v := Rare.C06.ErrTrace.verdict tr
        if v != "ok" then s!"reject {v}"
        else if Rare.C06.ErrTrace.countKind tr "se" != errs then s!"reject errors-logged={Rare.C06.ErrTrace.countKind tr "se"} expected={errs}"
        else if Rare.C06.ErrTrace.countKind tr "rl" != names.length then s!"reject releases={Rare.C06.ErrTrace.countKind tr "rl"} sources={names.length}"
        else s!"ok errs={errs}"
      | _, _, _, _ => "bad-args"
    | _ => "bad-args"
  | ["gzhdr", c] =>
    match Hex.dec c with
    | some c =>
      match Rare.C06.Gz.readHeader c with
      | .ok off => s!"ok {off}"
      | .err .eof => "err eof"
      | .err .unexpectedEOF => "err ueof"
      | .err .header => "err header"
    | none => "bad-args"
  | ["dispatch", bits, readers, batch, bb, args, tree, files, stdin] =>
    match bits.toList.map (· == '1'), int? readers, int? batch, int? bb, decHexList args, parseTree tree, parseFiles files, Hex.dec stdin with
    | [fo, re, ta, po, gz, rc], some readers, some batch, some bb, some args, some t, some files, some stdin =>
      let cut (m : String) : String := (m.splitOn ", is ").headD m
      let rows (srcs : List SrcRun) : String := joinOrDot ";" (sortStrs ((srcs.flatMap (outLines .all)).map Hex.enc))
      match dispatch ⟨fo, re, ta, po, gz, rc, readers, batch, bb⟩ args with
      | .usage u => s!"usage {Hex.enc (ascii (cut u.msg))}"
      | .stdin _ _ w =>
        s!"ok closed=1 errs=0 warn={if w then "follow-stdin" else "."} out={rows [runStdin stdin false]}"
      | .files r gz _ _ _ =>
        let srcs := (planFiles (Rare.C06.treeFs t) r args).map fun p => runFile gz p (mkFiles files p)
        s!"ok closed=1 errs={(srcs.map (·.errs)).sum} warn=. out={rows srcs}"
      | .tail r _ _ re _ ta w =>
        -- every planned file is followed: what is there is delivered line by line (complete lines only, the reader
        -- never sees an end of file), raw (no decompression); with --tail the existing content is skipped; a path that
        -- cannot be opened is a read error (`followreader.New` fails) unless -F waits for it to appear
        let planned := planFiles (Rare.C06.treeFs t) r args
        if planned.any (fun p => (mkFiles files p).isDir) then "unmodelled follow-directory"
        else if re && planned.any (fun p => !(mkFiles files p).canOpen) then "unmodelled reopen-missing-file"
        else
        let srcs := planned.map fun p =>
          let f := mkFiles files p
          let c := f.content
          let ls := Rare.C04.splitLines c
          let complete := if c.getLast? == some nl || c.isEmpty then ls else ls.dropLast
          ({ name := p, lines := if ta || !f.canOpen then [] else complete, errs := if f.canOpen then 0 else 1, logs := [] } : SrcRun)
        s!"ok closed=0 errs={(srcs.map (·.errs)).sum} warn={if w then "follow-gunzip" else "."} out={rows srcs}"
    | _, _, _, _, _, _, _, _ => "bad-args"
  | ["gunzip", c] =>
    match Hex.dec c with
    | some c =>
      match Rare.C06.Gz.gunzip c with
      | none => "nohdr"
      | some (d, fails) => s!"ok {Hex.enc d} {if fails then 1 else 0}"
    | none => "bad-args"
  | ["exit", re, hasAgg, pe, m] =>
    match nat? re, bool? hasAgg, nat? pe, nat? m with
    | some re, some hasAgg, some pe, some m =>
      let (c, msg) := exitCode re (if hasAgg then some pe else none) m
      s!"ok {c} {Hex.enc (ascii msg)}"
    | _, _, _, _ => "bad-args"
  | _ => "bad-op"

end Rare.Drv.C06
