import Rare.Base.Proto
import Rare.Model.C06
/-!
Line protocol of C06.

* `run <gunzip> <recursive> <readers> <batch> <mode> <args> <fs> <files> <stdin> [stdinfails]` – a whole CLI run
  (`mode` = `all` | `byte:<n>` | `histo`); answer: exit status, counters, canonical log lines, stdout multiset.
* `glob <recursive> <args> <fs>` – what `dirwalk.GlobExpand` sends.
* `open <gunzip> <names> <files>` – `batchers.OpenFilesToChan` over the names: error count and lines.
* `exit <readErrors> <hasAgg> <parseErrors> <matched>` – `DetermineErrorState`.

`<fs>`: `.` or `,`-joined `hexarg:isDir:walk-hexlist:b|f:glob-hexlist`;
`<files>`: `.` or `,`-joined `hexpath:canOpen:isDir:hexcontent:hdrOk:probed:hexdecoded:fails`.
Paths missing from `<files>` do not exist.
-/
namespace Rare.Drv.C06
open Rare Rare.C06 Rare.Proto

def bool? (s : String) : Option Bool :=
  if s = "1" then some true else if s = "0" then some false else none

structure FsEnt where
  arg : Path
  isDir : Bool
  walk : List Path
  glob : GlobRes

def parseFsEnt (s : String) : Option FsEnt :=
  match s.splitOn ":" with
  | [a, d, w, t, g] => do
    let a ← Hex.dec a
    let d ← bool? d
    let w ← decHexList w
    let g ← decHexList g
    let res ← if t = "b" then some GlobRes.badPattern else if t = "f" then some (GlobRes.found g) else none
    pure ⟨a, d, w, res⟩
  | _ => none

def parseFs (s : String) : Option (List FsEnt) :=
  if s = "." then some [] else (s.splitOn ",").mapM parseFsEnt

def mkFs (ents : List FsEnt) : FsOracle :=
  let find (p : Path) : Option FsEnt := ents.find? (fun e => e.arg == p)
  { isDir := fun p => match find p with | some e => e.isDir | none => false,
    walk := fun p => match find p with | some e => e.walk | none => [],
    glob := fun p => match find p with | some e => e.glob | none => .found [] }

def parseFile (s : String) : Option (Path × FileOracle) :=
  match s.splitOn ":" with
  | [p, o, d, c, h, pr, dec, fl] => do
    let p ← Hex.dec p
    let o ← bool? o
    let d ← bool? d
    let c ← Hex.dec c
    let h ← bool? h
    let pr ← nat? pr
    let dec ← Hex.dec dec
    let fl ← bool? fl
    pure (p, ⟨o, d, c, h, pr, dec, fl⟩)
  | _ => none

def parseFiles (s : String) : Option (List (Path × FileOracle)) :=
  if s = "." then some [] else (s.splitOn ",").mapM parseFile

def mkFiles (l : List (Path × FileOracle)) (p : Path) : FileOracle :=
  match l.find? (fun e => e.1 == p) with
  | some e => e.2
  | none => FileOracle.missing

def parseMode (s : String) : Option Mode :=
  if s = "all" then some .all
  else if s = "histo" then some .histo
  else match s.splitOn ":" with
    | ["byte", n] => (nat? n).map fun n => Mode.hasByte (UInt8.ofNat n)
    | _ => none

def logStr : Log → String
  | .pathError p => s!"patherr:{Hex.enc p}"
  | .openError p => s!"openerr:{Hex.enc p}"
  | .gunzipFallback p => s!"gunzipfallback:{Hex.enc p}"
  | .readError p => s!"readerr:{Hex.enc p}"
  | .usage n => s!"usage:{n}"
  | .final m => s!"final:{Hex.enc (ascii m)}"

def sortStrs (l : List String) : List String := l.mergeSort (fun a b => decide (a ≤ b))

def joinOrDot (sep : String) (l : List String) : String :=
  if l.isEmpty then "." else sep.intercalate l

def handle : List String → String
  | "run" :: gz :: rec :: readers :: batch :: mode :: args :: fs :: files :: stdin :: rest =>
    match bool? gz, bool? rec, int? readers, int? batch, parseMode mode, decHexList args, parseFs fs,
          parseFiles files, Hex.dec stdin with
    | some gz, some rec, some readers, some batch, some mode, some args, some fs, some files, some stdin =>
      let r := run ⟨gz, rec, readers, batch, mode⟩ args (mkFs fs) (mkFiles files) stdin (rest.head? == some "stdinfails")
      let logs := joinOrDot "," (sortStrs (r.logs.map logStr))
      let out := joinOrDot ";" (sortStrs (r.out.map Hex.enc))
      s!"ok exit={r.exit} errs={r.readErrors} read={r.readLines} matched={r.matched} logs={logs} out={out}"
    | _, _, _, _, _, _, _, _, _ => "bad-args"
  | "glob" :: rec :: args :: fs :: _ =>
    match bool? rec, decHexList args, parseFs fs with
    | some rec, some args, some fs =>
      s!"ok {hexList (planFiles (mkFs fs) rec args)}"
    | _, _, _ => "bad-args"
  | "open" :: gz :: names :: files :: _ =>
    match bool? gz, decHexList names, parseFiles files with
    | some gz, some names, some files =>
      let srcs := names.map fun p => runFile gz p (mkFiles files p)
      let errs := (srcs.map (·.errs)).sum
      let out := joinOrDot ";" (sortStrs ((srcs.flatMap (outLines .all)).map Hex.enc))
      s!"ok errs={errs} out={out}"
    | _, _, _ => "bad-args"
  | ["exit", re, hasAgg, pe, m] =>
    match nat? re, bool? hasAgg, nat? pe, nat? m with
    | some re, some hasAgg, some pe, some m =>
      let (c, msg) := exitCode re (if hasAgg then some pe else none) m
      s!"ok {c} {Hex.enc (ascii msg)}"
    | _, _, _, _ => "bad-args"
  | _ => "bad-op"

end Rare.Drv.C06
