import Rare.Drv.Expr
namespace Rare.Drv.C08

def handle (args : List String) : String :=
  match Rare.Drv.Expr.handle args with
  | some a => a
  | none => "bad-op"

end Rare.Drv.C08
