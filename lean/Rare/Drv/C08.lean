import Rare.Drv.Expr
import Rare.Drv.C10
import Rare.Drv.C14
import Rare.Model.C02
import Rare.Model.Expr.Funcs.Extra
import Rare.Drv.C08Fmt
import Rare.Drv.C08Time
/-!
Line-protocol ops of C08:

* `expr <opt> <template> <elems> <keys>` – the shared op; in this driver with `format` and the UTC-only part of the time
  helpers modelled as well (`registryE`);
* `exprw <color 0|1> <unicode 0|1> <noload 0|1> <path> <content | x> <opt> <template> <elems> <keys>` – the
  same with `color`, `bar`, `load`, `json` modelled (`Funcs/Extra.lean`) in the world described by the first
  five fields: the two package switches, `stdlib.DisableLoad`, and a file system with one readable file
  (`x` = that file cannot be read either).  `float64` is IEEE double (`Drv.C14.floatArith`), gjson answers
  `unmodelled json`;
* `exprt <time world> <opt> <template> <elems> <keys>` – the same with the time helpers modelled (`Funcs/TimeW.lean`) in the
  time world decoded from the first field (`Drv/C08Time.lean`: zone tables, dateparse answers), plus `format`; colour etc. off;
* `fmt <format> <operands>` – `fmt.Sprintf` on string operands (`Drv/C08Fmt.lean`); `exprw` also has `format` modelled;
* `funcs <opt> <file> <template> <elems> <keys>` – a definitions file (user functions → `lazySubContext`), as in C10;
* `build <name> <n> <elems>` – the builder registered under `name` called DIRECTLY with `n` constant arguments `1`
  (`n = 0` cannot be written as a template: `{name}` is a key look-up), its stage evaluated over `elems`; colour and
  unicode off, loading enabled, no readable file, the empty time world;
* `gm <line> <indices> <idx>` – `SliceSpaceExpressionContext.GetMatch(idx)` (model `C02.getMatch`).
-/
namespace Rare.Drv.C08
open Rare Rare.Expr Rare.Proto

def world (color unicode noload : Bool) (path : Bytes) (content : Option Bytes) : Funcs.Extra.World Float :=
  { arith := Rare.Drv.C14.floatArith, env := ⟨color, unicode⟩, loadDisabled := noload,
    fs := fun p => if p = path then content else none,
    gjson := fun _ _ => .panic "unmodelled:json" }

/-- `format` as the driver registers it: `Funcs.Format.kfFormatDrv` (the proved builder evaluated for both
    extreme `IsPrint` oracles; declines when they disagree). -/
def formatTable : Table := [("format", Funcs.Format.kfFormatDrv)]

def registryW (w : Funcs.Extra.World Float) : Registry :=
  mkRegistry (stdTable ++ Funcs.Extra.table w ++ formatTable) Gen.stdFunctionNames

/-- The registry of `exprt`: the standard table, `color … json` in the plain world, the time helpers in the
    decoded time world, `format`. -/
def registryT (tw : Funcs.TimeW.TimeWorld) : Registry :=
  mkRegistry (stdTable ++ Funcs.Extra.table (world false false false [] none) ++ Funcs.TimeW.table tw ++ formatTable)
    Gen.stdFunctionNames

/-- The registry of the shared `expr` op in THIS driver: the standard table plus `format` and the time helpers in
    the empty time world (rare's own UTC needs no oracle; any other zone, `auto` / `cache` and the wall clock
    answer `unmodelled …`). -/
def registryE : Registry :=
  mkRegistry (stdTable ++ Funcs.TimeW.table (Rare.Drv.C08Time.world {}) ++ formatTable) Gen.stdFunctionNames

def decInts (s : String) : Option (List Int) :=
  if s = "." then some [] else (s.splitOn ",").mapM String.toInt?

def handle (args : List String) : String :=
  match args with
  | ["exprw", c, u, nl, p, ct, o, t, el, ks] =>
    let content : Option (Option Bytes) := if ct = "x" then some none else (Hex.dec ct).map some
    match Hex.dec p, content, Hex.dec t, decHexList el, decHexList ks with
    | some path, some cont, some tb, some elems, some keys =>
      match Rare.Drv.Expr.decodeTemplate tb with
      | some tc =>
        Rare.Drv.Expr.evalWith (registryW (world (c == "1") (u == "1") (nl == "1") path cont)) (o == "1") tc
          (Rare.Drv.Expr.mkCtx elems keys)
      | none => "bad-args"
    | _, _, _, _, _ => "bad-args"
  | ["exprt", twb, o, t, el, ks] =>
    match Rare.Drv.C08Time.decTables twb, Hex.dec t, decHexList el, decHexList ks with
    | some tabs, some tb, some elems, some keys =>
      match Rare.Drv.Expr.decodeTemplate tb with
      | some tc =>
        Rare.Drv.Expr.evalWith (registryT (Rare.Drv.C08Time.world tabs)) (o == "1") tc (Rare.Drv.Expr.mkCtx elems keys)
      | none => "bad-args"
    | _, _, _, _ => "bad-args"
  | ["expr", o, t, el, ks] =>
    match Hex.dec t, decHexList el, decHexList ks with
    | some tb, some elems, some keys =>
      match Rare.Drv.Expr.decodeTemplate tb with
      | some tc => Rare.Drv.Expr.evalWith registryE (o == "1") tc (Rare.Drv.Expr.mkCtx elems keys)
      | none => "bad-args"
    | _, _, _ => "bad-args"
  | ["gm", l, ix, i] =>
    match Hex.dec l, decInts ix, i.toInt? with
    | some line, some indices, some idx =>
      match Rare.C02.getMatch line indices idx with
      | .ok b => s!"ok {Hex.enc b}"
      | .error _ => "panic"
    | _, _, _ => "bad-args"
  | ["build", nm, n, el] =>
    match Hex.dec nm, n.toNat?, decHexList el with
    | some name, some k, some elems =>
      match registryT (Rare.Drv.C08Time.world {}) (name.map fun b => Char.ofNat b.toNat) with
      | none => "ok missing"
      | some b =>
        match b (List.replicate k (Stage.lit (ascii "1"))) with
        | .error m => Rare.Drv.Expr.panicAns m
        | .ok built =>
          let e := match built.err with
            | some t => "func." ++ t
            | none => "."
          if e.startsWith "func.unmodelled:" then "unmodelled " ++ (e.drop 16).toString else
          match built.stage with
          | none => s!"ok stage=0 err={e} val=-"
          | some st =>
            match st.run (Rare.Drv.Expr.mkCtx elems []) with
            | .error m => Rare.Drv.Expr.panicAns m
            | .ok v => s!"ok stage=1 err={e} val={Hex.enc v}"
    | _, _, _ => "bad-args"
  | "funcs" :: _ => Rare.Drv.C10.handle args
  | _ =>
    match Rare.Drv.C08Fmt.handle args with
    | some a => a
    | none =>
      match Rare.Drv.Expr.handle args with
      | some a => a
      | none => "bad-op"

end Rare.Drv.C08
