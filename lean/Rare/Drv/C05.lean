import Rare.Model.C05Spawner
import Rare.Base.Proto
import Rare.Model.C01
import Rare.Model.AggLoopTrace
import Rare.Drv.C01
import Rare.Model.Lockset
import Rare.Model.C05Status
import Rare.Model.C05Logger
import Rare.Model.C05SignalTrace
namespace Rare.Drv.C05
open Rare Rare.C01 Rare.Proto Rare.Pipeline

def insertSorted (k : Bytes) : List (Bytes × Nat) → List (Bytes × Nat)
  | [] => [(k, 1)]
  | (k', n) :: r =>
    if k = k' then (k', n + 1) :: r
    else if k < k' then (k, 1) :: (k', n) :: r
    else (k', n) :: insertSorted k r

/-- Trace inclusion of one real run of batcher + extractor + RunAggregationLoop: the pipeline half of the
    log against the pipeline transition system (consumer = main of the loop), the loop's half against the
    aggregation-loop transition system, and the two halves against each other (what main sampled is, in
    order, what the pipeline model's consumer received). -/
def aggTrace (cfg : PipelineTrace.Cfg) (evs : List TraceOrder.Ev) : String :=
  let pipe := Drv.C01.pipeTrace cfg evs AggLoopTrace.aggKinds
  if !pipe.answer.startsWith "ok " then "rejected pipeline: " ++ pipe.answer else
  let aevs := evs.filter fun e => AggLoopTrace.aggKinds.contains e.kind
  let stream := AggLoopTrace.streamOf aevs
  let tr := aevs.toArray
  match TraceOrder.verdict AggLoopTrace.machine AggLoopTrace.lin (AggLoopTrace.initSt stream) tr with
  | .accepted as _ =>
    let s := as.lts
    if s.sampled ≠ pipe.consumed.map (·.text) then "rejected cross: the keys sampled are not the matches the pipeline delivered, in order" else
    let last := match s.renders.getLast? with | some r => r.length | none => 0
    s!"{pipe.answer} renders={s.renders.length} last={last}"
  | .rejected deepest stuck exhausted =>
    let st := " ".intercalate (stuck.map fun p => s!"{p}:{Drv.C01.showEv (TraceOrder.evAt tr p)}")
    s!"rejected aggloop after={deepest}/{tr.size} exhaustive={exhausted} frontier={st}"

/-- `strace <cfg> <summary> <trace>`: the loop's share of the log of a real run ended by SIGINT (or by the end of a
    finite input) against the signal transition system; the stream is what main received. -/
def sigTrace (evs : List TraceOrder.Ev) : String :=
  let aevs := evs.filter fun e => AggLoopTrace.aggKinds.contains e.kind
  let stream := AggLoopTrace.streamOf aevs
  let tr := aevs.toArray
  match TraceOrder.verdict AggLoopTrace.smachine AggLoopTrace.slin (AggLoopTrace.sinitSt stream) tr with
  | .accepted s _ =>
    let b := s.a.lts
    let last := match b.renders.getLast? with | some r => r.length | none => 0
    s!"ok accepted signalled={if s.signalled then 1 else 0} sampled={b.sampled.length} last={last}"
  | .rejected deepest stuck exhausted =>
    let st := " ".intercalate (stuck.map fun p => s!"{p}:{Drv.C01.showEv (TraceOrder.evAt tr p)}")
    s!"rejected sigloop after={deepest}/{tr.size} exhaustive={exhausted} frontier={st}"

open Rare.Gen.Access Rare.Lockset in
/-- Static verdict of the lockset check on one regenerated table: `ok racefree`, or the first offending
    pair of access sites (function:line:field/object:kind:lock:how). -/
def locksetVerdict (name : String) : String :=
  let pairs (l : List (Acc × Acc)) : String :=
    match l with
    | [] => "ok racefree"
    | (a, b) :: _ => s!"race {showAcc a} vs {showAcc b} (+{l.length - 1} more pairs)"
  let mon (l : List Acc) : String :=
    match l with
    | [] => "ok racefree"
    | a :: _ => s!"leak {showAcc a} (+{l.length - 1} more)"
  match name with
  | "batcher" => pairs (offenders batcherCtors batcher)
  | "extractor" => pairs (offenders extractorCtors extractor)
  | "ignoreSet" => pairs (offenders ignoreSetCtors ignoreSet)
  | "objectPool" => pairs (offenders objectPoolCtors objectPool)
  | "logger" => pairs (offenders loggerCtors logger)
  | "multitermGlobals" => pairs (offenders multitermGlobalsCtors multitermGlobals)
  | "aggLoop" => pairs (offendersRoles aggLoop)
  | "stageState" => pairs (offendersClosures stageState)
  | "stageStateFuncfile" => pairs (offendersClosures stageStateFuncfile)
  | "stdlibGlobals" => pairs (offenders stdlibGlobalsCtors stdlibGlobals)
  | "stageStateExpressions" => pairs (offendersClosures stageStateExpressions)
  | "stageStateStdmath" => pairs (offendersClosures stageStateStdmath)
  | "compiledKeyBuilder" => pairs (offenders compiledKeyBuilderCtors compiledKeyBuilder)
  | "expressionsGlobals" => pairs (offenders expressionsGlobalsCtors expressionsGlobals)
  | "stdmathGlobals" => pairs (offenders stdmathGlobalsCtors stdmathGlobals)
  | "aggregation" => mon (monitorOffenders aggregation)
  | "multiterm" => mon (monitorOffenders multiterm)
  | "termrenderers" => mon (monitorOffenders termrenderers)
  | _ => "bad-args table"

open Rare.Gen.Access Rare.Lockset in
/-- `stageclass <table>`: the captured variables of a closure table that are plainly written at evaluation time
    (`ok mutable=.` is the property's claim), with the pooled and atomic ones for the record. -/
def stageClassVerdict (name : String) : String :=
  let go (fields : List Fld) (accs : List Acc) : String :=
    let l (c : String) := match ofClass fields accs c with | [] => "." | xs => ",".intercalate xs
    s!"ok mutable={l "mutable"}"
  match name with
  | "stageState" => go stageStateFields stageState
  | "stageStateFuncfile" => go stageStateFuncfileFields stageStateFuncfile
  | "stageStateExpressions" => go stageStateExpressionsFields stageStateExpressions
  | "stageStateStdmath" => go stageStateStdmathFields stageStateStdmath
  | _ => "bad-args table"

/-- `logger <goroutines> <msgs> <ctl>`: the logger transition system run to completion on a schedule of the driver's
    own (rotating priorities), with a final `ImmediateLogs`; the observables of the final state. -/
def loggerAnswer (g m : Nat) (ctl : String) : String :=
  let cs : List C05Logger.Ctl := (ctl.toList.filterMap fun c =>
    if c == 'D' then some .defer else if c == 'I' then some .immediate else none) ++ [.immediate]
  let script : Nat → List String := fun i => if i < g then (List.range m).map fun k => s!"g{i}-m{k}" else []
  let s := C05Logger.runN g (3 * g * m + 2 * cs.length + 8) 1 (C05Logger.init script cs)
  let idle := (List.range g).all fun i => (s.pr i).pc == 0 && (s.pr i).todo.isEmpty
  if !(idle && s.ctl.isEmpty && s.writer.isNone && s.buf.isEmpty && !s.deferred) then "model-run-incomplete" else
  let perOk := (List.range g).all fun i => C05Logger.printedBy s.err i == script i
  let whole := s.err.all fun p => p.1 < g
  s!"ok lines={s.err.length} whole={if whole then 1 else 0} once={if perOk && s.err.length == g * m then 1 else 0} ordered={if perOk then 1 else 0}"

/-- `status <setup> <body> <reps> <readers>`: the sequential meaning of a script of status updates (the
    observable part of `StatusString` after every step of `setup ++ body`), whether `body` brings the
    active list back to where it started (then the harness repeats it `reps` times against concurrent
    readers), the final observable, and the claim `bad=0`: a concurrent `StatusString` only ever shows an
    active list that existed. -/
def statusAnswer (setup body : String) (reps : Nat) : String :=
  match C05Status.parseScript setup, C05Status.parseScript body with
  | some su, some bo =>
    let s0 := C05Status.run {} su
    let s1 := C05Status.run s0 bo
    let cyclic := C05Status.activePart s0 == C05Status.activePart s1
    let r := if cyclic then reps else 1
    let fin := (List.range r).foldl (fun s _ => C05Status.run s bo) s0
    let seq := (C05Status.states {} (su ++ bo)).drop 1
    let enc (t : String) := Hex.enc t.toUTF8.data.toList
    s!"ok seq={";".intercalate (seq.map fun st => enc (C05Status.observable st))} cyclic={if cyclic then 1 else 0} bad=0 final={enc (C05Status.observable fin)}"
  | _, _ => "bad-args script"

/-- `agg <inputs hexlist> …`: the final histogram every schedule must end with (keys sorted bytewise),
    the matched total, and the two flags the harness reports (`1` = the property held in that run).
    `atrace <blob>`: trace inclusion of a real run's event log (blob as in C01's `ptrace`).
    `lockset <table>`: the static lockset verdict on the table regenerated from /repo.
    `status …`: status bookkeeping of the Batcher.  `pool …`: exclusive ownership of pooled objects.
    `logger …` / `logerr …`: the deferred log (Model/C05Logger; `logger_final_flush_complete`); every failed open of
    `OpenFilesToChan` is counted and logged once.
    `sigagg …`: SIGINT while the input is still running: graceful stop with a complete render of what was sampled
    (Model/C05Signal, `signal_final_render`).
    `stages …`: every value a worker computes with the shared compiled expression is the sequential value. -/
def handle : List String → String
  | "agg" :: ins :: _ =>
    match decHexList ins with
    | some inputs =>
      let ms := seqMatches harnessCls (allLines inputs)
      let counts := ms.foldl (fun acc l => insertSorted l.text acc) []
      let body := if counts.isEmpty then "." else ",".intercalate (counts.map fun p => s!"{Hex.enc p.1}={p.2}")
      s!"ok final={body} matched={ms.length} renders_ok=1 excl_ok=1"
    | none => "bad-args"
  | "atrace" :: blob :: _ =>
    match blob.splitOn "/" with
    | [cfg, ins, _, trace] =>
      match Drv.C01.parseInputs ins with
      | none => "bad-args inputs"
      | some inputs =>
        match Drv.C01.parseCfg cfg inputs true, Drv.C01.parseTrace trace with
        | some cfg, some evs => aggTrace cfg evs
        | _, _ => "bad-args cfg/trace"
    | _ => "bad-args blob"
  | "strace" :: _ :: _ :: trace :: _ =>
    match Drv.C01.parseTrace trace with
    | some evs => sigTrace evs
    | none => "bad-args trace"
  | "lockset" :: name :: _ => locksetVerdict name
  | "stageclass" :: name :: _ => stageClassVerdict name
  | "status" :: setup :: body :: reps :: _ => statusAnswer setup body reps.toNat!
  | "pool" :: _ => "ok bad=0"
  | "stages" :: _ => "ok bad=0 panics=0"
  | "logger" :: g :: m :: ctl :: _ => loggerAnswer g.toNat! m.toNat! ctl
  | "logerr" :: _ :: missing :: present :: _ =>
    s!"ok errors={missing.toNat!} logged={missing.toNat!} whole=1 once=1 lines={2 * present.toNat!}"
  | "closelag" :: _ => "ok lag=0"   -- closed channel ⇒ complete status (Props: close_status_complete; the order before /repo 7025f4b allowed lag=1)
  | "closeord" :: present :: missing :: _ :: _ :: rest =>   -- the same claim at the spawner's `c.close` point under a forced schedule; every reader was held once
    let dirs := match rest with | d :: _ => d.toNat! | [] => 0   -- directories: opened, first read fails (body `[opened, err]`)
    s!"ok lag=0 after=0 status=1 status_after=1 errors={missing.toNat! + dirs} bytes=1 ahead=0 held={present.toNat! + missing.toNat! + dirs}"
  | "srccount" :: n :: missing :: ahead :: _ =>   -- `[read/total]` of the status line: the spawner LTS run to its close (Props status_total_complete)
    let s := C05Spawner.runAll n.toNat! ahead.toNat! (min missing.toNat! n.toNat!)
    s!"ok mono=1 bounded=1 final={if s.total > 1 then s!"{s.read}/{s.total}" else "-"}"
  | "sigagg" :: _ => "ok returned=1 input_exhausted=0 final_render=1 final_eq_sampled=1 whole_batches=1 late_renders=0 late_samples=0 excl_ok=1"
  | _ => "bad-op"

end Rare.Drv.C05
