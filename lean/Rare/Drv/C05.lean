import Rare.Base.Proto
import Rare.Model.C01
namespace Rare.Drv.C05
open Rare Rare.C01 Rare.Proto Rare.Pipeline

def insertSorted (k : Bytes) : List (Bytes × Nat) → List (Bytes × Nat)
  | [] => [(k, 1)]
  | (k', n) :: r =>
    if k = k' then (k', n + 1) :: r
    else if k < k' then (k, 1) :: (k', n) :: r
    else (k', n) :: insertSorted k r

/-- `agg <inputs hexlist> …`: the final histogram every schedule must end with (keys sorted bytewise),
    the matched total, and the two flags the harness reports (`1` = the property held in that run). -/
def handle : List String → String
  | "agg" :: ins :: _ =>
    match decHexList ins with
    | some inputs =>
      let ms := seqMatches harnessCls (allLines inputs)
      let counts := ms.foldl (fun acc l => insertSorted l.text acc) []
      let body := if counts.isEmpty then "." else ",".intercalate (counts.map fun p => s!"{Hex.enc p.1}={p.2}")
      s!"ok final={body} matched={ms.length} renders_ok=1 excl_ok=1"
    | none => "bad-args"
  | _ => "bad-op"

end Rare.Drv.C05
