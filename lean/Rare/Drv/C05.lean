import Rare.Base.Proto
import Rare.Model.C01
import Rare.Model.AggLoopTrace
import Rare.Drv.C01
namespace Rare.Drv.C05
open Rare Rare.C01 Rare.Proto Rare.Pipeline

def insertSorted (k : Bytes) : List (Bytes × Nat) → List (Bytes × Nat)
  | [] => [(k, 1)]
  | (k', n) :: r =>
    if k = k' then (k', n + 1) :: r
    else if k < k' then (k, 1) :: (k', n) :: r
    else (k', n) :: insertSorted k r

/-- Trace inclusion of one real run of batcher + extractor + RunAggregationLoop: the pipeline half of the
    log against the pipeline transition system (consumer = main of the loop), the loop's half against the
    aggregation-loop transition system, and the two halves against each other (what main sampled is, in
    order, what the pipeline model's consumer received). -/
def aggTrace (cfg : PipelineTrace.Cfg) (evs : List TraceOrder.Ev) : String :=
  let pipe := Drv.C01.pipeTrace cfg evs AggLoopTrace.aggKinds
  if !pipe.answer.startsWith "ok " then "rejected pipeline: " ++ pipe.answer else
  let aevs := evs.filter fun e => AggLoopTrace.aggKinds.contains e.kind
  let stream := AggLoopTrace.streamOf aevs
  let tr := aevs.toArray
  match TraceOrder.verdict AggLoopTrace.machine AggLoopTrace.lin (AggLoopTrace.initSt stream) tr with
  | .accepted as _ =>
    let s := as.lts
    if s.sampled ≠ pipe.consumed.map (·.text) then "rejected cross: the keys sampled are not the matches the pipeline delivered, in order" else
    let last := match s.renders.getLast? with | some r => r.length | none => 0
    s!"{pipe.answer} renders={s.renders.length} last={last}"
  | .rejected deepest stuck exhausted =>
    let st := " ".intercalate (stuck.map fun p => s!"{p}:{Drv.C01.showEv (TraceOrder.evAt tr p)}")
    s!"rejected aggloop after={deepest}/{tr.size} exhaustive={exhausted} frontier={st}"

/-- `agg <inputs hexlist> …`: the final histogram every schedule must end with (keys sorted bytewise),
    the matched total, and the two flags the harness reports (`1` = the property held in that run).
    `atrace <blob>`: trace inclusion of a real run's event log (blob as in C01's `ptrace`). -/
def handle : List String → String
  | "agg" :: ins :: _ =>
    match decHexList ins with
    | some inputs =>
      let ms := seqMatches harnessCls (allLines inputs)
      let counts := ms.foldl (fun acc l => insertSorted l.text acc) []
      let body := if counts.isEmpty then "." else ",".intercalate (counts.map fun p => s!"{Hex.enc p.1}={p.2}")
      s!"ok final={body} matched={ms.length} renders_ok=1 excl_ok=1"
    | none => "bad-args"
  | "atrace" :: blob :: _ =>
    match blob.splitOn "/" with
    | [cfg, ins, _, trace] =>
      match Drv.C01.parseInputs ins with
      | none => "bad-args inputs"
      | some inputs =>
        match Drv.C01.parseCfg cfg inputs true, Drv.C01.parseTrace trace with
        | some cfg, some evs => aggTrace cfg evs
        | _, _ => "bad-args cfg/trace"
    | _ => "bad-args blob"
  | _ => "bad-op"

end Rare.Drv.C05
