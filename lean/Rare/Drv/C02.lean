import Rare.Base.Proto
import Rare.Model.C02
import Rare.Model.C02Filter
import Rare.Model.C02Plan
import Rare.Model.C02RxParse
import Rare.Model.C16
import Rare.Drv.C01
import Rare.Gen.C02
import Rare.Gen.C12
import Rare.Model.C12
import Rare.Model.C02Batch
import Rare.Model.C02Hist
namespace Rare.Drv.C02
open Rare Rare.C02 Rare.Proto

def decInts (s : String) : Option (List Int) :=
  if s = "." then some [] else (s.splitOn ",").mapM String.toInt?

def decNames (names : List Bytes) (idxs : List Int) : List (Bytes × Int) := names.zip idxs

/-- split at line feeds -/
def splitNl (b : Bytes) : List Bytes :=
  let (cur, acc) := b.foldl (fun (st : Bytes × List Bytes) c => if c = 0x0a then ([], st.1.reverse :: st.2) else (c :: st.1, st.2)) ([], [])
  (cur.reverse :: acc).reverse

/-- order-sensitive digest of one index list -/
def digest (ix : List Int) : Int := ix.foldl (fun acc v => (acc * 131 + v + 7) % 1000000007) 1

/-- driver-only guard for POSIX mode (which enumerates the whole priority list): number of list elements per end
offset (`v`) and number of list elements built on the way (`w`), computed without building them -/
structure PathW where
  v : List Nat
  w : Nat

def unitV (len i : Nat) : List Nat := (List.range (len + 1)).map fun j => if j = i then 1 else 0
def addV (a b : List Nat) : List Nat := List.zipWith (· + ·) a b
def scaleV (k : Nat) (a : List Nat) : List Nat := a.map (k * ·)

def pathW (s : Bytes) : Rx.Re → Nat → PathW
  | .eps, i => ⟨unitV s.length i, 1⟩
  | .cls neg rs, i =>
    match s[i]? with
    | some b => if Rx.inCls neg rs b then ⟨unitV s.length (i + 1), 1⟩ else ⟨unitV s.length (s.length + 1), 1⟩
    | none => ⟨unitV s.length (s.length + 1), 1⟩
  | .look k, i => if Rx.holds s k i then ⟨unitV s.length i, 1⟩ else ⟨unitV s.length (s.length + 1), 1⟩
  | .cat a b, i =>
    let A := pathW s a i
    (A.v.zipIdx).foldl (fun (acc : PathW) (jc : Nat × Nat) =>
      if jc.1 = 0 then acc else
      let B := pathW s b jc.2
      ⟨addV acc.v (scaleV jc.1 B.v), acc.w + jc.1 * B.w⟩) ⟨unitV s.length (s.length + 1), A.w⟩
  | .alt a b, i =>
    let A := pathW s a i
    let B := pathW s b i
    ⟨addV A.v B.v, A.w + B.w⟩
  | .star _ a, i =>
    -- positions len, len-1, …, i: table of the loop's own counts from each position
    let tbl := (List.range (s.length + 1 - i)).foldl (fun (tbl : List (Nat × PathW)) d =>
      let pos := s.length - d
      let A := pathW s a pos
      let P := (A.v.zipIdx).foldl (fun (acc : PathW) (jc : Nat × Nat) =>
        if jc.1 = 0 || jc.2 ≤ pos then acc else
        match tbl.find? (·.1 == jc.2) with
        | some (_, B) => ⟨addV acc.v (scaleV jc.1 B.v), acc.w + jc.1 * B.w⟩
        | none => acc) ⟨unitV s.length pos, 1 + A.w⟩
      (pos, P) :: tbl) []
    match tbl.find? (·.1 == i) with
    | some (_, P) => P
    | none => ⟨unitV s.length i, 1⟩
  | .grp _ a, i => pathW s a i

def totalWork (s : Bytes) (r : Rx.Re) : Nat :=
  (List.range (s.length + 1)).foldl (fun acc p => acc + (pathW s r p).w) 0

/-- the timer oracle a chunk script suggests: the first line after a pause `p` is time-flushed -/
def tfOracle : List String → Bool → List Bool
  | [], _ => []
  | tok :: rest, pending =>
    if tok == "p" then tfOracle rest true
    else match tok.toNat? with
      | some 0 => tfOracle rest pending
      | some (k + 1) => (pending :: List.replicate k false) ++ tfOracle rest false
      | none => tfOracle rest pending

def ansOf : Except String KeyAns → String
  | .error _ => "panic"
  | .ok .json => "unmodelled json"
  | .ok (.val b) => s!"ok {Hex.enc b}"

/--
* `ctx <line> <indices> <names hexlist> <name idx ints> <src> <linenum> <key>` – `GetKey(key)` (a decimal
  key is a group reference and goes to `GetMatch`, as `stageSimpleVariable` decides);
* `wrap <line> <groups>` – `color.WrapIndices` with colours on: rendered bytes;
* `filt <enabled> <m|d> <pattern> <line> <indices>` – what `rare filter` (no `-e`) prints for a one-line
  input whose matcher returned `indices` (`.` = no match): nothing when the line does not match or the
  whole match `{0}` is empty (the extractor drops empty keys), otherwise `filterLine`; the pattern is
  only used by the implementation side;
* `filtl <enabled> <-l> <num> <K|-> <m|d> <pattern> <lines> <indices;…>` – the whole output of `rare filter [-l] [-n num]
  [-e '{src}:{line}:{K}']` on a file of several lines (the matcher's index list per line is data, `.` = no match; the file
  name is printed as `IN`): `filterAll` – `--line` prefix with its two colours, `--num` limit, `--extract` branch;
* `plan <matchSet> <dissectSet> <posix> <ignoreCase> <matchExpr> <dissectExpr> <line> <candidates>` – the matcher
  `BuildMatcherFromArguments` selects, applied to the line: the model picks among the engines' own answers
  (`re(e); re((?i)e); posix(e); posix((?i)e); dissect(d,false); dissect(d,true)`, `E` = does not compile);
* `named <pattern> <line> <SubexpNames> <indices> <key>` – `{key}` evaluated by the extractor on a line matched by a
  real regex: the model builds the name table from the `SubexpNames()` list as the regex wrapper does
  (`C16.regexNameTable`) and looks the key up with `getKey` (decimal keys go to `GetMatch`); the pattern is only
  used by the implementation side;
* `rx <posix> <pattern> <line>` – the regex engine itself, for the modelled fragment (`Model/C02Rx`, parsed by
  `Model/C02RxParse`): `FindSubmatchIndex(line)` of `fastregex.CompileEx(pattern, posix)` and the wrapper's
  name table (`idx:name` pairs by index); `posix = 1`: POSIX syntax and leftmost-longest (`findSubmatchIndexL`);
  `unmodelled` outside the fragment (non-ASCII, nullable loop bodies, flags, …);
* `rxkey <pattern> <line> <key>` (`rxkeyp`: the same under `--posix`, leftmost-longest) – `{key}` evaluated by the real extractor with the real regex matcher, the
  model side computing everything from the pattern text: parser, leftmost-first matcher, name table, `GetKey`;
* `tflush <batch> <buffer> <flushms> <pattern> <chunks> <lines>` – the time-flush loop as read from the source, on
  the slice-level machine (`Model/C02Batch`: backing arrays, `append` in place, `make`), with the timer oracle the
  chunk script suggests; the sent batches are read only at the very END (`lateRead`), numbered `BatchStart + idx`
  and matched by the model regex engine; per match `number:line:indices:extracted` for `{src}|{line}|{1}|{2}`;
* `tfheap <batch> <buffer> <flushms> <chunks> <lines>` – the same machine looked at directly: do the sent slices have pairwise
  different backing arrays, is every capacity the batch size, what do they read at the end (`number:line`);
* `ctxhist <posix> <maxbatch> <pattern> <keys> <seq>` – ONE worker's context over a HISTORY of lines from several sources
  (`seq`: `+`-joined `<hex source>/<line number>/<hex line>`, in the order the single worker gets them), real regex,
  expression `{k1}|{k2}|…` (decimal group numbers, group names, `@`, `src`, `line`): answered by the context-free
  `captureOf` of every line (`Model/C02Hist`; `capture_history_is_map` says the worker's loop is that map) with the model
  regex engine and the wrapper's name table; per match `source/number/line/indices/extracted`;
* `vis <bytes>` – `color.StrLen`'s visible bytes (count compared with the real `StrLen`);
* `pipe …`, `regexpipe <n>` – pipeline ops shared with C01;
* `dissectpipe <groups> <pattern> <input> <batch>` – the dissect matcher with one worker, all matches held
  until the end and re-read (their index slices come from the instance's `IntPool`, refilled every
  `Gen.C12.poolSize g / (2g+2)` matches).
-/
def handle : List String → String
  | ["ctx", l, ix, ns, ni, src, ln, key] =>
    match Hex.dec l, decInts ix, decHexList ns, decInts ni, Hex.dec src, ln.toNat?, Hex.dec key with
    | some line, some indices, some names, some nidx, some source, some lineNum, some k =>
      let c : MatchCtx := ⟨line, indices, decNames names nidx, source, lineNum⟩
      match atoi k with
      | some i => match getMatch line indices i with
        | .ok b => s!"ok {Hex.enc b}"
        | .error _ => "panic"
      | none => ansOf (getKey c k)
    | _, _, _, _, _, _, _ => "bad-args"
  | ["wrap", l, g] =>
    match Hex.dec l, decInts g with
    | some line, some groups =>
      match wrapIndices line (Gen.C02.groupColors.map lit) (lit Gen.C02.reset) groups with
      | .ok segs => if strip segs == line then s!"ok {Hex.enc (render segs)}" else s!"ok {Hex.enc (render segs)} strip-differs"
      | .error _ => "panic"
    | _, _ => "bad-args"
  | ["filt", en, _, _, l, ix] =>
    match Hex.dec l, decInts ix with
    | some line, some indices =>
      if indices.isEmpty then "ok -"
      else match getMatch line indices 0 with
        | .error _ => "panic"
        | .ok [] => "ok -"
        | .ok _ =>
          match filterLine (en == "1") (Gen.C02.groupColors.map lit) (lit Gen.C02.reset) line indices with
          | .ok segs => s!"ok {Hex.enc (render segs)}"
          | .error _ => "panic"
    | _, _ => "bad-args"
  | ["filtl", en, wl, num, k, _, _, ls, ixs] =>
    match decHexList ls, num.toInt? with
    | some lines, some numI =>
      let numN : Nat := if numI < 0 then (18446744073709551616 + numI).toNat else numI.toNat
      let ixl := (ixs.splitOn ";").map decInts
      if ixl.length != lines.length || ixl.any Option.isNone then "bad-args" else
      let custom := k != "-"
      let src := ascii "IN"
      let ms : List FMatch := ((lines.zip ixl).zipIdx 1).filterMap fun ((line, ix), i) =>
        match ix with
        | some ix =>
          if ix.isEmpty then none
          else
            let g0 := match getMatch line ix 0 with | .ok b => b | .error _ => []
            if custom then
              let gk := match getMatch line ix (k.toInt?.getD 0) with | .ok b => b | .error _ => []
              some ⟨src, i, line, ix, src ++ [0x3a] ++ itoa i ++ [0x3a] ++ gk⟩
            else if g0.isEmpty then none else some ⟨src, i, line, ix, g0⟩
        | none => none
      let pal : Palette := ⟨Gen.C02.groupColors.map lit, lit Gen.C02.reset, lit Gen.C02.filterSrcColor, lit Gen.C02.filterNumColor⟩
      match filterAll (en == "1") (wl == "1") custom pal numN ms 0 with
      | .ok segs => s!"ok {Hex.enc (render segs)}"
      | .error _ => "panic"
    | _, _ => "bad-args"
  | ["plan", ms, ds, px, ic, me, de, l, cands] =>
    match Hex.dec me, Hex.dec de, Hex.dec l with
    | some matchExpr, some dissectExpr, some line =>
      let cs := cands.splitOn ";"
      let pick (i : Nat) : String := match cs[i]? with
        | some "E" => "error"
        | some a => s!"ok {a}"
        | none => "bad-args"
      match matcherPlan (ms == "1") (ds == "1") matchExpr dissectExpr (px == "1") (ic == "1") with
      | .conflict => "error"
      | .always => s!"ok {",".intercalate ((alwaysIndices line).map toString)}"
      | .dissect e i => if e == dissectExpr then pick (if i then 5 else 4) else "bad-plan"
      | .regex e p =>
        if e == matchExpr then pick (if p then 2 else 0)
        else if e == icPrefix ++ matchExpr then pick (if p then 3 else 1)
        else "bad-plan"
    | _, _, _ => "bad-args"
  | ["named", _, l, ns, ix, key] =>
    match Hex.dec l, decHexList ns, decInts ix, Hex.dec key with
    | some line, some names, some indices, some k =>
      let c : MatchCtx := ⟨line, indices, Rare.C16.regexNameTable names, ascii "s0", 1⟩
      match atoi k with
      | some i => match getMatch line indices i with
        | .ok b => s!"ok {Hex.enc b}"
        | .error _ => "panic"
      | none => ansOf (getKey c k)
    | _, _, _, _ => "bad-args"
  | ["rx", px, p, l] =>
    match Hex.dec p, Hex.dec l with
    | some pat, some line =>
      if line.any (· ≥ 0x80) then "unmodelled non-ascii"
      else match Rx.parseEx (px != "0") pat with
        | none => "unmodelled syntax"
        | some pr =>
          if px != "0" && totalWork line pr.re > 400000 then "unmodelled paths" else
          let ix := if px != "0" then Rx.findSubmatchIndexL line pr.re pr.ng else Rx.findSubmatchIndex line pr.re pr.ng
          let tbl := (Rare.C16.regexNameTable pr.subexpNames).mergeSort (fun a b => a.2 ≤ b.2)
          let ns := if tbl.isEmpty then "." else ",".intercalate (tbl.map fun e => s!"{e.2}:{Hex.enc e.1}")
          s!"ok {if ix.isEmpty then "." else ",".intercalate (ix.map toString)} {ns}"
    | _, _ => "bad-args"
  | ["tflush", bs, _, _, p, chunks, ls] =>
    match bs.toNat?, Hex.dec p, decHexList ls with
    | some batch, some pat, some lines =>
      if batch = 0 then "unmodelled batch" else
      if lines.any (fun l => l.any (· ≥ 0x80)) then "unmodelled non-ascii" else
      match Rx.parse pat with
      | none => "unmodelled syntax"
      | some pr =>
        let toks := if chunks == "." then [] else chunks.splitOn ","
        let orc := tfOracle toks false
        let orc := orc ++ List.replicate (lines.length - orc.length) false
        let fin := BatchH.runH BatchH.timedLoop batch (lines.zip orc)
        let cells := BatchH.numbered (BatchH.lateRead fin)
        if cells.any (fun c => c.1.isNone) then "panic" else
        let src := ascii "s0"
        let rows := cells.filterMap fun c =>
          match c.1 with
          | none => none
          | some line =>
            let ix := Rx.findSubmatchIndex line pr.re pr.ng
            if ix.isEmpty then none else
            let g (k : Int) := match getMatch line ix k with | .ok b => b | .error _ => []
            let ext := src ++ [0x7c] ++ itoa c.2 ++ [0x7c] ++ g 1 ++ [0x7c] ++ g 2
            some s!"{c.2}:{Hex.enc line}:{".".intercalate (ix.map toString)}:{Hex.enc ext}"
        s!"ok read={cells.length} matches={if rows.isEmpty then "." else ",".intercalate rows}"
    | _, _, _ => "bad-args"
  | ["tfheap", bs, _, _, chunks, ls] =>
    match bs.toNat?, decHexList ls with
    | some batch, some lines =>
      if batch = 0 then "unmodelled batch" else
      let toks := if chunks == "." then [] else chunks.splitOn ","
      let orc := tfOracle toks false
      let orc := orc ++ List.replicate (lines.length - orc.length) false
      let fin := BatchH.runH BatchH.timedLoop batch (lines.zip orc)
      let arrs := fin.sent.map (·.1.arr)
      let distinct := arrs.eraseDups.length == arrs.length
      let caps := fin.sent.all (·.1.cap == batch)
      let cells := BatchH.numbered (BatchH.lateRead fin)
      if cells.any (fun c => c.1.isNone) then "panic" else
      let rows := cells.filterMap fun c => c.1.map fun line => s!"{c.2}:{Hex.enc line}"
      s!"ok distinct={if distinct then 1 else 0} caps={if caps then 1 else 0} src=1 lines={if rows.isEmpty then "." else ",".intercalate rows}"
    | _, _ => "bad-args"
  | ["ctxhist", px, _, p, ks, sq] =>
    let px := px != "0"
    let items : Option (List (Bytes × Nat × Bytes)) :=
      if sq == "." then some [] else (sq.splitOn "+").mapM fun it =>
        match it.splitOn "/" with
        | [s, n, l] => match Hex.dec s, n.toNat?, Hex.dec l with
          | some s, some n, some l => some (s, n, l)
          | _, _, _ => none
        | _ => none
    match Hex.dec p, decHexList ks, items with
    | some pat, some keys, some items =>
      if keys.isEmpty then "bad-args" else
      if items.any (fun it => it.2.2.any (· ≥ 0x80)) then "unmodelled non-ascii" else
      match Rx.parseEx px pat with
      | none => "unmodelled syntax"
      | some pr =>
        if px && items.any (fun it => totalWork it.2.2 pr.re > 400000) then "unmodelled paths" else
        let nt := Rare.C16.regexNameTable pr.subexpNames
        let hs : List LineHit := items.map fun it =>
          ⟨it.1, it.2.1, if px then Rx.findSubmatchIndexL it.2.2 pr.re pr.ng else Rx.findSubmatchIndex it.2.2 pr.re pr.ng, it.2.2⟩
        match hs.mapM fun h => (captureOf keys nt h).map fun r => (h, r) with
        | .error _ => "panic"
        | .ok l =>
          if l.any (fun x => match x.2 with | some .json => true | _ => false) then "unmodelled json" else
          let rows := l.filterMap fun x => match x.2 with
            | some (.val k) =>
              some s!"{Hex.enc x.1.source}/{x.1.lineNum}/{Hex.enc x.1.line}/{".".intercalate (x.1.indices.map toString)}/{Hex.enc k}"
            | _ => none
          s!"ok read={hs.length} matches={if rows.isEmpty then "." else "+".intercalate rows}"
    | _, _, _ => "bad-args"
  | ["vis", b] =>
    match Hex.dec b with
    | some bytes =>
      let v := visible bytes
      -- StrLen counts runes: for well-formed UTF-8 these are the bytes that are not continuation bytes
      s!"ok {(v.filter fun c => c < 0x80 || c ≥ 0xc0).length}"
    | none => "bad-args"
  | "pipe" :: rest => Rare.Drv.C01.handle ("pipe" :: rest)
  | ["regexpipe", n, _, _, _, _] => s!"ok stable=1 n={n}"
  | ["dissectpipe", g, p, inp, _] =>
    -- the C12 model with its heap of pool blocks: ONE instance matches all lines, the index slices are read
    -- only afterwards (`C12.matchAll`); `crossed` = the pool was refilled at least once, from the source's pool size
    match g.toNat?, Hex.dec p, decHexList inp with
    | some g, some pat, some inputs =>
      let data := inputs.headD []
      let pieces := splitNl data
      let lines := if data.getLast? == some 0x0a || data.isEmpty then pieces.dropLast else pieces
      match Rare.C12.compileEx pat false with
      | .error _ => "bad-pattern"
      | .ok d =>
        if d.groupCount != g then "bad-args groups" else
        match Rare.C12.matchAll d lines with
        | .error _ => "panic"
        | .ok rs =>
          let ms := rs.filterMap fun o => match o with
            | some ix => if ix.getD 1 0 > ix.getD 0 0 then some ix else none
            | none => none
          let n := ms.length
          let sum := ms.foldl (fun acc ix => (acc * 31 + digest ix) % 1000000007) 0
          let perBlock := Gen.C12.poolSize g / (2 * g + 2)
          s!"ok stable=1 n={n} crossed={if n > perBlock then 1 else 0} sum={sum}"
    | _, _, _ => "bad-args"
  | [op, p, l, key] =>
    if op != "rxkey" && op != "rxkeyp" then "bad-op" else
    let px := op == "rxkeyp"
    match Hex.dec p, Hex.dec l, Hex.dec key with
    | some pat, some line, some k =>
      if line.any (· ≥ 0x80) then "unmodelled non-ascii"
      else match Rx.parseEx px pat with
        | none => "unmodelled syntax"
        | some pr =>
          if px && totalWork line pr.re > 400000 then "unmodelled paths" else
          let indices := if px then Rx.findSubmatchIndexL line pr.re pr.ng else Rx.findSubmatchIndex line pr.re pr.ng
          if indices.isEmpty then "ok nomatch"
          else
            let c : MatchCtx := ⟨line, indices, Rare.C16.regexNameTable pr.subexpNames, ascii "s0", 1⟩
            match atoi k with
            | some i => match getMatch line indices i with
              | .ok b => s!"ok {Hex.enc b}"
              | .error _ => "panic"
            | none => ansOf (getKey c k)
    | _, _, _ => "bad-args"
  | _ => "bad-op"

end Rare.Drv.C02
