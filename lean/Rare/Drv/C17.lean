import Rare.Drv.Expr
/-!
Ops of C17 (besides the shared `expr` op):

  splitter <S hex> <Delim hex>                       drain the model of `stringSplitter.Splitter`
  conc <G> <rounds> <opt> <template> <elems> <keys>  the model is sequential and deterministic: same
                                                     answer as `expr` on the base context
-/
namespace Rare.Drv.C17
open Rare Rare.Expr Rare.Proto Rare.Expr.Funcs.Range

/-- `for !sp.Done() { out = append(out, sp.Next()) }` with the harness' round limit. -/
def drain : Nat → Splitter → List Bytes → Option (List Bytes)
  | 0, _, _ => none
  | fuel + 1, sp, acc =>
    if sp.Done then some acc.reverse
    else let r := sp.Next; drain fuel r.2 (r.1 :: acc)

def handle (args : List String) : String :=
  match args with
  | ["splitter", s, d] =>
    match Hex.dec s, Hex.dec d with
    | some sb, some db =>
      match drain (sb.length + 3) { S := sb, Delim := db } [] with
      | some l => "ok " ++ hexList l
      | none => "hang"
    | _, _ => "bad-args"
  | ["conc", _, _, o, t, el, ks] =>
    match Rare.Drv.Expr.handle ["expr", o, t, el, ks] with
    | some a => a
    | none => "bad-op"
  | _ =>
    match Rare.Drv.Expr.handle args with
    | some a => a
    | none => "bad-op"

end Rare.Drv.C17
