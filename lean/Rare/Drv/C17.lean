import Rare.Drv.Expr
import Rare.Spec.C17Wf
import Rare.Spec.C17Wrap
import Rare.Spec.C17Atoi
import Rare.Model.C17Pool
/-!
Ops of C17 (besides the shared `expr` op):

  splitter <S hex> <Delim hex>                       drain the model of `stringSplitter.Splitter`
  conc <G> <rounds> <opt> <template> <elems> <keys>  the model is sequential and deterministic: same
                                                     answer as `expr` on the base context
  atoi <text hex>                                    `strconv.Atoi`: the model `Rare.atoi` AND the reading of
                                                     `atoi_iff` ([+-]?digits+, Horner value `decVal`, int64
                                                     range) computed separately; they must agree
  wf <opt> <template> <elems> <keys>                 the `expr` answer read as a list: number of elements,
                                                     separator census, `elems` of the value (specification
                                                     functions applied to the model's value; the harness
                                                     applies strings.Count/strings.Split to the real value)
  spec <helper> …                                    SPECIFICATION-level answers (no model of the Go code
                                                     involved: `Spec/C17.lean` functions only) against the
                                                     real helper:
       spec split <s> <d> | spec join <arr> <d> | spec len <arr> | spec select <arr> <i>
       spec slice <arr> <start> <len | -> | spec range <start> <stop> <incr> | spec in <v> <arr>
       spec reduce <arr> <reducer id> <init | - | e>  (`-`: no third argument, `e`: an explicit `""`) `C17.reduce` with the reducer as a Lean function (`redFn`; the
                                                      harness runs the template of the same id)
  pool <size> <script>                               the model of `slicepool.ObjectPool` (`Model/C17Pool.lean`): the object
                                                     every `Get` of the script hands out (`g`, `r<k>` = Return of the
                                                     k-th Get's object), objects named by first appearance
  overlap <opt> <template> <script> (<elems> <keys>)+ W workers with their own contexts whose evaluations overlap as
                                                     scripted: the pool is invisible, so the answer is the W `expr`
                                                     answers computed one after the other
       (`spec select` / `spec slice` also evaluate the all-lists forms `selectW` / `sliceW` of
       `Spec/C17Wrap.lean` and answer `spec-disagree` unless they coincide with `select` / `pack ∘ slice`)
-/
namespace Rare.Drv.C17
open Rare Rare.Expr Rare.Proto Rare.Expr.Funcs.Range

/-- `for !sp.Done() { out = append(out, sp.Next()) }` with the harness' round limit. -/
def drain : Nat → Splitter → List Bytes → Option (List Bytes)
  | 0, _, _ => none
  | fuel + 1, sp, acc =>
    if sp.Done then some acc.reverse
    else let r := sp.Next; drain fuel r.2 (r.1 :: acc)

/-- The right-hand side of `C17.atoi_iff`, computed directly. -/
def specAtoi (s : Bytes) : Option Int :=
  let (neg, ds) : Bool × Bytes :=
    match s with
    | 43 :: r => (false, r)
    | 45 :: r => (true, r)
    | r => (false, r)
  if ds.isEmpty || !ds.all isDigitB then none
  else
    let v : Int := if neg then -(C17.decVal ds : Int) else (C17.decVal ds : Int)
    if minInt64 ≤ v ∧ v ≤ maxInt64 then some v else none

def valOf (ans : String) : Option Bytes :=
  match ans.splitOn " val=" with
  | [_, v] => Hex.dec v
  | _ => none

/-- An array value read as a list, with the separator census. -/
def listView (v : Bytes) : String :=
  s!"n={(C17.elems v).length} seps={v.count C17.NUL} elems={hexList (C17.elems v)}"

/-- A specified element list as the harness sees it (`strings.Split` of the value): `pack` and read back. -/
def specList (ys : List Bytes) : String := "ok " ++ listView (C17.pack ys)

/-- The reducers of `spec reduce`, as functions of accumulator and element (harness: `c17Reducers`). -/
def redFn (id : Nat) (a b : Bytes) : Bytes :=
  match id with
  | 0 => a ++ [45] ++ b                          -- "{0}-{1}"
  | 1 => b                                       -- {1}
  | 2 => a                                       -- {0}
  | 3 => if a = [120] then b else []             -- {if {eq {0} x} {1}}
  | 4 => if truthy b then a else []              -- {if {1} {0}}
  | 5 => b ++ a                                  -- "{1}{0}"
  | 6 => []                                      -- ""
  | 7 => if a ≠ [] then a else b                 -- {coalesce {0} {1}}
  | 8 => if a = b then [] else a ++ b            -- {if {neq {0} {1}} "{0}{1}"}
  | _ => if truthy a then [] else b              -- {unless {0} {1}}

def specHandle : List String → String
  | ["split", s, d] =>
    match Hex.dec s, Hex.dec d with
    | some sb, some db => if db.isEmpty then "bad-args" else specList (C17.splitOn db sb)
    | _, _ => "bad-args"
  | ["join", a, d] =>
    match Hex.dec a, Hex.dec d with
    | some ab, some db => "ok " ++ Hex.enc (C17.join db (C17.elems ab))
    | _, _ => "bad-args"
  | ["len", a] =>
    match Hex.dec a with
    | some ab => s!"ok {C17.len ab}"
    | none => "bad-args"
  | ["select", a, i] =>
    match Hex.dec a, i.toInt? with
    | some ab, some iv =>
      if C17.selectW (C17.elems ab) iv ≠ C17.select (C17.elems ab) iv then "spec-disagree"
      else "ok " ++ Hex.enc (C17.select (C17.elems ab) iv)
    | _, _ => "bad-args"
  | ["reduce", a, rid, ini] =>
    match Hex.dec a, rid.toNat?, (if ini = "-" || ini = "e" then some [] else Hex.dec ini) with
    | some ab, some id, some init => "ok " ++ Hex.enc (C17.reduce (redFn id) init (C17.elems ab))
    | _, _, _ => "bad-args"
  | ["slice", a, st, ln] =>
    match Hex.dec a, st.toInt?, (if ln = "-" then some (-1) else ln.toInt?) with
    | some ab, some sv, some lv =>
      if C17.sliceW (C17.elems ab) sv lv ≠ C17.pack (C17.slice (C17.elems ab) sv lv) then "spec-disagree"
      else specList (C17.slice (C17.elems ab) sv lv)
    | _, _, _ => "bad-args"
  | ["range", a, b, c] =>
    match a.toInt?, b.toInt?, c.toInt? with
    | some start, some stop, some incr =>
      if incr = 0 ∨ (incr > 0 ∧ start > stop) ∨ (incr < 0 ∧ start < stop) then "ok value"
      else if C17.rangeCount start stop incr > Gen.maxIterations then "ok inf"
      else specList ((C17.range start stop incr).map itoa)
    | _, _, _ => "bad-args"
  | ["in", v, a] =>
    match Hex.dec v, Hex.dec a with
    | some vb, some ab => if vb ∈ C17.elems ab then "ok 1" else "ok 0"
    | _, _ => "bad-args"
  | _ => "bad-op"

def parseScript (s : String) : Option (List C17Pool.Ev) :=
  (s.splitOn ",").filter (· ≠ "") |>.mapM fun e =>
    if e = "g" then some .get
    else if e.startsWith "r" then (e.drop 1).toNat?.map .ret
    else none

def pairs : List String → Option (List (String × String))
  | [] => some []
  | a :: b :: r => (pairs r).map ((a, b) :: ·)
  | _ => none

/-! ### A work budget for `@for` (driver only)

A template whose `@for` condition never turns false with values that GROW (what deleting a byte from a generated
template easily produces, e.g. while a failing case is being minimised) runs for a million rounds over ever longer
strings: the real code is stopped by the harness' watchdog (`hang`), the model would compute for hours.  Before
the model proper runs, templates that mention `@for` are evaluated once with this budgeted twin of `forLoop`
(identical, except that it gives up – `unmodelled for-budget` – after `cap` rounds or 4 MB written by one loop).
The generators never produce such a template, so an `unmodelled for-budget` answer on a generated case shows up
in the statistics of skipped cases. -/

def forLoopB (cap : Nat) (cond incr : Stage) : Nat → Bytes → Nat → Sb → Stage
  | 0, _, _, _ => .panic "unmodelled:for-budget"
  | fuel + 1, val, idx, sb =>
    let sIdx := itoa (idx : Nat)
    (cond.withSub val sIdx).bind fun c =>
      if !truthy c then .ret sb.str
      else
        let sb := if idx > 0 then sb.write ArraySeparatorString else sb
        let sb := sb.write val
        (incr.withSub val sIdx).bind fun val' =>
          let idx := idx + 1
          if idx > Gen.maxIterations then .ret InfMarker
          else if idx > cap || sb.len > 4194304 then .panic "unmodelled:for-budget"
          else forLoopB cap cond incr fuel val' idx sb

def kfArrayForB (cap : Nat) : Builder := fun args =>
  match args with
  | [a0, a1, a2] => ok (a0.bind fun val => forLoopB cap a1 a2 (Gen.maxIterations + 2) val 0 {})
  | _ => errArgCount

def countFor (t : String) : Nat := (t.splitOn "@for").length - 1

/-- `none` = within budget. -/
def forBudget (o t el ks : String) : Option String :=
  match Hex.dec t, decHexList el, decHexList ks with
  | some tb, some elems, some keys =>
    let c := countFor (String.fromUTF8! (ByteArray.mk tb.toArray |>.foldl (fun a b => a.push (if b < 128 then b else 63)) ByteArray.empty))
    if c = 0 then none else
    let cap := if c = 1 then Gen.maxIterations else if c = 2 then 1000 else if c = 3 then 100 else 30
    let reg := mkRegistry (("@for", kfArrayForB cap) :: stdTable) Gen.stdFunctionNames
    match Rare.Drv.Expr.decodeTemplate tb with
    | some tc =>
      let a := Rare.Drv.Expr.evalWith reg (o == "1") tc (Rare.Drv.Expr.mkCtx elems keys)
      if a = "unmodelled for-budget" then some a else none
    | none => none
  | _, _, _ => none

def exprGuarded (o t el ks : String) : String :=
  match forBudget o t el ks with
  | some a => a
  | none =>
    match Rare.Drv.Expr.handle ["expr", o, t, el, ks] with
    | some a => a
    | none => "bad-op"

def handle (args : List String) : String :=
  match args with
  | ["expr", o, t, el, ks] => exprGuarded o t el ks
  | ["pool", size, script] =>
    match size.toNat?, parseScript script with
    | some n, some evs =>
      let got := C17Pool.canon (C17Pool.runScript evs (C17Pool.Pool.new n) []) []
      if got.isEmpty then "ok ." else "ok " ++ ",".intercalate (got.map toString)
    | _, _ => "bad-args"
  | "overlap" :: o :: t :: _script :: ctxs =>
    match pairs ctxs with
    | some ps =>
      if ps.isEmpty then "bad-args" else
      let answers := ps.map fun (el, ks) => exprGuarded o t el ks
      match answers.find? (fun a => !(a.startsWith "ok ") && a ≠ "panic") with
      | some a => a
      | none => "ok " ++ " | ".intercalate answers
    | none => "bad-args"
  | ["splitter", s, d] =>
    match Hex.dec s, Hex.dec d with
    | some sb, some db =>
      match drain (sb.length + 3) { S := sb, Delim := db } [] with
      | some l => "ok " ++ hexList l
      | none => "hang"
    | _, _ => "bad-args"
  | ["atoi", s] =>
    match Hex.dec s with
    | some sb =>
      if atoi sb ≠ specAtoi sb then "model-spec-disagree"
      else match atoi sb with
        | some v => s!"ok {v}"
        | none => "err"
    | none => "bad-args"
  | ["wf", o, t, el, ks] =>
    let a := exprGuarded o t el ks
    if a.startsWith "ok " then
      match valOf a with
      | some v => "ok " ++ listView v
      | none => "bad-answer"
    else a
  | "spec" :: rest => specHandle rest
  | ["conc", _, _, o, t, el, ks] => exprGuarded o t el ks
  | _ =>
    match Rare.Drv.Expr.handle args with
    | some a => a
    | none => "bad-op"

end Rare.Drv.C17
