import Rare.Drv.Expr
import Rare.Spec.C17Wf
import Rare.Spec.C17Wrap
import Rare.Spec.C17Atoi
import Rare.Spec.C17Sel
import Rare.Model.C17Pool
import Rare.Model.C17Heap
import Rare.Model.C17HeapI
import Rare.Model.C17Extra
/-!
Ops of C17 (besides the shared `expr` op):

  splitter <S hex> <Delim hex>                       drain the model of `stringSplitter.Splitter`
  conc <G> <rounds> <opt> <template> <elems> <keys>  the model is sequential and deterministic: same
                                                     answer as `expr` on the base context
  atoi <text hex>                                    `strconv.Atoi`: the model `Rare.atoi` AND the reading of
                                                     `atoi_iff` ([+-]?digits+, Horner value `decVal`, int64
                                                     range) computed separately; they must agree
  wf <opt> <template> <elems> <keys>                 the `expr` answer read as a list: number of elements,
                                                     separator census, `elems` of the value (specification
                                                     functions applied to the model's value; the harness
                                                     applies strings.Count/strings.Split to the real value)
  spec <helper> …                                    SPECIFICATION-level answers (no model of the Go code
                                                     involved: `Spec/C17.lean` functions only) against the
                                                     real helper:
       spec split <s> <d> | spec join <arr> <d> | spec len <arr> | spec select <arr> <i>
       spec slice <arr> <start> <len | -> | spec range <start> <stop> <incr> | spec in <v> <arr>
       spec words <s> <i>   `{select s i}` (word selection; NUL is one of its delimiters) = `selectWord` of
                            `Spec/C17Sel.lean` for quote-free `s` (`unmodelled quoted` otherwise)
       spec reduce <arr> <reducer id> <init | - | e>  (`-`: no third argument, `e`: an explicit `""`) `C17.reduce` with the reducer as a Lean function (`redFn`; the
                                                      harness runs the template of the same id)
  mkarray <list>                                     `expressions.MakeArray` (model `C17Extra.makeArray`, checked against `pack`)
  splitterok <S hex> <Delim hex>                     drain with `NextOk`, then `Next` once more on the finished splitter
  heapm <size> <opt> <skeleton> <elems> <keys>       the heap machine `C17Heap.ev` (objects, pointer chasing, real Get/Return
                                                     on a heap full of garbage) on a template given by its helper skeleton,
                                                     against the real BuildKey; cross-checked with the pool-free model
  pool <size> <script>                               the model of `slicepool.ObjectPool` (`Model/C17Pool.lean`): the object
                                                     every `Get` of the script hands out (`g`, `r<k>` = Return of the
                                                     k-th Get's object), objects named by first appearance
  overlap <opt> <template> <script> (<elems> <keys>)+ W workers with their own contexts whose evaluations overlap as
                                                     scripted: the pool is invisible, so the answer is the W `expr`
                                                     answers computed one after the other
       (`spec select` / `spec slice` also evaluate the all-lists forms `selectW` / `sliceW` of
       `Spec/C17Wrap.lean` and answer `spec-disagree` unless they coincide with `select` / `pack ∘ slice`)
-/
namespace Rare.Drv.C17
open Rare Rare.Expr Rare.Proto Rare.Expr.Funcs.Range

/-- `for !sp.Done() { out = append(out, sp.Next()) }` with the harness' round limit. -/
def drain : Nat → Splitter → List Bytes → Option (List Bytes)
  | 0, _, _ => none
  | fuel + 1, sp, acc =>
    if sp.Done then some acc.reverse
    else let r := sp.Next; drain fuel r.2 (r.1 :: acc)

/-- The right-hand side of `C17.atoi_iff`, computed directly. -/
def specAtoi (s : Bytes) : Option Int :=
  let (neg, ds) : Bool × Bytes :=
    match s with
    | 43 :: r => (false, r)
    | 45 :: r => (true, r)
    | r => (false, r)
  if ds.isEmpty || !ds.all isDigitB then none
  else
    let v : Int := if neg then -(C17.decVal ds : Int) else (C17.decVal ds : Int)
    if minInt64 ≤ v ∧ v ≤ maxInt64 then some v else none

def valOf (ans : String) : Option Bytes :=
  match ans.splitOn " val=" with
  | [_, v] => Hex.dec v
  | _ => none

/-- An array value read as a list, with the separator census. -/
def listView (v : Bytes) : String :=
  s!"n={(C17.elems v).length} seps={v.count C17.NUL} elems={hexList (C17.elems v)}"

/-- A specified element list as the harness sees it (`strings.Split` of the value): `pack` and read back. -/
def specList (ys : List Bytes) : String := "ok " ++ listView (C17.pack ys)

/-- The reducers of `spec reduce`, as functions of accumulator and element (harness: `c17Reducers`). -/
def redFn (id : Nat) (a b : Bytes) : Bytes :=
  match id with
  | 0 => a ++ [45] ++ b                          -- "{0}-{1}"
  | 1 => b                                       -- {1}
  | 2 => a                                       -- {0}
  | 3 => if a = [120] then b else []             -- {if {eq {0} x} {1}}
  | 4 => if truthy b then a else []              -- {if {1} {0}}
  | 5 => b ++ a                                  -- "{1}{0}"
  | 6 => []                                      -- ""
  | 7 => if a ≠ [] then a else b                 -- {coalesce {0} {1}}
  | 8 => if a = b then [] else a ++ b            -- {if {neq {0} {1}} "{0}{1}"}
  | _ => if truthy a then [] else b              -- {unless {0} {1}}

def specHandle : List String → String
  | ["split", s, d] =>
    match Hex.dec s, Hex.dec d with
    | some sb, some db => if db.isEmpty then "bad-args" else specList (C17.splitOn db sb)
    | _, _ => "bad-args"
  | ["join", a, d] =>
    match Hex.dec a, Hex.dec d with
    | some ab, some db => "ok " ++ Hex.enc (C17.join db (C17.elems ab))
    | _, _ => "bad-args"
  | ["len", a] =>
    match Hex.dec a with
    | some ab => s!"ok {C17.len ab}"
    | none => "bad-args"
  | ["select", a, i] =>
    match Hex.dec a, i.toInt? with
    | some ab, some iv =>
      if C17.selectW (C17.elems ab) iv ≠ C17.select (C17.elems ab) iv then "spec-disagree"
      else "ok " ++ Hex.enc (C17.select (C17.elems ab) iv)
    | _, _ => "bad-args"
  | ["reduce", a, rid, ini] =>
    match Hex.dec a, rid.toNat?, (if ini = "-" || ini = "e" then some [] else Hex.dec ini) with
    | some ab, some id, some init => "ok " ++ Hex.enc (C17.reduce (redFn id) init (C17.elems ab))
    | _, _, _ => "bad-args"
  | ["slice", a, st, ln] =>
    match Hex.dec a, st.toInt?, (if ln = "-" then some (-1) else ln.toInt?) with
    | some ab, some sv, some lv =>
      if C17.sliceW (C17.elems ab) sv lv ≠ C17.pack (C17.slice (C17.elems ab) sv lv) then "spec-disagree"
      else specList (C17.slice (C17.elems ab) sv lv)
    | _, _, _ => "bad-args"
  | ["range", a, b, c] =>
    match a.toInt?, b.toInt?, c.toInt? with
    | some start, some stop, some incr =>
      if incr = 0 ∨ (incr > 0 ∧ start > stop) ∨ (incr < 0 ∧ start < stop) then "ok value"
      else if C17.rangeCount start stop incr > Gen.maxIterations then "ok inf"
      else specList ((C17.range start stop incr).map itoa)
    | _, _, _ => "bad-args"
  | ["in", v, a] =>
    match Hex.dec v, Hex.dec a with
    | some vb, some ab => if vb ∈ C17.elems ab then "ok 1" else "ok 0"
    | _, _ => "bad-args"
  | ["words", s, i] =>
    match Hex.dec s, i.toInt? with
    | some sb, some iv =>
      if sb.contains 34 then "unmodelled quoted"     -- the specification speaks about quote-free strings
      else "ok " ++ Hex.enc (C17.selectWord sb iv)
    | _, _ => "bad-args"
  | _ => "bad-op"

def parseScript (s : String) : Option (List C17Pool.Ev) :=
  (s.splitOn ",").filter (· ≠ "") |>.mapM fun e =>
    if e = "g" then some .get
    else if e.startsWith "r" then (e.drop 1).toNat?.map .ret
    else none

def pairs : List String → Option (List (String × String))
  | [] => some []
  | a :: b :: r => (pairs r).map ((a, b) :: ·)
  | _ => none

/-! ### A work budget for `@for` (driver only)

A template whose `@for` condition never turns false with values that GROW (what deleting a byte from a generated
template easily produces, e.g. while a failing case is being minimised) runs for a million rounds over ever longer
strings: the real code is stopped by the harness' watchdog (`hang`), the model would compute for hours.  Before
the model proper runs, templates that mention `@for` are evaluated once with this budgeted twin of `forLoop`
(identical, except that it gives up – `unmodelled for-budget` – after `cap` rounds or 4 MB written by one loop).
The generators never produce such a template, so an `unmodelled for-budget` answer on a generated case shows up
in the statistics of skipped cases. -/

def forLoopB (cap : Nat) (cond incr : Stage) : Nat → Bytes → Nat → Sb → Stage
  | 0, _, _, _ => .panic "unmodelled:for-budget"
  | fuel + 1, val, idx, sb =>
    let sIdx := itoa (idx : Nat)
    (cond.withSub val sIdx).bind fun c =>
      if !truthy c then .ret sb.str
      else
        let sb := if idx > 0 then sb.write ArraySeparatorString else sb
        let sb := sb.write val
        (incr.withSub val sIdx).bind fun val' =>
          let idx := idx + 1
          if idx > Gen.maxIterations then .ret InfMarker
          else if idx > cap || sb.len > 4194304 then .panic "unmodelled:for-budget"
          else forLoopB cap cond incr fuel val' idx sb

def kfArrayForB (cap : Nat) : Builder := fun args =>
  match args with
  | [a0, a1, a2] => ok (a0.bind fun val => forLoopB cap a1 a2 (Gen.maxIterations + 2) val 0 {})
  | _ => errArgCount

def countFor (t : String) : Nat := (t.splitOn "@for").length - 1

/-- `none` = within budget. -/
def forBudget (o t el ks : String) : Option String :=
  match Hex.dec t, decHexList el, decHexList ks with
  | some tb, some elems, some keys =>
    let c := countFor (String.fromUTF8! (ByteArray.mk tb.toArray |>.foldl (fun a b => a.push (if b < 128 then b else 63)) ByteArray.empty))
    if c = 0 then none else
    let cap := if c = 1 then Gen.maxIterations else if c = 2 then 1000 else if c = 3 then 100 else 30
    let reg := mkRegistry (("@for", kfArrayForB cap) :: stdTable) Gen.stdFunctionNames
    match Rare.Drv.Expr.decodeTemplate tb with
    | some tc =>
      let a := Rare.Drv.Expr.evalWith reg (o == "1") tc (Rare.Drv.Expr.mkCtx elems keys)
      if a = "unmodelled for-budget" then some a else none
    | none => none
  | _, _, _ => none

def exprGuarded (o t el ks : String) : String :=
  match forBudget o t el ks with
  | some a => a
  | none =>
    match Rare.Drv.Expr.handle ["expr", o, t, el, ks] with
    | some a => a
    | none => "bad-op"

/-! ### `heapm`: the heap machine (`Model/C17Heap.lean`) against the real code

A case names a template by its helper SKELETON in prefix notation (`M` @map, `F` @filter, `R` @reduce, `O` @for,
`L` @len, `S<n>` the n-th leaf of `hmLeaves`); the harness spells the same skeleton as a template and runs the real
`BuildKey`.  Leaves are compiled by the model's compiler (they are pool-free), the helper structure is run by
`C17Heap.ev` – real `Get`/overwrite/`Eval`/`Return` on a heap whose objects all hold garbage and point at
themselves.  The driver also evaluates the spelled template through the pool-free model (`expr`) and answers
`machine-model-disagree` unless both agree, `interleaved-disagree` unless the interleaved machine
(`Model/C17HeapI.lean`) under a busy interference (`envBusy`) gives the same value and ends with nothing checked
out, and `pool-leak` unless the free list afterwards holds exactly the
objects it held before plus fresh ones. -/

inductive Sk where
  | leaf (n : Nat)
  | map (a f : Sk)
  | filter (a p : Sk)
  | reduce (a f : Sk)
  | for_ (s c n : Sk)
  | len (a : Sk)

def hmLeaves : List String :=
  ["{0}", "{1}", "{arr}", "{k}", "{0}{k}", "{0}{d}{1}", "{neq {0} {k}}", "{neq {1} 3}", "{neq {1} 2}", "{0}a", "x", "",
   "{eq {0} b}", "{-1}", "{1}{0}", "{if {eq {1} 1} b {0}}"]

def parseSk : Nat → List String → Option (Sk × List String)
  | 0, _ => none
  | _ + 1, [] => none
  | fuel + 1, tok :: rest =>
    let two (mk : Sk → Sk → Sk) : Option (Sk × List String) :=
      match parseSk fuel rest with
      | some (a, r1) =>
        match parseSk fuel r1 with
        | some (b, r2) => some (mk a b, r2)
        | none => none
      | none => none
    if tok = "M" then two .map
    else if tok = "F" then two .filter
    else if tok = "R" then two .reduce
    else if tok = "L" then (parseSk fuel rest).map fun (a, r) => (.len a, r)
    else if tok = "O" then
      match parseSk fuel rest with
      | some (a, r1) =>
        match parseSk fuel r1 with
        | some (b, r2) =>
          match parseSk fuel r2 with
          | some (c, r3) => some (.for_ a b c, r3)
          | none => none
        | none => none
      | none => none
    else if tok.startsWith "S" then (tok.drop 1).toNat?.map fun n => (.leaf n, rest)
    else none

/-- The skeleton spelled as ONE template argument (the harness does the same). -/
def skArg : Sk → String
  | .leaf n => "\"" ++ hmLeaves.getD n "" ++ "\""
  | .map a f => "{@map " ++ skArg a ++ " " ++ skArg f ++ "}"
  | .filter a p => "{@filter " ++ skArg a ++ " " ++ skArg p ++ "}"
  | .reduce a f => "{@reduce " ++ skArg a ++ " " ++ skArg f ++ "}"
  | .for_ s c n => "{@for " ++ skArg s ++ " " ++ skArg c ++ " " ++ skArg n ++ "}"
  | .len a => "{@len " ++ skArg a ++ "}"

/-- A leaf as the compiler makes it from the argument text. -/
def leafStage (t : String) : Option Stage :=
  match compile Rare.Drv.Expr.registry false t.toList with
  | .ok (stages, []) => some (joinStages stages)
  | _ => none

def lenFn (v : Bytes) : Bytes :=
  match (lenStage (Stage.lit v)).run ⟨fun _ => [], fun _ => []⟩ with
  | .ok r => r
  | .error _ => []

def skTm : Sk → Option C17Heap.Tm
  | .leaf n => (leafStage (hmLeaves.getD n "")).map .scalar
  | .map a f => do let x ← skTm a; let y ← skTm f; pure (.map x y)
  | .filter a p => do let x ← skTm a; let y ← skTm p; pure (.filter x y)
  | .reduce a f => do let x ← skTm a; let y ← skTm f; pure (.reduce [] x y)
  | .for_ s c n => do let x ← skTm s; let y ← skTm c; let z ← skTm n; pure (.for_ x y z)
  | .len a => do let x ← skTm a; pure (.app1 lenFn x)

/-- Other goroutines at a scheduling point, by the clock: they overwrite every object this evaluation has not
    checked out, and in turn take an object from the pool / allocate one / leave the pool alone. -/
def envBusy (h : C17HeapI.HeapI) : C17HeapI.HeapI :=
  { h with
    objs := fun n => if h.mine n then h.objs n else ⟨.obj n, [33], [63]⟩,
    pool := if h.tick % 3 = 0 then h.pool.get.2
            else if h.tick % 3 = 1 then { h.pool with next := h.pool.next + 1 } else h.pool }

def heapm (size : Nat) (opt : String) (sk : Sk) (el ks : String) : String :=
  match skTm sk, decHexList el, decHexList ks with
  | some tm, some elems, some keys =>
    let ctx := Rare.Drv.Expr.mkCtx elems keys
    let h0 : C17Heap.Heap := ⟨C17Pool.Pool.new size, fun n => ⟨.obj n, [120], [121]⟩⟩
    match C17Heap.ev ctx (C17Heap.depth tm + 1) tm .root h0 with
    | .error m => Rare.Drv.Expr.panicAns m
    | .ok (v, h') =>
      let fresh := (List.range (h'.pool.next - h0.pool.next)).map (· + h0.pool.next)
      let want := (h0.pool.free ++ fresh).mergeSort
      if h'.pool.free.mergeSort ≠ want then "pool-leak"
      else if (match C17HeapI.evI envBusy ctx (C17Heap.depth tm + 1) tm .root
                  ⟨h0.pool, h0.objs, fun _ => false, 0⟩ with
               | .ok (vi, hi) => vi ≠ v || (List.range hi.pool.next).any hi.mine
               | .error _ => true) then "interleaved-disagree"
      else
        let viaModel := exprGuarded opt (Hex.enc (skArg sk).toUTF8.toList) el ks
        if valOf viaModel ≠ some v then s!"machine-model-disagree {viaModel}"
        else "ok " ++ Hex.enc v
  | _, _, _ => "bad-args"

def handle (args : List String) : String :=
  match args with
  | ["expr", o, t, el, ks] => exprGuarded o t el ks
  | ["heapm", size, o, skel, el, ks] =>
    let toks := skel.splitOn ","
    match size.toNat?, parseSk (toks.length + 1) toks with
    | some n, some (sk, []) => heapm n o sk el ks
    | _, _ => "bad-args"
  | ["pool", size, script] =>
    match size.toNat?, parseScript script with
    | some n, some evs =>
      let got := C17Pool.canon (C17Pool.runScript evs (C17Pool.Pool.new n) []) []
      if got.isEmpty then "ok ." else "ok " ++ ",".intercalate (got.map toString)
    | _, _ => "bad-args"
  | "overlap" :: o :: t :: _script :: ctxs =>
    match pairs ctxs with
    | some ps =>
      if ps.isEmpty then "bad-args" else
      let answers := ps.map fun (el, ks) => exprGuarded o t el ks
      match answers.find? (fun a => !(a.startsWith "ok ") && a ≠ "panic") with
      | some a => a
      | none => "ok " ++ " | ".intercalate answers
    | none => "bad-args"
  | ["splitter", s, d] =>
    match Hex.dec s, Hex.dec d with
    | some sb, some db =>
      match drain (sb.length + 3) { S := sb, Delim := db } [] with
      | some l => "ok " ++ hexList l
      | none => "hang"
    | _, _ => "bad-args"
  | ["mkarray", l] =>
    match decHexList l with
    | some xs =>
      if C17Extra.makeArray xs ≠ C17.pack xs then "model-spec-disagree" else "ok " ++ Hex.enc (C17Extra.makeArray xs)
    | none => "bad-args"
  | ["splitterok", s, d] =>
    match Hex.dec s, Hex.dec d with
    | some sb, some db =>
      match C17Extra.drainOk (sb.length + 3) { S := sb, Delim := db } [] with
      | some (l, sp') => s!"ok {hexList l} after={Hex.enc sp'.Next.1} done={sp'.Next.2.Done}"
      | none => "hang"
    | _, _ => "bad-args"
  | ["atoi", s] =>
    match Hex.dec s with
    | some sb =>
      if atoi sb ≠ specAtoi sb then "model-spec-disagree"
      else match atoi sb with
        | some v => s!"ok {v}"
        | none => "err"
    | none => "bad-args"
  | ["wf", o, t, el, ks] =>
    let a := exprGuarded o t el ks
    if a.startsWith "ok " then
      match valOf a with
      | some v => "ok " ++ listView v
      | none => "bad-answer"
    else a
  | "spec" :: rest => specHandle rest
  | ["conc", _, _, o, t, el, ks] => exprGuarded o t el ks
  | _ =>
    match Rare.Drv.Expr.handle args with
    | some a => a
    | none => "bad-op"

end Rare.Drv.C17
