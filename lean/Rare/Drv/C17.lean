import Rare.Drv.Expr
import Rare.Spec.C17Wf
import Rare.Spec.C17Wrap
import Rare.Spec.C17Atoi
/-!
Ops of C17 (besides the shared `expr` op):

  splitter <S hex> <Delim hex>                       drain the model of `stringSplitter.Splitter`
  conc <G> <rounds> <opt> <template> <elems> <keys>  the model is sequential and deterministic: same
                                                     answer as `expr` on the base context
  atoi <text hex>                                    `strconv.Atoi`: the model `Rare.atoi` AND the reading of
                                                     `atoi_iff` ([+-]?digits+, Horner value `decVal`, int64
                                                     range) computed separately; they must agree
  wf <opt> <template> <elems> <keys>                 the `expr` answer read as a list: number of elements,
                                                     separator census, `elems` of the value (specification
                                                     functions applied to the model's value; the harness
                                                     applies strings.Count/strings.Split to the real value)
  spec <helper> …                                    SPECIFICATION-level answers (no model of the Go code
                                                     involved: `Spec/C17.lean` functions only) against the
                                                     real helper:
       spec split <s> <d> | spec join <arr> <d> | spec len <arr> | spec select <arr> <i>
       spec slice <arr> <start> <len | -> | spec range <start> <stop> <incr> | spec in <v> <arr>
       spec reduce <arr> <reducer id> <init | - | e>  (`-`: no third argument, `e`: an explicit `""`) `C17.reduce` with the reducer as a Lean function (`redFn`; the
                                                      harness runs the template of the same id)
       (`spec select` / `spec slice` also evaluate the all-lists forms `selectW` / `sliceW` of
       `Spec/C17Wrap.lean` and answer `spec-disagree` unless they coincide with `select` / `pack ∘ slice`)
-/
namespace Rare.Drv.C17
open Rare Rare.Expr Rare.Proto Rare.Expr.Funcs.Range

/-- `for !sp.Done() { out = append(out, sp.Next()) }` with the harness' round limit. -/
def drain : Nat → Splitter → List Bytes → Option (List Bytes)
  | 0, _, _ => none
  | fuel + 1, sp, acc =>
    if sp.Done then some acc.reverse
    else let r := sp.Next; drain fuel r.2 (r.1 :: acc)

/-- The right-hand side of `C17.atoi_iff`, computed directly. -/
def specAtoi (s : Bytes) : Option Int :=
  let (neg, ds) : Bool × Bytes :=
    match s with
    | 43 :: r => (false, r)
    | 45 :: r => (true, r)
    | r => (false, r)
  if ds.isEmpty || !ds.all isDigitB then none
  else
    let v : Int := if neg then -(C17.decVal ds : Int) else (C17.decVal ds : Int)
    if minInt64 ≤ v ∧ v ≤ maxInt64 then some v else none

def valOf (ans : String) : Option Bytes :=
  match ans.splitOn " val=" with
  | [_, v] => Hex.dec v
  | _ => none

/-- An array value read as a list, with the separator census. -/
def listView (v : Bytes) : String :=
  s!"n={(C17.elems v).length} seps={v.count C17.NUL} elems={hexList (C17.elems v)}"

/-- A specified element list as the harness sees it (`strings.Split` of the value): `pack` and read back. -/
def specList (ys : List Bytes) : String := "ok " ++ listView (C17.pack ys)

/-- The reducers of `spec reduce`, as functions of accumulator and element (harness: `c17Reducers`). -/
def redFn (id : Nat) (a b : Bytes) : Bytes :=
  match id with
  | 0 => a ++ [45] ++ b                          -- "{0}-{1}"
  | 1 => b                                       -- {1}
  | 2 => a                                       -- {0}
  | 3 => if a = [120] then b else []             -- {if {eq {0} x} {1}}
  | 4 => if truthy b then a else []              -- {if {1} {0}}
  | 5 => b ++ a                                  -- "{1}{0}"
  | 6 => []                                      -- ""
  | 7 => if a ≠ [] then a else b                 -- {coalesce {0} {1}}
  | 8 => if a = b then [] else a ++ b            -- {if {neq {0} {1}} "{0}{1}"}
  | _ => if truthy a then [] else b              -- {unless {0} {1}}

def specHandle : List String → String
  | ["split", s, d] =>
    match Hex.dec s, Hex.dec d with
    | some sb, some db => if db.isEmpty then "bad-args" else specList (C17.splitOn db sb)
    | _, _ => "bad-args"
  | ["join", a, d] =>
    match Hex.dec a, Hex.dec d with
    | some ab, some db => "ok " ++ Hex.enc (C17.join db (C17.elems ab))
    | _, _ => "bad-args"
  | ["len", a] =>
    match Hex.dec a with
    | some ab => s!"ok {C17.len ab}"
    | none => "bad-args"
  | ["select", a, i] =>
    match Hex.dec a, i.toInt? with
    | some ab, some iv =>
      if C17.selectW (C17.elems ab) iv ≠ C17.select (C17.elems ab) iv then "spec-disagree"
      else "ok " ++ Hex.enc (C17.select (C17.elems ab) iv)
    | _, _ => "bad-args"
  | ["reduce", a, rid, ini] =>
    match Hex.dec a, rid.toNat?, (if ini = "-" || ini = "e" then some [] else Hex.dec ini) with
    | some ab, some id, some init => "ok " ++ Hex.enc (C17.reduce (redFn id) init (C17.elems ab))
    | _, _, _ => "bad-args"
  | ["slice", a, st, ln] =>
    match Hex.dec a, st.toInt?, (if ln = "-" then some (-1) else ln.toInt?) with
    | some ab, some sv, some lv =>
      if C17.sliceW (C17.elems ab) sv lv ≠ C17.pack (C17.slice (C17.elems ab) sv lv) then "spec-disagree"
      else specList (C17.slice (C17.elems ab) sv lv)
    | _, _, _ => "bad-args"
  | ["range", a, b, c] =>
    match a.toInt?, b.toInt?, c.toInt? with
    | some start, some stop, some incr =>
      if incr = 0 ∨ (incr > 0 ∧ start > stop) ∨ (incr < 0 ∧ start < stop) then "ok value"
      else if C17.rangeCount start stop incr > Gen.maxIterations then "ok inf"
      else specList ((C17.range start stop incr).map itoa)
    | _, _, _ => "bad-args"
  | ["in", v, a] =>
    match Hex.dec v, Hex.dec a with
    | some vb, some ab => if vb ∈ C17.elems ab then "ok 1" else "ok 0"
    | _, _ => "bad-args"
  | _ => "bad-op"

def handle (args : List String) : String :=
  match args with
  | ["splitter", s, d] =>
    match Hex.dec s, Hex.dec d with
    | some sb, some db =>
      match drain (sb.length + 3) { S := sb, Delim := db } [] with
      | some l => "ok " ++ hexList l
      | none => "hang"
    | _, _ => "bad-args"
  | ["atoi", s] =>
    match Hex.dec s with
    | some sb =>
      if atoi sb ≠ specAtoi sb then "model-spec-disagree"
      else match atoi sb with
        | some v => s!"ok {v}"
        | none => "err"
    | none => "bad-args"
  | ["wf", o, t, el, ks] =>
    match Rare.Drv.Expr.handle ["expr", o, t, el, ks] with
    | some a =>
      if a.startsWith "ok " then
        match valOf a with
        | some v => "ok " ++ listView v
        | none => "bad-answer"
      else a
    | none => "bad-op"
  | "spec" :: rest => specHandle rest
  | ["conc", _, _, o, t, el, ks] =>
    match Rare.Drv.Expr.handle ["expr", o, t, el, ks] with
    | some a => a
    | none => "bad-op"
  | _ =>
    match Rare.Drv.Expr.handle args with
    | some a => a
    | none => "bad-op"

end Rare.Drv.C17
