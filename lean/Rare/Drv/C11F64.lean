import Rare.Base.Proto
import Rare.Base.F64Str
/-!
Driver ops for the software binary64 model (`Rare/Base/F64*.lean`), see `harness/corr/c11f64.go`:

  f64 bin <a> <b> | f64 un <a> | f64 ofint <n> | f64 parse <hex text> | f64 fmt <a> <prec>

Every answer is computed by the software model.  For the operations Lean's native `Float` offers
(`+ - * / sqrt floor ceil round neg abs < ≤ ==`, `Float.ofInt`) the driver ALSO evaluates the
native operation on the same patterns and answers `model-vs-native …` when the two disagree, so a
bug in the model shows up even if Go happened to agree with it.  (`Float` occurs only here.)
-/
namespace Rare.Drv.C11F64
open Rare Rare.F64

def hexDigit (n : Nat) : Char := Hex.digit n

def hex16 (n : Nat) : String :=
  String.ofList ((List.range 16).map fun i => hexDigit (n / 16 ^ (15 - i) % 16))

def showF (x : F64) : String := if x.isNaN then "nan" else hex16 x.bits

def parseHex64 (s : String) : Option F64 :=
  if s.length != 16 then none
  else
    let r := s.toList.foldl (fun acc c => match acc, Hex.val c with
      | some a, some d => some (a * 16 + d)
      | _, _ => none) (some 0)
    r.map fun n => ofBits (UInt64.ofNat n)

def b01 (b : Bool) : String := if b then "1" else "0"

def native (x : F64) : Float := Float.ofBits x.toBits

/-- Does the model value agree with the native one (NaNs of any payload agree)? -/
def agree (m : F64) (n : Float) : Bool := if n.isNaN then m.isNaN else !m.isNaN && m.toBits == n.toBits

def checkAll (l : List (String × F64 × Float)) : Option String :=
  match l.find? (fun p => !agree p.2.1 p.2.2) with
  | some (name, m, n) => some s!"model-vs-native {name} model={showF m} native={hex16 n.toBits.toNat}"
  | none => none

def bin (a b : F64) : String :=
  let na := native a
  let nb := native b
  let r := [("add", add a b, na + nb), ("sub", sub a b, na - nb), ("mul", mul a b, na * nb), ("div", div a b, na / nb)]
  match checkAll r with
  | some e => e
  | none =>
    if lt a b != (na < nb) || le a b != (na ≤ nb) || F64.eq a b != (na == nb) then "model-vs-native cmp"
    else
      s!"ok add={showF (add a b)} sub={showF (sub a b)} mul={showF (mul a b)} div={showF (div a b)} lt={b01 (lt a b)} le={b01 (le a b)} eq={b01 (F64.eq a b)}"

def un (a : F64) : String :=
  let na := native a
  let r := [("sqrt", sqrt a, na.sqrt), ("floor", F64.floor a, na.floor), ("ceil", F64.ceil a, na.ceil),
            ("round", roundHalfAway a, na.round), ("neg", neg a, -na), ("abs", F64.abs a, na.abs)]
  match checkAll r with
  | some e => e
  | none =>
    s!"ok sqrt={showF (sqrt a)} floor={showF (F64.floor a)} ceil={showF (F64.ceil a)} trunc={showF (trunc a)} round={showF (roundHalfAway a)} neg={showF (neg a)} abs={showF (F64.abs a)} i64={toInt64 a} ifloor={toInt64 (F64.floor a)} iceil={toInt64 (F64.ceil a)}"

def ofint (n : Int) : String :=
  let m := ofInt n
  if !agree m (Float.ofInt n) then s!"model-vs-native ofint model={showF m}"
  else s!"ok bits={showF m}"

def handle : List String → Option String
  | ["f64", "bin", a, b] => some <|
    match parseHex64 a, parseHex64 b with
    | some x, some y => bin x y
    | _, _ => "bad-args"
  | ["f64", "un", a] => some <|
    match parseHex64 a with
    | some x => un x
    | none => "bad-args"
  | ["f64", "ofint", n] => some <|
    match Proto.int? n with
    | some v => ofint v
    | none => "bad-args"
  | ["f64", "parse", s] => some <|
    match Hex.dec s with
    | some b =>
      (match parseFloat b with
      | some x => s!"ok bits={showF x}"
      | none => "err")
    | none => "bad-args"
  | ["f64", "fmt", a, p] => some <|
    match parseHex64 a, Proto.int? p with
    | some x, some prec => s!"ok s={Hex.enc (format x prec)}"
    | _, _ => "bad-args"
  | _ => none

end Rare.Drv.C11F64
