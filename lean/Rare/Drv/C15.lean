import Rare.Base.Proto
namespace Rare.Drv.C15

def handle : List String → String
  | _ => "bad-op"

end Rare.Drv.C15
