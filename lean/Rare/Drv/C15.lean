import Rare.Base.Proto
import Rare.Model.C15
import Rare.Model.C15Trunc
import Rare.Model.C15Rename
import Rare.Model.C15Replace
import Rare.Model.C15Wiring
import Rare.Model.C15Open
import Rare.Model.C15Api
import Rare.Model.C15Tail
import Rare.Model.C15Trace
/-!
Driver of C15: `follow <notify|poll> <reopen> <tail> <history>` – the model's `expectedDelivered`;
`tailb <cfg/history/lens>` – the batches of `TailFilesToChan` (`Rare.C15.Tail.tailToChan` on that stream).

The history is executed on the transition systems of `Rare.Model.C15` with the schedule the harness
enforces on the real code: after every writer operation the kernel goroutine and the reader run
until nothing more can happen (reader blocked / one full quiet poll cycle), except inside a window
in which the consumer is parked outside `Read` (`H … r`, or `S … r` at the start), where only the
kernel goroutine runs.  Every function below performs transitions of the LTS only (`dispatch`,
`readSome` with the whole unread part, `readEmpty`, `recvW`, `recvD`, … / `statDiff`, `reopen`, …).
The notify run is repeated with the other resolutions of the two scheduling choices that remain
(which ready `select` case is taken; reader first or kernel goroutine first) and the driver answers
`schedule-dependent` if the delivered streams differ.
-/
namespace Rare.Drv.C15
open Rare Rare.Follow Rare.C15.Spec

/-! ### notify -/

def nAppend (s : NSt UInt8) (bs : Bytes) : NSt UInt8 :=
  match s.fs.path with
  | some i => if bs.isEmpty then s else { s with fs := s.fs.append i bs, evq := s.evq ++ [.write] }
  | none => s

def nRemove (s : NSt UInt8) : NSt UInt8 :=
  match s.fs.path with
  | some _ => { s with fs := s.fs.remove, evq := s.evq ++ [.remove], removes := s.removes + 1 }
  | none => s

def nCreate (s : NSt UInt8) : NSt UInt8 :=
  match s.fs.path with
  | some _ => s
  | none => { s with fs := s.fs.create, evq := s.evq ++ [.create] }

/-- `t<n>`: `truncate(path, n)` – the writer step of `NStepT` (a Write event); no-op unless the file is longer -/
def nTrunc (s : NSt UInt8) (n : Nat) : NSt UInt8 :=
  match s.fs.path with
  | some i => if n < (s.fs.content i).length then { s with fs := s.fs.truncate i n, evq := s.evq ++ [.write] } else s
  | none => s

/-- `m`: the file at the path is renamed away – the writer step of `NStepR` -/
def nRename (cfg : NCfg) (s : NSt UInt8) : NSt UInt8 :=
  match s.fs.path with
  | some _ => { s with fs := s.fs.remove, evq := s.evq ++ [renameEv cfg], removes := s.removes + 1 }
  | none => s

/-- `o<hex>`: a new file with this content is renamed onto the path – the writer step of `NStepO` (one Create event) -/
def nReplace (s : NSt UInt8) (bs : Bytes) : NSt UInt8 :=
  match s.fs.path with
  | some _ => { s with fs := s.fs.replace bs, evq := s.evq ++ [.create], removes := s.removes + 1 }
  | none => s

/-- one step of the kernel goroutine, if it has one -/
def nKernel (cfg : NCfg) (s : NSt UInt8) : Option (NSt UInt8) :=
  match s.evq with
  | e :: rest => some (dispatch1 cfg { s with evq := rest } e)
  | [] => none

/-- one step of the reader, if it is not blocked -/
def nReader (cfg : NCfg) (prefD : Bool) (s : NSt UInt8) : Option (NSt UInt8) :=
  match s.rd with
  | .ended => none
  | .reading =>
    match s.f with
    | none => some { s with rd := .selecting }
    | some h =>
      let u := unread s.fs h
      if u.isEmpty then some { s with rd := .selecting }
      else some { s with f := some { h with pos := h.pos + u.length }, delivered := s.delivered ++ u }
  | .selecting =>
    let takeD := 0 < s.pd && (prefD || s.pw == 0)
    if takeD then
      if cfg.reopen then some { reopenIfReplaced { s with pd := s.pd - 1 } with rd := .reading }
      else some { NSt.closeFile { s with pd := s.pd - 1 } with rd := .ended }
    else if 0 < s.pw then some { onWrite cfg { s with pw := s.pw - 1 } with rd := .reading }
    else none

def nSettle (cfg : NCfg) (prefD kernelFirst held : Bool) : Nat → NSt UInt8 → NSt UInt8
  | 0, s => s
  | fuel + 1, s =>
    let rdr := if held then none else nReader cfg prefD s
    let first := if kernelFirst then nKernel cfg s else rdr
    let second := if kernelFirst then rdr else nKernel cfg s
    match first with
    | some s' => nSettle cfg prefD kernelFirst held fuel s'
    | none =>
      match second with
      | some s' => nSettle cfg prefD kernelFirst held fuel s'
      | none => s

/-! ### poll -/

def pAppend (s : PSt UInt8) (bs : Bytes) : PSt UInt8 :=
  match s.fs.path with
  | some i => if bs.isEmpty then s else { s with fs := s.fs.append i bs }
  | none => s

def pRemove (s : PSt UInt8) : PSt UInt8 :=
  match s.fs.path with
  | some _ => { s with fs := s.fs.remove, removes := s.removes + 1 }
  | none => s

def pCreate (s : PSt UInt8) : PSt UInt8 :=
  match s.fs.path with
  | some _ => s
  | none => { s with fs := s.fs.create }

/-- `t<n>`: the writer step of `PStepT` -/
def pTrunc (s : PSt UInt8) (n : Nat) : PSt UInt8 :=
  match s.fs.path with
  | some i => if n < (s.fs.content i).length then { s with fs := s.fs.truncate i n } else s
  | none => s

/-- `o<hex>` for the poller: all it can see is the path – removal, creation and content in one step -/
def pReplace (s : PSt UInt8) (bs : Bytes) : PSt UInt8 :=
  match s.fs.path with
  | some _ => { s with fs := s.fs.replace bs, removes := s.removes + 1 }
  | none => s

/-- One call cycle of the polling reader starting at `attempt 0`: `some s'` if something happened
    (bytes delivered / file re-opened / EOF), `none` after a quiet cycle (the `ReadAttempts` empty
    reads and the `Stat` changed nothing but the attempt counter). -/
def pCycle (cfg : PCfg) (s : PSt UInt8) : Option (PSt UInt8) :=
  match s.rd with
  | .ended => none
  | _ =>
    let u := match s.f with | some h => unread s.fs h | none => []
    match s.f, u.isEmpty || cfg.attempts == 0 with
    | some h, false =>
      some { s with f := some { h with pos := h.pos + u.length }, readBytes := s.readBytes + u.length,
                    delivered := s.delivered ++ u, rd := .attempt 0 }
    | _, _ =>
      -- readEmpty × ReadAttempts, loopDone (or nilSleep), then the Stat
      if cfg.reopen then
        match s.fs.path with
        | none => none
        | some j =>
          let sz := (s.fs.content j).length
          if sz = s.readBytes then none
          else
            let s' := openStep { s with rd := .opening sz } sz
            if merges { s with rd := .opening sz } sz then none else some s'
      else
        match s.fs.path with
        | none => some { s with f := none, hist := s.pushOld, rd := .ended }
        | some _ => none

/-- `L`: the `Stat` that follows the poller's last sleep when an append landed in that sleep: the size
    differs from `readBytes`, so the re-open route is taken (`statDiff`, `reopen`: for the same, grown file
    `openStep` resumes at the offset – `merges`). -/
def pLateStat (cfg : PCfg) (s : PSt UInt8) : PSt UInt8 :=
  if cfg.reopen && s.rd != .ended then
    match s.fs.path with
    | some j =>
      let sz := (s.fs.content j).length
      if sz = s.readBytes then s else openStep { s with rd := .opening sz } sz
    | none => s
  else s

def pSettle (cfg : PCfg) : Nat → PSt UInt8 → PSt UInt8
  | 0, s => s
  | fuel + 1, s =>
    match pCycle cfg s with
    | some s' => pSettle cfg fuel s'
    | none => s

/-! ### histories -/

inductive Op
  | append (b : Bytes) | pause | drain | removeDrained | remove | create | hold (b : Bytes) | release | skip
  | lateAppend (b : Bytes)   -- `L`: release the consumer, then an append timed into the poller's last sleep
  | trunc (n : Nat)          -- `t<n>`: truncate the file at the path to `n` bytes, in place
  | rename                   -- `m`: rename the file at the path away
  | replace (b : Bytes)      -- `o<hex>`: a new file with this content is renamed onto the path
  deriving Repr

def parseOp (st : String) : Option Op :=
  match st.toList with
  | 'a' :: r => (Hex.dec (String.ofList r)).map .append
  | 'q' :: r => (Hex.dec (String.ofList r)).map .append
  | 't' :: r => (String.ofList r).toNat?.map .trunc
  | 'o' :: r => (Hex.dec (String.ofList r)).map .replace
  | 'H' :: r => (Hex.dec (String.ofList r)).map .hold
  | 'L' :: r => (Hex.dec (String.ofList r)).map .lateAppend
  | 'p' :: _ => some .pause
  | 'B' :: _ => some .skip
  | 'A' :: _ => some .skip
  | ['S'] => some .skip
  | ['w'] => some .drain
  | ['d'] => some .removeDrained
  | ['x'] => some .remove
  | ['m'] => some .rename
  | ['c'] => some .create
  | ['r'] => some .release
  | [] => some .skip
  | _ => none

structure Sim (σ : Type) where
  st : σ
  held : Bool

def runNotify (cfg : NCfg) (prefD kf : Bool) (s0 : NSt UInt8) (startHeld : Bool) (ops : List Op) : NSt UInt8 :=
  let fuel := 100000
  let settle := fun (held : Bool) (s : NSt UInt8) => nSettle cfg prefD kf held fuel s
  let fin := ops.foldl (fun (sim : Sim (NSt UInt8)) op =>
    match op with
    | .append b => { sim with st := settle sim.held (nAppend sim.st b) }
    | .remove | .removeDrained => { sim with st := settle sim.held (nRemove sim.st) }
    | .create => { sim with st := settle sim.held (nCreate sim.st) }
    | .trunc n => { sim with st := settle sim.held (nTrunc sim.st n) }
    | .rename => { sim with st := settle sim.held (nRename cfg sim.st) }
    | .replace b => { sim with st := settle sim.held (nReplace sim.st b) }
    | .hold b =>
      if sim.held || b.isEmpty || sim.st.fs.path.isNone then { sim with st := settle sim.held (nAppend sim.st b) }
      else
        -- the consumer delivers `b` and is then parked outside `Read`: reader state `reading`
        let s1 := settle false (nAppend sim.st b)
        { st := if s1.rd == .ended then s1 else { s1 with rd := .reading }, held := true }
    | .release => { st := settle false sim.st, held := false }
    | .lateAppend b => { st := settle false (nAppend (settle false sim.st) b), held := false }
    | .pause | .drain | .skip => { sim with st := settle sim.held sim.st })
    { st := settle startHeld s0, held := startHeld }
  settle false fin.st

def runPoll (cfg : PCfg) (s0 : PSt UInt8) (startHeld : Bool) (ops : List Op) : PSt UInt8 :=
  let fuel := 100000
  let settle := fun (held : Bool) (s : PSt UInt8) => if held then s else pSettle cfg fuel s
  let fin := ops.foldl (fun (sim : Sim (PSt UInt8)) op =>
    match op with
    | .append b => { sim with st := settle sim.held (pAppend sim.st b) }
    | .remove | .removeDrained => { sim with st := settle sim.held (pRemove sim.st) }
    | .create => { sim with st := settle sim.held (pCreate sim.st) }
    | .trunc n => { sim with st := settle sim.held (pTrunc sim.st n) }
    | .rename => { sim with st := settle sim.held (pRemove sim.st) }
    | .replace b => { sim with st := settle sim.held (pReplace sim.st b) }
    | .hold b =>
      if sim.held || b.isEmpty || sim.st.fs.path.isNone then { sim with st := settle sim.held (pAppend sim.st b) }
      else { st := settle false (pAppend sim.st b), held := true }
    | .release => { st := settle false sim.st, held := false }
    | .lateAppend b => { st := settle false (pLateStat cfg (pAppend (settle false sim.st) b)), held := false }
    | .pause | .drain | .skip => { sim with st := settle sim.held sim.st })
    { st := settle startHeld s0, held := startHeld }
  settle false fin.st

def answer (d : Bytes) (eof : Bool) : String :=
  s!"ok {Hex.enc d} eof={if eof then 1 else 0} drainerr=0"

/-! ### observation point (b): `tailb <cfg/history/lens>` (see harness/corr/c15tail.go)

The history is executed on the follow LTS as above (`expectedDelivered` and whether the follow reader ended by
itself); that stream goes through `Rare.C15.Tail.tailToChan` (the scanner of C04 inside the batching loop
with the batch slice as a heap object) under the flush-timer oracle given by the batch lengths that were
observed: "the timer had expired exactly at the last line of every observed batch".  `recv` is what the
model recorded at the moment of each send (`sentAt`), `late` what the batches read as in the final state. -/

def parseTailOp (st : String) : Option Op :=
  match st.toList with
  | 'a' :: r => (Hex.dec (String.ofList r)).map .append
  | 'Z' :: r => (Hex.dec (String.ofList r)).map fun b => .append (b ++ [nl])
  | 'p' :: _ => some .pause
  | ['w'] => some .drain
  | ['d'] => some .removeDrained
  | ['c'] => some .create
  | [] => some .skip
  | _ => none

def renderBatch (start : Nat) (lines : List Bytes) : String :=
  s!"{start}:{",".intercalate (lines.map Hex.enc)}"

def renderBatches (bs : List (Nat × List Bytes)) : String :=
  if bs.isEmpty then "." else "|".intercalate (bs.map fun b => renderBatch b.1 b.2)

/-- "the timer had expired when line `k` was appended" ⇔ an observed batch ended with line `k` -/
def timerOf (lens : List Nat) : Nat → Bool :=
  let ends := (lens.foldl (fun (acc : List Nat × Nat) l => (acc.1 ++ [acc.2 + l], acc.2 + l)) ([], 0)).1
  fun k => ends.contains (k + 1)

def tailb (blob : String) : String :=
  match blob.splitOn "/" with
  | [cfgS, histS, lensS] =>
    match cfgS.splitOn "." with
    | [via, mode, reopenS, tailS, batchS, _, _, _, _, attemptsS] =>
      let reopen := reopenS == "1"
      let tail := tailS == "1"
      let steps := histS.splitOn "_"
      let first := steps.headD ""
      let c0 : Option Bytes :=
        match first.toList with
        | 'i' :: r => Hex.dec (String.ofList r)
        | _ => none
      if first.startsWith "i" && c0.isNone then "bad-args initial" else
      if !(first.startsWith "i") && first != "n" then "bad-args initial" else
      match (steps.drop 1).mapM parseTailOp, batchS.toNat?, attemptsS.toNat?,
            (if lensS == "." then some [] else (lensS.splitOn "_").mapM String.toNat?) with
      | some ops, some batch, some attempts, some lens =>
        if c0.isNone && !reopen then
          (if via == "V" then "ok newerr" else "ok eof=1 errs=1 recv=. late=. read=-") else
        let outcome : Option (Bytes × Bool) :=
          if mode == "notify" then
            let run := fun (prefD kf : Bool) =>
              runNotify { capW := 1, capD := 1, reopen := reopen } prefD kf (ninit c0 tail) false ops
            let a := run true true
            let others := [run false true, run true false, run false false]
            if others.all fun o => o.delivered == a.delivered && (o.rd == .ended) == (a.rd == .ended) then
              some (a.delivered, a.rd == .ended)
            else none
          else if mode == "poll" then
            let s := runPoll { attempts := attempts, reopen := reopen } (pinit c0 tail) false ops
            some (s.delivered, s.rd == .ended)
          else none
        match outcome with
        | none => "schedule-dependent"
        | some (d, ended) =>
          let timer := timerOf lens
          let bufSize := 131072        -- batchers.ReadAheadBufferSize
          -- V: the harness ends the stream when everything was delivered; T: it ends only if the follow reader does
          let t := if via == "V" || ended then Rare.C15.Tail.tailToChan "f" bufSize batch timer d []
                   else Rare.C15.Tail.live "f" bufSize batch timer d []
          if t.status == .stuck then "model-stuck" else
          let recv := (t.b.out.zip t.sentAt).map fun x => (x.1.start, x.2)
          let late := t.batches.map fun x => (x.2.1, x.2.2)
          s!"ok eof={if ended then 1 else 0} errs=0 recv={renderBatches recv} late={renderBatches late} read={if via == "V" then Hex.enc d else "-"}"
      | _, _, _, _ => "bad-args"
    | _ => "bad-args cfg"
  | _ => "bad-args blob"


/-! ### trace inclusion: `ttrace <blob>` / `tmut<k> <blob>` (see harness/corr/c15trace.go)

blob = cfg/steps/trace.  cfg = via.mode.reopen.tail.batch.buffer.flushms.consumer.cdelay.attempts.files;
steps (joined by `_`) = `<f>i<hex>` | `<f>n` (initial state of file `f`), `<f>a<hex>`, `<f>d`, `<f>c`, `p<ms>`, `w`;
trace = `g.kind.src.a.b` joined by `_` (the event log of the real run, the harness being the consumer).
Per file the history is executed on the follow LTS (delivered stream, did the stream end); the logged short
flushes of that file are its timer oracle; `Rare.C15.Tail.tailToChan`/`live` give the follower's batches,
`Rare.C15.Trace.flushLog` the reason of every flush; then the log must be accepted by `Rare.C15.Trace.machine`. -/

open Rare.TraceOrder in
def parseEv (s : String) : Option TraceOrder.Ev :=
  match s.splitOn "." with
  | [g, k, src, a, b] => do
    let g ← g.toNat?
    let a ← a.toNat?
    let b ← b.toNat?
    if src = "x" then pure ⟨g, k, noSrc, a, b, []⟩
    else do
      let i ← src.toNat?
      pure ⟨g, k, i, a, b, []⟩
  | _ => none

def showEv (e : TraceOrder.Ev) : String :=
  s!"{e.g}.{e.kind}.{if e.src = TraceOrder.noSrc then "x" else toString e.src}.{e.a}.{e.b}"

/-- the follow LTS on one file's history: the delivered stream and whether the follow reader ended by itself -/
def followOutcome (mode : String) (reopen tail : Bool) (attempts : Nat) (c0 : Option Bytes) (ops : List Op) :
    Option (Bytes × Bool) :=
  if mode == "notify" then
    let run := fun (prefD kf : Bool) =>
      runNotify { capW := 1, capD := 1, reopen := reopen } prefD kf (ninit c0 tail) false ops
    let a := run true true
    let others := [run false true, run true false, run false false]
    if others.all fun o => o.delivered == a.delivered && (o.rd == .ended) == (a.rd == .ended) then
      some (a.delivered, a.rd == .ended)
    else none
  else if mode == "poll" then
    let s := runPoll { attempts := attempts, reopen := reopen } (pinit c0 tail) false ops
    some (s.delivered, s.rd == .ended)
  else none

/-- the steps of file `f`: initial content (`none` = absent) and its operations, in order -/
def fileSteps (steps : List String) (f : Nat) : Option (Option Bytes × List Op) :=
  let mine := steps.filterMap fun st =>
    match st.toList with
    | c :: r => if c.isDigit && c.toNat - 48 == f then some (String.ofList r) else none
    | [] => none
  match mine with
  | first :: rest =>
    let c0? : Option (Option Bytes) :=
      match first.toList with
      | 'i' :: r => (Hex.dec (String.ofList r)).map some
      | ['n'] => some none
      | _ => none
    match c0?, rest.mapM parseTailOp with
    | some c0, some ops => some (c0, ops)
    | _, _ => none
  | [] => none

def joinLines (ls : List Bytes) : Bytes := (ls.map fun l => l ++ [nl]).flatten

structure TraceCase where
  cfg : Rare.C15.Trace.Cfg
  evs : List TraceOrder.Ev
  fls : List (List (Bool × Nat × Nat))

/-- builds the model side of a trace case; `Except` carries the answer when the case ends early -/
def traceSetup (blob : String) : Except String TraceCase :=
  match blob.splitOn "/" with
  | [cfgS, histS, traceS] =>
    match cfgS.splitOn "." with
    | [via, mode, reopenS, tailS, batchS, bufferS, _, _, _, attemptsS, filesS] =>
      match batchS.toNat?, bufferS.toNat?, attemptsS.toNat?, filesS.toNat?,
            (if traceS == "." then some [] else (traceS.splitOn "_").mapM parseEv) with
      | some batch, some buffer, some attempts, some files, some evs =>
        let reopen := reopenS == "1"
        let tail := tailS == "1"
        let steps := histS.splitOn "_"
        match evs.find? fun e => !Rare.C15.Trace.kinds.contains e.kind with
        | some e => .error s!"rejected unknown event {showEv e}"
        | none =>
        let perFile : Option (List (Rare.C15.Multi.Follower × List Rare.C15.Trace.FlushEv × List (Bool × Nat × Nat))) :=
          (List.range files).mapM fun f =>
            match fileSteps steps f with
            | none => none
            | some (c0, ops) =>
              let fl := Rare.C15.Trace.loggedFlushes evs f
              if c0.isNone && !reopen then some (Rare.C15.Multi.failedFollower s!"f{f}", [], fl) else
              match followOutcome mode reopen tail attempts c0 ops with
              | none => none
              | some (d, ended) =>
                let ends := via == "V" || ended
                let timer := Rare.C15.Trace.timerOf batch fl
                let run : Rare.C15.Multi.FileRun := ⟨s!"f{f}", timer, d, [], ends⟩
                let nLines := if ends then (Rare.C04.splitLines d).length else Rare.C15.Tail.completeLines d
                some (run.follower 131072 batch,
                      Rare.C15.Trace.flushLog batch ((List.range nLines).map timer) ends, fl)
        match perFile with
        | none => .error "schedule-dependent-or-bad-history"
        | some pf =>
          let fs := pf.map (·.1)
          let logs := pf.map (·.2.1)
          -- the model's own two views of the loop must agree (flushLog vs tailToChan/live)
          if !(pf.all fun x => x.1.batches.map (fun b => (b.start, b.lines.length)) == x.2.1.map fun e => (e.start, e.n)) then
            .error "model-inconsistent flushLog vs tailToChan"
          else
            let ends := fs.all (·.ends)
            .ok { cfg := { fs := fs, flushes := logs, B := buffer, batch := batch, single := via == "V", ends := ends },
                  evs := evs, fls := pf.map (·.2.2) }
      | _, _, _, _, _ => .error "bad-args"
    | _ => .error "bad-args cfg"
  | _ => .error "bad-args blob"

def ttrace (blob : String) (damaged : Bool) : String :=
  match traceSetup blob with
  | .error a => if damaged && a.startsWith "rejected" then "rejected" else a
  | .ok tc =>
    let cfg := tc.cfg
    let bad := (List.range cfg.fs.length).find? fun i =>
      !Rare.C15.Trace.flushesAgree cfg.batch (cfg.flushes.getD i []) (tc.fls.getD i [])
    match bad with
    | some i =>
      if damaged then "rejected" else
      let m := (cfg.flushes.getD i []).map fun e => s!"{repr e.reason}:{e.start}:{e.n}"
      let l := (tc.fls.getD i []).map fun x => s!"{if x.1 then "fe" else "fl"}:{x.2.1}:{x.2.2}"
      s!"rejected flushes src={i} model={m} log={l}"
    | none =>
    let tr := tc.evs.toArray
    match TraceOrder.verdict (Rare.C15.Trace.machine cfg) (Rare.C15.Trace.lin tc.evs) (Rare.C15.Trace.initSt cfg) tr with
    | .accepted ps _ =>
      if damaged then "accepted-damaged-log" else
      let s := ps.lts
      let order := ",".intercalate (s.recvd.map fun x => s!"{x.1}:{x.2.start}:{x.2.lines.length}")
      let ds := (List.range cfg.fs.length).map fun i =>
        s!"d{i}={Hex.enc (joinLines ((Rare.C15.Multi.ofSource s.recvd i).flatMap (·.lines)))}"
      s!"ok closed={if s.closed then 1 else 0} errs={ps.errs} order={if order.isEmpty then "." else order} {" ".intercalate ds}"
    | .rejected deepest stuck exhausted =>
      if damaged then "rejected" else
      let st := " ".intercalate (stuck.map fun p => s!"{p}:{showEv (TraceOrder.evAt tr p)}")
      s!"rejected after={deepest}/{tr.size} exhaustive={exhausted} frontier={st}"

/-! ### the wiring (`Rare.C15.Wiring`): `new <reopen> <poll> <exists>`, `cli <flag>+<flag>+…` -/

def bit (b : Bool) : String := if b then "1" else "0"

def newAnswer (reopen poll exists_ : Bool) : String :=
  if Rare.C15.Wiring.newFails exists_ reopen then "ok err" else
  match Rare.C15.Wiring.newReader reopen poll with
  | (.notify, r) => s!"ok kind=notify reopen={bit r}"
  | (.poll, r) => s!"ok kind=poll reopen={bit r} attempts={Rare.C15.Wiring.defaultAttempts} delayms={Rare.C15.Wiring.defaultDelayMs}"

/-! ### the goroutine prologue (`Rare.C15.Open`): `prologue <mode> <reopen> <tail> <state> <content lines> <extra lines>` -/

def splitNl (bs : List UInt8) : List (List UInt8) :=
  let r := bs.foldl (fun (acc : List (List UInt8) × List UInt8) b =>
    if b == 10 then (acc.1 ++ [acc.2], []) else (acc.1, acc.2 ++ [b])) ([], [])
  r.1

def prologueAnswer (mode reopenS tailS stateS contentS extraS : String) : String :=
  match Rare.C15.Open.parseState stateS, Proto.decHexList contentS, Proto.decHexList extraS with
  | some st, some content, some extra =>
    let w : Rare.C15.Wiring.Follow :=
      { kind := if mode == "poll" then .poll else .notify, reopen := reopenS == "1", tail := tailS == "1" }
    let nl (ls : List (List UInt8)) : List UInt8 := ls.flatMap fun l => l ++ [10]
    let cb := nl content
    let fo := Rare.C15.Open.following w st cb.length
    let lines := splitNl (Rare.C15.Open.delivers w st cb (nl extra))
    s!"ok closed={bit (!fo)} errors={Rare.C15.Open.totalErrors w st cb.length} following={bit fo} lines={Proto.hexList lines}"
  | _, _, _ => "bad-args"

def cliAnswer (spec : String) : String :=
  let toks := if spec == "-" then [] else spec.splitOn "+"
  match Rare.C15.Wiring.parseFlags toks with
  | none => "bad-args"
  | some fl =>
    match Rare.C15.Wiring.plan fl with
    | .usage => "ok usage"
    | .files => "ok files"
    | .follow w =>
      let k := match w.kind with | .notify => "notify" | .poll => "poll"
      s!"ok follow kind={k} reopen={bit w.reopen} tail={bit w.tail}"

/-! ### `api <notify|poll> <reopen> <content> <calls>`: Read / Drain / Close / append from one goroutine -/

def parseCall (st : String) : Option Rare.C15.Api.Call :=
  match st.toList with
  | 'R' :: r => (String.ofList r).toNat?.map .read
  | 'A' :: r => (Hex.dec (String.ofList r)).map .append
  | ['D'] => some .drain
  | ['C'] => some .close
  | _ => none

def showRes : Rare.C15.Api.Res → String
  | .bytes b => "r" ++ Hex.enc b
  | .eof => "eof"
  | .block => "block"
  | .ok => "ok"

def apiAnswer (content calls : String) : String :=
  match Hex.dec content, (calls.splitOn ",").mapM parseCall with
  | some c, some cs =>
    let (s, rs) := Rare.C15.Api.run (Rare.C15.Api.init c) cs
    s!"ok {",".intercalate (rs.map showRes)} delivered={s.delivered.length}"
  | _, _ => "bad-args"

/-- `follow` (the LTS of the code as it is) / `followspec` (an atomic replace counts as removal + re-creation:
    what the property asks of re-open follow; since the `fix:` commit f4a9570 the two agree for -F – before it
    the difference was the known finding of `known_findings/C15.json`) -/
def followAnswer (spec : Bool) (mode reopenS tailS hist : String) : String :=
  let reopen := reopenS == "1"
  let tail := tailS == "1"
  let steps := hist.splitOn ","
  let first := steps.headD ""
  let c0 : Option Bytes :=
    match first.toList with
    | 'i' :: r => Hex.dec (String.ofList r)
    | _ => none
  let rest := match first.toList with
    | 'i' :: _ => steps.drop 1
    | ['n'] => steps.drop 1
    | _ => steps
  if first.startsWith "i" && c0.isNone then "bad-args" else
  match rest.mapM parseOp with
  | none => "bad-args"
  | some ops0 =>
    -- `followspec`: a replace is what the property calls removal + re-creation (+ the content)
    let ops := if spec then ops0.flatMap (fun o => match o with | .replace b => [Op.remove, .create, .append b] | o => [o]) else ops0
    if c0.isNone && !reopen then "ok - eof=0 drainerr=0 newerr=1" else
    let startHeld := steps.contains "S"
    let attempts := (steps.filterMap fun st => if st.startsWith "A" then (st.drop 1).toNat? else none).getLastD 2
    if mode == "notify" then
      let run := fun (prefD kf : Bool) =>
        runNotify { capW := 1, capD := 1, reopen := reopen } prefD kf (ninit c0 tail) startHeld ops
      let a := run true true
      let others := [run false true, run true false, run false false]
      if others.all fun o => o.delivered == a.delivered && (o.rd == .ended) == (a.rd == .ended) then
        answer a.delivered (a.rd == .ended)
      else "schedule-dependent"
    else if mode == "poll" then
      let s := runPoll { attempts := attempts, reopen := reopen } (pinit c0 tail) startHeld ops
      answer s.delivered (s.rd == .ended)
    else "bad-args"

def handle : List String → String
  | ["api", _, _, content, calls] => apiAnswer content calls
  | ["new", r, p, e] => newAnswer (r == "1") (p == "1") (e == "1")
  | ["cli", spec] => cliAnswer spec
  | ["prologue", mode, r, t, st, content, extra] => prologueAnswer mode r t st content extra
  | ["tailb", blob] => tailb blob
  | ["ttrace", blob] => ttrace blob false
  | ["tmut", blob] => ttrace blob true
  | ["follow", mode, reopenS, tailS, hist] => followAnswer false mode reopenS tailS hist
  | ["followspec", mode, reopenS, tailS, hist] => followAnswer true mode reopenS tailS hist
  | _ => "bad-op"

end Rare.Drv.C15
