import Rare.Base.Proto
import Rare.Model.C18
import Rare.Model.C18Zone
/-!
Line-protocol ops of C18 (fields after the property id).  `argc` is the number of arguments the
template passes; fields beyond it are ignored (defaults apply).  `zok` = `time.LoadLocation(zone)`
succeeds on the host (oracle).  `off` / `abbr` = what Go reports for the zone at the instant.

    fmt    <argc> <fmt> <zone> <zok> <arg> <off> <abbr>        {timeformat <arg> <fmt> <zone>}
    attr   <argc> <attr> <zone> <zok> <arg> <off>              {timeattr <arg> <attr> <zone>}
    time   <argc> <fmt> <zone> <zok> <str> <off> <abbr>        {time <str> <fmt> <zone>}
    bucket <argc> <bucket> <fmt> <zone> <zok> <str> <abbr>     {buckettime <str> <bucket> <fmt> <zone>}
    seq    <kind> <fmt> <zone> <zok> <strs> <detect> <dok> <offs> <abbrs> <auto> <aok> <bucket>
           one compiled `{time …}` / `{buckettime …}` stage with format ""/cache/auto evaluated on
           the strings in order; detect/dok = dateparse.ParseFormat per string, auto/aok =
           dateparse.ParseIn per string (oracles), offs/abbrs = the zone at the returned instant
    dur    <arg>                                               {duration <arg>}
    frac   <f> <unit> <k>                                      uint64(float64(f) * (float64(unit) / 10^k)) – the binary64 term of a fraction in ParseDuration
    durf   <arg>                                               {durationformat <arg>}
    cal    <days>                                              reference calendar only
    seqe   <prefix> <kind> … (the fields of seq)              the date stage is `"<prefix>{0}"`: `<prefix>` is what it
           yields without input (`emptyTime`); <strs> are the full texts; cache modes only
    seqpar <prefix> <kind> … (the fields of seq)              as seqe, the real stage evaluated from 8 goroutines
    kw     <word>                                              {time <word>}: key-word detection (now / live / delta)
    cc     <fn> <argc> <const1> <enumok> <zoneok>              compile-time checks of the helpers (argument count, constant
           bucket / attribute name, enum, zone), `<const1>` = 1 when the second argument is a constant
    zone   <zone> <table> at <unix>                            Location.lookup on a transition table
    zone   <zone> <table> date <wall>                          the zone resolution of time.Date
    ztime  <fmt> <zone> <str> <table>                          {time <str> <fmt> <zone>}, the zone given as a
           table `<off>:<abbr>,<from>:<off>:<abbr>,…` (real transitions around the instant): no oracle
    zh     <fn> <a1> <zone> <table> <args>                     ONE compiled `{timeattr {0} <a1> <zone>}` (fn = attr), `{timeformat {0} <a1> <zone>}`
           (fmt) or `{time {0} <a1> <zone>}` (time, explicit format) evaluated on the HISTORY <args> in order; the model answers
           each argument on its own from the table (no oracle, no memory)
    zn     <fmt> <zone> <table> <zones> <strs>                 `{time {0} <fmt> <zone>}` (explicit format) on the texts <strs>, the location given as
           table + zone list `<name>:<off>,…` (`l.zone` of the real location, file order): abbreviations in the text
           go through the model of `Location.lookupName`; total, no oracle
-/
namespace Rare.Drv.C18
open Rare Rare.C18 Rare.Proto

def isAscii (b : Bytes) : Bool := b.all (· < 128)

def render (errs : String) : Out → String
  | .val b => s!"ok errs={errs} val={Hex.enc b}"
  | .unmodelled why => s!"unmodelled {why}"

def compileErr (kind : String) (marker : String) : String := s!"ok errs={kind} val={Hex.enc (asc marker)}"

def ints (s : String) : Option (List Int) :=
  if s = "." then some [] else (s.splitOn ",").mapM String.toInt?

def flags (s : String) : List Bool := if s = "." then [] else s.toList.map (· == '1')

/-- `f` of the parse stages. -/
def parseOut (kind : String) (bucketLayout : Bytes) (loc : Loc) (off : Int) (abbr : Bytes) (p : Parsed) : Out :=
  if kind = "bucket" then bucketOut bucketLayout (zoneAt loc off abbr).2 p else unixOut loc off abbr p

/-- sequential evaluation of one `cache` stage -/
def runCache (kind : String) (bl : Bytes) (loc : Loc) :
    Bytes → List (Bytes × Option Bytes × Int × Bytes) → List Out
  | _, [] => []
  | st, (str, det, off, abbr) :: r =>
    let (o, st') := cacheStep st str det (parseOut kind bl loc off abbr)
    o :: runCache kind bl loc st' r

def zipSeq : List Bytes → List Bytes → List Bool → List Int → List Bytes → List (Bytes × Option Bytes × Int × Bytes)
  | s :: ss, d :: ds, k :: ks, o :: os, a :: as => (s, (if k then some d else none), o, a) :: zipSeq ss ds ks os as
  | _, _, _, _, _ => []

def zipSeqF (kind : String) (bl : Bytes) (loc : Loc) :
    List Bytes → List Bytes → List Bool → List Int → List Bytes → List (Bytes × Option Bytes × (Parsed → Out))
  | s :: ss, d :: ds, k :: ks, o :: os, a :: as =>
    (s, (if k then some d else none), parseOut kind bl loc o a) :: zipSeqF kind bl loc ss ds ks os as
  | _, _, _, _, _ => []

def renderSeq (outs : List Out) : String :=
  match outs.find? (fun o => match o with | .unmodelled _ => true | _ => false) with
  | some (.unmodelled w) => s!"unmodelled {w}"
  | _ => "ok errs=. val=" ++ hexList (outs.map fun o => match o with | .val b => b | _ => [])

def parseTab (s : String) : Option ZoneTab :=
  match s.splitOn "," with
  | [] => none
  | i :: rest =>
    match i.splitOn ":" with
    | [o, a] =>
      match o.toInt?, Hex.dec a with
      | some o, some a =>
        let tr := rest.mapM fun e =>
          match e.splitOn ":" with
          | [t, o, a] =>
            match t.toInt?, o.toInt?, Hex.dec a with
            | some t, some o, some a => some (t, o, a)
            | _, _, _ => none
          | _ => none
        match tr with
        | some tr => some ⟨(o, a), tr⟩
        | none => none
      | _, _ => none
    | _ => none

def parseZones (s : String) : Option (List (Bytes × Int)) :=
  if s = "." then some []
  else (s.splitOn ",").mapM fun e =>
    match e.splitOn ":" with
    | [n, o] =>
      match Hex.dec n, o.toInt? with
      | some n, some o => some (n, o)
      | _, _ => none
    | _ => none

def handle : List String → String
  | ["fmt", argc, fmt, zone, zok, arg, off, abbr] =>
    match argc.toNat?, Hex.dec fmt, Hex.dec zone, Hex.dec arg, off.toInt?, Hex.dec abbr with
    | some n, some fmt, some zone, some arg, some off, some abbr =>
      if !(isAscii fmt && isAscii zone) then "unmodelled non-ascii"
      else if n = 0 then "ok errs=. val=-" -- `{name}` is a key look-up, not a call
      else if n < 1 ∨ n > 3 then compileErr "func.argcount" "<ARGN>"
      else
        let fmt := if n ≥ 2 then fmt else rfc3339
        let zone := if n ≥ 3 then zone else []
        let layout := namedTimeFormatToFormat timeFormats fmt
        let (loc, ok) := parseTimezoneLocation zone (zok = "1")
        if !ok then compileErr "func.parsing" "<PARSE-ERROR>"
        else render "." (timeFormatStage layout loc arg off abbr)
    | _, _, _, _, _, _ => "bad-args"
  | ["attr", argc, attr, zone, zok, arg, off] =>
    match argc.toNat?, Hex.dec attr, Hex.dec zone, Hex.dec arg, off.toInt? with
    | some n, some attr, some zone, some arg, some off =>
      if !(isAscii attr && isAscii zone) then "unmodelled non-ascii"
      else if n = 0 then "ok errs=. val=-" -- `{name}` is a key look-up, not a call
      else if n < 2 ∨ n > 3 then compileErr "func.argcount" "<ARGN>"
      else
        let zone := if n ≥ 3 then zone else []
        let (loc, ok) := parseTimezoneLocation zone (zok = "1")
        if !ok then compileErr "func.parsing" "<PARSE-ERROR>"
        else if !attrKeys.contains (toUpper attr) then compileErr "func.enum" "<ENUM>"
        else render "." (timeAttrStage attr loc arg off)
    | _, _, _, _, _ => "bad-args"
  | ["time", argc, fmt, zone, zok, str, off, abbr] =>
    match argc.toNat?, Hex.dec fmt, Hex.dec zone, Hex.dec str, off.toInt?, Hex.dec abbr with
    | some n, some fmt, some zone, some str, some off, some abbr =>
      if !(isAscii fmt && isAscii zone) then "unmodelled non-ascii"
      else if n = 0 then "ok errs=. val=-" -- `{name}` is a key look-up, not a call
      else if n < 1 ∨ n > 3 then compileErr "func.argcount" "<ARGN>"
      else
        let fmt := if n ≥ 2 then fmt else []
        let zone := if n ≥ 3 then zone else []
        let (loc, ok) := parseTimezoneLocation zone (zok = "1")
        if !ok then compileErr "func.parsing" "<PARSE-ERROR>"
        else match modeOf timeFormats fmt with
          | .explicit layout => render "." (parseThen layout str (unixOut loc off abbr))
          | _ => "unmodelled needs-seq-op"
    | _, _, _, _, _, _ => "bad-args"
  | ["bucket", argc, bucket, fmt, zone, zok, str, abbr] =>
    match argc.toNat?, Hex.dec bucket, Hex.dec fmt, Hex.dec zone, Hex.dec str, Hex.dec abbr with
    | some n, some bucket, some fmt, some zone, some str, some abbr =>
      if !(isAscii fmt && isAscii zone && isAscii bucket) then "unmodelled non-ascii"
      else if n = 0 then "ok errs=. val=-" -- `{name}` is a key look-up, not a call
      else if n < 2 ∨ n > 4 then compileErr "func.argcount" "<ARGN>"
      else
        let fmt := if n ≥ 3 then fmt else []
        let zone := if n ≥ 4 then zone else []
        let bl := timeBucketToFormat bucketTable bucket
        if bl = [] then compileErr "func.enum" "<ENUM>"
        else
          let (loc, ok) := parseTimezoneLocation zone (zok = "1")
          if !ok then compileErr "func.parsing" "<PARSE-ERROR>"
          else match modeOf timeFormats fmt with
            | .explicit layout => render "." (parseThen layout str (bucketOut bl (zoneAt loc 0 abbr).2))
            | _ => "unmodelled needs-seq-op"
    | _, _, _, _, _, _ => "bad-args"
  | ["seq", kind, fmt, zone, zok, strs, detect, dok, offs, abbrs, auto, aok, bucket] =>
    match Hex.dec fmt, Hex.dec zone, decHexList strs, decHexList detect, ints offs, decHexList abbrs, ints auto, Hex.dec bucket with
    | some fmt, some zone, some strs, some detect, some offs, some abbrs, some auto, some bucket =>
      if !(isAscii fmt && isAscii zone) then "unmodelled non-ascii"
      else
        let (loc, ok) := parseTimezoneLocation zone (zok = "1")
        let bl := timeBucketToFormat bucketTable bucket
        if !ok then compileErr "func.parsing" "<PARSE-ERROR>"
        else match modeOf timeFormats fmt with
          | .cache => renderSeq (cacheRun [] [] (zipSeqF kind bl loc strs detect (flags dok) offs abbrs))
          | .auto =>
            -- `dateparse.ParseIn` is the oracle: its instant goes through `f` unchanged
            if kind = "bucket" then "unmodelled auto-bucket"
            else renderSeq ((auto.zip (flags aok)).map fun (u, k) => if k then Out.val (itoa u) else Out.val errorParsing)
          | .explicit _ => "bad-args"
    | _, _, _, _, _, _, _, _ => "bad-args"
  | [op, pre, kind, fmt, zone, zok, strs, detect, dok, offs, abbrs, _, _, bucket] =>
    if op ≠ "seqe" ∧ op ≠ "seqpar" then "bad-op"
    else match Hex.dec pre, Hex.dec fmt, Hex.dec zone, decHexList strs, decHexList detect, ints offs, decHexList abbrs, Hex.dec bucket with
    | some pre, some fmt, some zone, some strs, some detect, some offs, some abbrs, some bucket =>
      if !(isAscii fmt && isAscii zone) then "unmodelled non-ascii"
      else
        let (loc, ok) := parseTimezoneLocation zone (zok = "1")
        let bl := timeBucketToFormat bucketTable bucket
        if !ok then compileErr "func.parsing" "<PARSE-ERROR>"
        else match modeOf timeFormats fmt with
          | .cache => renderSeq (cacheRun pre [] (zipSeqF kind bl loc strs detect (flags dok) offs abbrs))
          | _ => "bad-args"
    | _, _, _, _, _, _, _, _ => "bad-args"
  | ["kw", word] =>
    match Hex.dec word with
    | some w =>
      match timeKeyword w with
      | some .now => "ok kw=now"
      | some .live => "ok kw=live"
      | some .delta => "ok kw=delta"
      | none => "ok kw=none"
    | none => "bad-args"
  | ["cc", fn, argc, c1, eok, zok] =>
    match argc.toNat? with
    | some n =>
      if n = 0 then "ok errs=. val=-"
      else
        let zonePos := if fn = "buckettime" then 4 else 3
        match compileCheck fn n (fun i => if i = 1 then c1 = "1" else true) (eok = "1") (zok = "1" || n < zonePos) with
        | some (kind, marker) => compileErr kind marker
        | none => "ok built"
    | none => "bad-args"
  | ["dur", arg] =>
    match Hex.dec arg with
    | some arg => render "." (duration arg)
    | none => "bad-args"
  | ["frac", f, unit, k] =>
    match f.toNat?, unit.toNat?, k.toNat? with
    | some f, some unit, some k => s!"ok {fracTerm f unit k}"
    | _, _, _ => "bad-args"
  | ["durf", arg] =>
    match Hex.dec arg with
    | some arg => render "." (durationFormat arg)
    | none => "bad-args"
  | ["cal", days] =>
    match days.toInt? with
    | some z =>
      let c := civilFromDays z
      let w := isoYearWeek z
      s!"ok {c.y} {c.m} {c.d} wd={weekday z} yd={yearDay z + 1} iso={w.1}-{w.2} q={quarter c.m} back={daysFromCivil c.y c.m c.d}"
    | none => "bad-args"
  | ["zone", _, tab, kind, n] =>
    match parseTab tab, n.toInt? with
    | some z, some n =>
      if !sortedTrans z.trans then "bad-args"
      else if kind = "at" then
        let s := z.lookup n
        s!"ok off={s.off} abbr={Hex.enc s.abbr}"
      else if kind = "date" then s!"ok unix={dateIn z n}"
      else "bad-args"
    | _, _ => "bad-args"
  | ["ztime", fmt, _, str, tab] =>
    match Hex.dec fmt, Hex.dec str, parseTab tab with
    | some fmt, some str, some z =>
      if !isAscii fmt then "unmodelled non-ascii"
      else match modeOf timeFormats fmt with
        | .explicit layout =>
          render "." (parseThen layout str fun p =>
            match instantIn z p with
            | some u => .val (itoa u)
            | none => .unmodelled "zone-abbreviation")
        | _ => "unmodelled needs-seq-op"
    | _, _, _ => "bad-args"
  | ["zh", fn, a1, _, tab, args] =>
    match Hex.dec a1, parseTab tab, decHexList args with
    | some a1, some z, some args =>
      if !isAscii a1 then "unmodelled non-ascii"
      else if !sortedTrans z.trans then "bad-args"
      else if fn = "attr" then
        if !attrKeys.contains (toUpper a1) then compileErr "func.enum" "<ENUM>"
        else renderSeq ((timeAttrM z a1).run () args)
      else if fn = "fmt" then
        renderSeq ((timeFormatM z (namedTimeFormatToFormat timeFormats a1)).run () args)
      else if fn = "time" then
        match modeOf timeFormats a1 with
        | .explicit layout =>
          renderSeq (args.map fun str => parseThen layout str fun p =>
            match instantIn z p with
            | some u => .val (itoa u)
            | none => .unmodelled "zone-abbreviation")
        | _ => "unmodelled needs-seq-op"
      else "bad-args"
    | _, _, _ => "bad-args"
  | ["zn", fmt, _, tab, zones, strs] =>
    match Hex.dec fmt, parseTab tab, parseZones zones, decHexList strs with
    | some fmt, some z, some zones, some strs =>
      if !isAscii fmt then "unmodelled non-ascii"
      else if !sortedTrans z.trans then "bad-args"
      else match modeOf timeFormats fmt with
        | .explicit layout =>
          renderSeq (strs.map fun str => parseThen layout str fun p => .val (itoa (instantInN z zones p)))
        | _ => "unmodelled needs-seq-op"
    | _, _, _, _ => "bad-args"
  | _ => "bad-op"

end Rare.Drv.C18
