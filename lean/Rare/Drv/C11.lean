import Rare.Drv.Expr
import Rare.Drv.C11F64
import Rare.Drv.C08Fmt
import Rare.Spec.C11Hf
import Rare.Drv.C11R4
import Rare.Drv.C11Log
/-!
C11 ops: the shared `expr` op, plus

  lookupfile <lookup|haskey> <key hex> <content hex> <prefix hex | .>

which evaluates `{lookup {0} {load FILE} [prefix]}` with FILE holding `content` (the table text
reaches the builder as a constant without passing through the template syntax, so it can hold
arbitrary bytes and be as large as `bufio.Scanner`'s limits).  Answer: `ok val=<hex>`.

  f64 …   the software binary64 model against the hardware, see `Rare/Drv/C11F64.lean`.

  fmt <format hex> <operands hexlist>    `{format …}` = `fmt.Sprintf` on string operands (`Rare/Drv/C08Fmt.lean`)

  case / path / rt64 / expr with the full `upper` / `lower`: round-4 ops, see `Rare/Drv/C11R4.lean`

  lg / pw / spec ln|log10: round-4b ops, see `Rare/Drv/C11Log.lean`

  spec hf <value hex>     `{hf value}` against the SPECIFICATION (not the model of the code): the rendering keeps
                          the sign, so `-Inf` must print `-Inf`.  The code prints `Inf` (known finding, see
                          `hf_neg_inf_counterexample`); for every other value the specification's answer is the
                          model's (`hf_sign_partial`).
-/
namespace Rare.Drv.C11
open Rare Rare.Expr Rare.Proto

def lookupFile (fn : String) (key content : Bytes) (pre : Option Bytes) : String :=
  let b : Builder := if fn == "haskey" then Funcs.Misc.kfHasKey else Funcs.Misc.kfLookupKey
  let args : List Stage := [Comp.match_ 0, Stage.lit content] ++ (match pre with
    | some p => [Stage.lit p]
    | none => [])
  match b args with
  | .error m => Rare.Drv.Expr.panicAns m
  | .ok built =>
    match built.stage with
    | none => "ok val=-"
    | some st =>
      match st.run { getMatch := fun i => if i = 0 then key else [], getKey := fun _ => [] } with
      | .error m => Rare.Drv.Expr.panicAns m
      | .ok v => s!"ok val={Hex.enc v}"

/-- `{hf v}` as specified: sign-faithful. -/
def specHf (v : Bytes) : String :=
  match Funcs.Float.parseF v with
  | none => s!"ok val={Hex.enc ErrorNum}"
  | some x => s!"ok val={Hex.enc (if x.isInf then Spec.hfInfSpec x.sign else Funcs.Float.hfStr x)}"

def handle (args : List String) : String :=
  match args with
  | ["spec", "hf", v] =>
    (match Hex.dec v with
    | some b => specHf b
    | none => "bad-args")
  | ["lookupfile", fn, k, c, p] =>
    (match Hex.dec k, Hex.dec c, (if p == "." then some none else (Hex.dec p).map some) with
    | some key, some content, some pre => lookupFile fn key content pre
    | _, _, _ => "bad-args")
  | _ =>
    match Rare.Drv.C11Log.handle args with
    | some a => a
    | none =>
    match Rare.Drv.C11R4.handle args with
    | some a => a
    | none =>
    match Rare.Drv.C11F64.handle args with
    | some a => a
    | none =>
      match Rare.Drv.C08Fmt.handle args with
      | some a => a
      | none =>
        match Rare.Drv.Expr.handle args with
        | some a => a
        | none => "bad-op"

end Rare.Drv.C11
