import Rare.Drv.Expr
import Rare.Drv.C11F64
/-!
C11 ops: the shared `expr` op, plus

  lookupfile <lookup|haskey> <key hex> <content hex> <prefix hex | .>

which evaluates `{lookup {0} {load FILE} [prefix]}` with FILE holding `content` (the table text
reaches the builder as a constant without passing through the template syntax, so it can hold
arbitrary bytes and be as large as `bufio.Scanner`'s limits).  Answer: `ok val=<hex>`.

  f64 …   the software binary64 model against the hardware, see `Rare/Drv/C11F64.lean`.
-/
namespace Rare.Drv.C11
open Rare Rare.Expr Rare.Proto

def lookupFile (fn : String) (key content : Bytes) (pre : Option Bytes) : String :=
  let b : Builder := if fn == "haskey" then Funcs.Misc.kfHasKey else Funcs.Misc.kfLookupKey
  let args : List Stage := [Comp.match_ 0, Stage.lit content] ++ (match pre with
    | some p => [Stage.lit p]
    | none => [])
  match b args with
  | .error m => Rare.Drv.Expr.panicAns m
  | .ok built =>
    match built.stage with
    | none => "ok val=-"
    | some st =>
      match st.run { getMatch := fun i => if i = 0 then key else [], getKey := fun _ => [] } with
      | .error m => Rare.Drv.Expr.panicAns m
      | .ok v => s!"ok val={Hex.enc v}"

def handle (args : List String) : String :=
  match args with
  | ["lookupfile", fn, k, c, p] =>
    (match Hex.dec k, Hex.dec c, (if p == "." then some none else (Hex.dec p).map some) with
    | some key, some content, some pre => lookupFile fn key content pre
    | _, _, _ => "bad-args")
  | _ =>
    match Rare.Drv.C11F64.handle args with
    | some a => a
    | none =>
      match Rare.Drv.Expr.handle args with
      | some a => a
      | none => "bad-op"

end Rare.Drv.C11
