import Rare.Drv.Expr
import Rare.Model.C10
namespace Rare.Drv.C10
open Rare Rare.Expr Rare.C10 Rare.Proto Rare.Drv.Expr

/--
* `expr …` – the shared op;
* `optdiff <template> <elems> <keys>` – value with optimisation on (the Go side also evaluates without
  and answers `DIFF …` when the two disagree);
* `funcs <opt> <file text> <template> <elems> <keys>` – evaluate a template against builtins + a
  definitions file;
* `inline <file text> <call template> <inlined template> <elems> <keys>` – the call's value (the Go side
  also evaluates the hand-inlined body and answers `DIFF …` on disagreement);
* `par <w> <template> <elems> <keys>` – value (the Go side evaluates from `w` goroutines).
-/
def evalFuncs (opt : Bool) (file tmpl : Bytes) (elems keys : List Bytes) : String :=
  match loadDefs registry (parseDefs file) with
  | .error m => panicAns m
  | .ok (_, fs) =>
    match decodeTemplate tmpl with
    | some tc => evalWith (withFuncs registry fs) opt tc (mkCtx elems keys)
    | none => "bad-args"

def handle (args : List String) : String :=
  match args with
  | ["optdiff", t, el, ks] =>
    match Rare.Drv.Expr.handle ["expr", "1", t, el, ks] with
    | some a => a
    | none => "bad-args"
  | ["par", _, t, el, ks] =>
    match Rare.Drv.Expr.handle ["expr", "1", t, el, ks] with
    | some a => a
    | none => "bad-args"
  | ["funcs", o, f, t, el, ks] =>
    match Hex.dec f, Hex.dec t, decHexList el, decHexList ks with
    | some file, some tmpl, some elems, some keys => evalFuncs (o == "1") file tmpl elems keys
    | _, _, _, _ => "bad-args"
  | ["parf", _, f, t, el, ks] =>
    match Hex.dec f, Hex.dec t, decHexList el, decHexList ks with
    | some file, some tmpl, some elems, some keys => evalFuncs true file tmpl elems keys
    | _, _, _, _ => "bad-args"
  | ["inline", f, t, _, el, ks] =>
    match Hex.dec f, Hex.dec t, decHexList el, decHexList ks with
    | some file, some tmpl, some elems, some keys => evalFuncs true file tmpl elems keys
    | _, _, _, _ => "bad-args"
  | ["livef", _, _] => "unmodelled time"
  | ["live", t] =>
    match Hex.dec t with
    | some tb =>
      match decodeTemplate tb with
      | some tc =>
        match compile registry true tc with
        | .error m => panicAns m
        | .ok (stages, _) =>
          match buildKey stages with
          | .ret _ => "ok touched=0"
          | .panic m => panicAns m
          | _ => "ok touched=1"
      | none => "bad-args"
    | none => "bad-args"
  | _ =>
    match Rare.Drv.Expr.handle args with
    | some a => a
    | none => "bad-op"

end Rare.Drv.C10
