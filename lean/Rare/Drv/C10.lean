import Rare.Drv.Expr
import Rare.Model.C10
import Rare.Model.C10Tree
import Rare.Drv.C09
namespace Rare.Drv.C10
open Rare Rare.Expr Rare.C10 Rare.Proto Rare.Drv.Expr

/--
* `expr …` – the shared op;
* `optdiff <template> <elems> <keys>` – value with optimisation on (the Go side also evaluates without
  and answers `DIFF …` when the two disagree);
* `funcs <opt> <file text> <template> <elems> <keys>` – evaluate a template against builtins + a
  definitions file;
* `inline <file text> <call template> <inlined template> <elems> <keys>` – the call's value (the Go side
  also evaluates the hand-inlined body and answers `DIFF …` on disagreement);
* `par <w> <template> <elems> <keys>` – value (the Go side evaluates from `w` goroutines);
* `ftree <opt> <defs> <tokens> <elems> <keys>` – a definitions file given as TREES (`defs` = `namehex/tokens|…`, each
  body a serialised (tree, style) as in C09's `tree` op) and a call-site tree: the SPEC prints bodies and call,
  the loader model loads the printed file into the standard registry, the model compiles and evaluates the call;
  the trees must be in the fragment (`fragOkS` for every body against the earlier definitions, fresh names) –
  else `not-in-fragment` – and the value must be `evalTree` under `semDefs` (theorem `call_nested_eq_body`), so the
  inlining semantics is compared with the real loader + compiler.
-/
def evalFuncs (opt : Bool) (file tmpl : Bytes) (elems keys : List Bytes) : String :=
  match loadDefs registry (parseDefs file) with
  | .error m => panicAns m
  | .ok (_, fs) =>
    match decodeTemplate tmpl with
    | some tc => evalWith (withFuncs registry fs) opt tc (mkCtx elems keys)
    | none => "bad-args"

/-- `namehex/tokens|namehex/tokens…` → definitions as (name, parsed tree) -/
def parseTreeDefs (s : String) : Option (List (List Char × Rare.Drv.C09.PTree)) :=
  if s == "." then some [] else
  (s.splitOn "|").mapM fun d =>
    match d.splitOn "/" with
    | [nh, toks] =>
      match Rare.Drv.C09.hexChars nh with
      | some n =>
        let tl := toks.splitOn ","
        match Rare.Drv.C09.parseNode (tl.length + 1) tl with
        | some (pt, []) => some (n, pt)
        | _ => none
      | none => none
    | _ => none

/-- Fresh names, every body in the fragment over the earlier definitions (the Boolean part of `DefsOk`). -/
def defsOkB : Rare.C09.Sem → List (List Char) → List Def → Bool
  | _, _, [] => true
  | sem, U, (n, B) :: rest =>
    (Rare.C09.fragLookup (String.ofList n)).isNone && fragOkS sem U B && defsOkB (semAdd sem (n, B)) (n :: U) rest

def evalFtree (opt : Bool) (defs : List (List Char × Rare.Drv.C09.PTree)) (call : Rare.Drv.C09.PTree)
    (elems keys : List Bytes) : String :=
  let phrases := defs.map fun d =>
    some (encodeRunes d.1, encodeRunes (Rare.C09.printTop (Rare.Drv.C09.styleOf d.2) (Rare.Drv.C09.treeOf d.2)))
  let tdefs : List Def := defs.map fun d => (d.1, Rare.Drv.C09.treeOf d.2)
  let e := Rare.Drv.C09.treeOf call
  let ctx := mkCtx elems keys
  match loadDefs registry phrases with
  | .error m => panicAns m
  | .ok (_, fs) =>
    let tpl := Rare.C09.printTop (Rare.Drv.C09.styleOf call) e
    let ans := evalWith (withFuncs registry fs) opt tpl ctx
    let sem := semDefs (fun _ => Rare.C09.stdSem) tdefs
    if defsOkB (fun _ => Rare.C09.stdSem) [] tdefs && fragOkS sem (tdefs.map (·.1)).reverse e then
      let spec := Rare.C09.evalTree (Rare.C09.envC sem ctx) e
      if ans != s!"ok errs=. val={Hex.enc spec}" then
        s!"spec-violation model {ans} tpl={Hex.enc (encodeRunes tpl)} spec={Hex.enc spec}"
      else ans
    else s!"not-in-fragment tpl={Hex.enc (encodeRunes tpl)}"

/-- `hist <file|-> <template> <keys> <elems>…`: the values of ONE compiled expression (optimiser on) on a sequence of
    matches; the model has no hidden state, so each value is the stateless one (the Go side also compiles without
    optimisation and answers `DIFF …` when the two sequences disagree). -/
def evalHist (file : Option Bytes) (tmpl : Bytes) (keys : List Bytes) (elemss : List (List Bytes)) : String :=
  let regE : Except String Registry :=
    match file with
    | none => .ok registry
    | some f =>
      match loadDefs registry (parseDefs f) with
      | .error m => .error m
      | .ok (_, fs) => .ok (withFuncs registry fs)
  match regE with
  | .error m => panicAns m
  | .ok reg =>
    match decodeTemplate tmpl with
    | none => "bad-args"
    | some tc =>
      match compile reg true tc with
      | .error m => panicAns m
      | .ok (stages, errs) =>
        match unmodelledTag errs with
        | some n => "unmodelled " ++ n
        | none =>
          match elemss.mapM (fun el => (buildKey stages).run (mkCtx el keys)) with
          | .error m => panicAns m
          | .ok vals => s!"ok errs={errsStr errs} vals={",".intercalate (vals.map Hex.enc)}"

def handle (args : List String) : String :=
  match args with
  | "hist" :: fh :: t :: ks :: els =>
    match (if fh == "-" then some none else (Hex.dec fh).map some), Hex.dec t, decHexList ks, els.mapM decHexList with
    | some file, some tmpl, some keys, some elemss => evalHist file tmpl keys elemss
    | _, _, _, _ => "bad-args"
  | ["ftree", o, ds, toks, el, ks] =>
    match parseTreeDefs ds, decHexList el, decHexList ks with
    | some defs, some elems, some keys =>
      let tl := toks.splitOn ","
      match Rare.Drv.C09.parseNode (tl.length + 1) tl with
      | some (pt, []) => evalFtree (o == "1") defs pt elems keys
      | _ => "bad-args"
    | _, _, _ => "bad-args"
  | ["optdiff", t, el, ks] =>
    match Rare.Drv.Expr.handle ["expr", "1", t, el, ks] with
    | some a => a
    | none => "bad-args"
  | ["par", _, t, el, ks] =>
    match Rare.Drv.Expr.handle ["expr", "1", t, el, ks] with
    | some a => a
    | none => "bad-args"
  | ["funcs", o, f, t, el, ks] =>
    match Hex.dec f, Hex.dec t, decHexList el, decHexList ks with
    | some file, some tmpl, some elems, some keys => evalFuncs (o == "1") file tmpl elems keys
    | _, _, _, _ => "bad-args"
  | ["parf", _, f, t, el, ks] =>
    match Hex.dec f, Hex.dec t, decHexList el, decHexList ks with
    | some file, some tmpl, some elems, some keys => evalFuncs true file tmpl elems keys
    | _, _, _, _ => "bad-args"
  | ["inline", f, t, _, el, ks] =>
    match Hex.dec f, Hex.dec t, decHexList el, decHexList ks with
    | some file, some tmpl, some elems, some keys => evalFuncs true file tmpl elems keys
    | _, _, _, _ => "bad-args"
  | ["livef", _, _] => "unmodelled time"
  | ["live", t] =>
    match Hex.dec t with
    | some tb =>
      match decodeTemplate tb with
      | some tc =>
        match compile registry true tc with
        | .error m => panicAns m
        | .ok (stages, _) =>
          match buildKey stages with
          | .ret _ => "ok touched=0"
          | .panic m => panicAns m
          | _ => "ok touched=1"
      | none => "bad-args"
    | none => "bad-args"
  | _ =>
    match Rare.Drv.Expr.handle args with
    | some a => a
    | none => "bad-op"

end Rare.Drv.C10
