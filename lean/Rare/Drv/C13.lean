import Rare.Base.Proto
namespace Rare.Drv.C13

def handle : List String → String
  | _ => "bad-op"

end Rare.Drv.C13
