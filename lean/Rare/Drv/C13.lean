import Rare.Base.Proto
import Rare.Model.C13Lower
import Rare.Model.C13Date
import Rare.Model.C13Groups
import Rare.Model.C13Axes
/-!
Line-protocol ops of C13.  Common trailing fields describe the data and the REMAINING library oracles
(`dateparse.ParseFormat`, `time.Parse`).  `strconv.ParseFloat` and `strings.ToLower` are computed by
the model (`realNum` over `F64.parseFloat`, `lowerK`), not passed in:

  <name>   hex of the `--sort` argument (e.g. `numeric:desc`)
  <keys>   hex list of distinct keys
  <values> `.` or comma separated integers (one per key)
  <df>     per key `x` (ParseFormat error) | layout id
  <dp>     `.` or rows separated by `/` (row i = layout id i), per key `x` | instant in ns

  sort     <name> <keys> <values> <perm> <df> <dp>   the code as it is (closure state threaded
                                                      through Go's insertion sort, n ≤ 12)
  sortspec <name> <keys> <values> <perm> <df> <dp>   the specified order of the set
  agg      <name> <keys> <values> <perm> <df> <dp>   same answer; the harness goes through the real aggregators
  cmpseq   <name> <keys> <values> <pairs i-j,…> <df> <dp>   answers of ONE closure along a sequence
  axioms   <name> <keys> <values> <df> <dp>          full comparison matrix (fresh closure per pair) + verdict

  pf       <keys>           `strconv.ParseFloat` per key: `e` | `n` (NaN) | order image (`F64.key`)
  smart    <keys>           full matrix of `ByNameSmart` (`byNameSmartF`, the Go-shaped comparator) + verdict
  lower    <key> <runemap>  `strings.ToLower(key)`, byte for byte; `<runemap>` = `.` or `r:l,…` gives
                            `unicode.ToLower` on the non-ASCII runes of the key (identity elsewhere)
  fold     <key>            the ASCII string `ToLower(key)` if it is one (`foldLower`), else `none`
  lowtab                    the non-ASCII runes that lower-case into ASCII

Round 4 – `time.Parse` computed by the model (`timeParseNs`), only `dateparse.ParseFormat` is data:

  <dl>     hex list, per key the layout `ParseFormat` inferred (`-` = error)

  tparse    <layout> <keys>                      per key `x` | instant in ns
  dsort     <name> <keys> <values> <perm> <dl>   = sort
  dsortspec <name> <keys> <values> <perm> <dl>   = sortspec      dagg = agg
  dcmpseq   <name> <keys> <values> <pairs> <dl>  = cmpseq
  daxioms   <name> <keys> <values> <dl>          = axioms

Row order of `rare reduce` (`AccumulatingGroup.Groups` with `ByContextual()` / `Reverse(ByContextual())`):

  groups    <rev 0|1> <groups> <sortkeys|.> <perm>   the specified order: sort key by the sorter, equal sort keys
                                                      by group key text (`.` = no `--sort`: the sorter on the group keys);
                                                      `unmodelled` when the sorter's keys are not `ctxUniform` (F19)

Round 4b – the two axes of table/heatmap/spark and the render loop (`Rare/Model/C13Axes.lean`):

  axes    <rname> <cname> <rowkeys> <colkeys> <renders> <rdl> <cdl>   two `BuildSorter` closures (rows, columns), their
                                                      variables threaded through every render (columns first, then rows;
                                                      Go's insertion sort, n ≤ 12); `<renders>` = `.` | `cols:rows/…` index lists
  topn    <name> <keys> <values> <n> <dl>             `MatchCounter.ItemsSortedBy(n, sorter)` through the real counter: the first n
                                                      rows of the specified order (`panic` for n < 0 ≤ rows; `unmodelled` unless uniform)
  sbv     <name>                                       `helpers.SortsByValue(name)` (`1` | `0`), `strings.ToLower` by the model
  axesagg <rname> <cname> <rowkeys> <colkeys> <renders> <rdl> <cdl>   cumulative renders through the real TableAggregator:
                                                      the specified order of each axis (`unmodelled` unless both are uniform)
-/
namespace Rare.Drv.C13
open Rare Rare.C13 Rare.Proto

def commaList (s : String) : List String := if s = "." then [] else s.splitOn ","

def isAscii (k : Key) : Bool := k.all (· < 128)

/-- memoised function: the values on `keys` are computed once (same function, extensionally) -/
def memo {β : Type} (f : Key → β) (keys : List Key) : Key → β :=
  let tab := keys.map (fun k => (k, f k))
  fun k => match tab.lookup k with
    | some v => v
    | none => f k

def parseOptInt (s : String) : Option (Option Int) :=
  if s = "x" then some none else s.toInt?.map some

def parseOptNat (s : String) : Option (Option Nat) :=
  if s = "x" then some none else s.toNat?.map some

structure Data where
  name : Key
  keys : List Key
  values : List Int
  o : Oracle

def parseData (name keys values df dp : String) : Option Data := do
  let name ← Hex.dec name
  let keys ← decHexList keys
  let values ← (commaList values).mapM String.toInt?
  let dfs ← (commaList df).mapM parseOptNat
  let rows ← (if dp = "." then some [] else (dp.splitOn "/").mapM (fun r => (commaList r).mapM parseOptInt))
  if values.length ≠ keys.length ∨ dfs.length ≠ keys.length then none
  else if rows.any (fun r => r.length ≠ keys.length) then none
  else if ¬ keys.Nodup then none
  else
    let fmtT := keys.zip dfs
    let rowsT := rows.map (fun r => keys.zip r)
    let lib : DateLib := { dfmt := fun k => (fmtT.lookup k).getD none
                           dparse := fun f k => ((rowsT.getD f []).lookup k).getD none }
    let o := realOracle lib
    -- `realNum` and `lowerK` are the modelled library calls; memoised on the keys of the case
    pure { name := name, keys := keys, values := values,
           o := { o with num := memo realNum keys, lower := memo lowerK keys } }

/-- Data of a d-op: layouts per key, `time.Parse` by the model (memoised per layout × key). -/
def parseDataL (name keys values dl : String) : Option (Sum String Data) := do
  let name ← Hex.dec name
  let keys ← decHexList keys
  let values ← (commaList values).mapM String.toInt?
  let lays ← decHexList dl
  if values.length ≠ keys.length ∨ lays.length ≠ keys.length then none
  else if ¬ keys.Nodup then none
  else
    let layouts := (lays.filter (· ≠ [])).eraseDups
    if layouts.any (fun l => !layoutModelled l) then pure (.inl "unmodelled yearday-layout")
    else
      let layT := keys.zip lays
      let lay : Key → Option Bytes := fun k => match layT.lookup k with
        | some l => if l = [] then none else some l
        | none => none
      let rowsT := layouts.map (fun l => keys.map (fun k => (k, timeParseNs l k)))
      let base := layoutLib layouts lay
      let lib : DateLib := { dfmt := base.dfmt
                             dparse := fun f k => match (rowsT.getD f []).lookup k with
                               | some v => v
                               | none => base.dparse f k }
      let o := realOracle lib
      pure (.inr { name := name, keys := keys, values := values,
                   o := { o with num := memo realNum keys, lower := memo lowerK keys } })

def Data.items (d : Data) : List NV := (d.keys.zip d.values).map (fun p => ⟨p.1, p.2⟩)

def parsePerm (s : String) (n : Nat) : Option (List Nat) := do
  let p ← (commaList s).mapM String.toNat?
  if p.length = n ∧ p.all (· < n) ∧ p.Nodup then some p else none

def parsePairs (s : String) (n : Nat) : Option (List (Nat × Nat)) :=
  (commaList s).mapM (fun w =>
    match w.splitOn "-" with
    | [a, b] => do
      let i ← a.toNat?
      let j ← b.toNat?
      if i < n ∧ j < n then some (i, j) else none
    | _ => none)

def errWord : SortErr → String
  | .modifier => "err modifier"
  | .unknown => "err unknown"

def bits (l : List Bool) : String := String.ofList (l.map (fun b => if b then '1' else '0'))

/-- Resolve the sort name; `inl` is the final answer for errors / unmodelled inputs. -/
def resolve (d : Data) : Sum String (Mode × Bool) :=
  match parseSort d.o.lower d.name with
    | .error e => .inl (errWord e)
    | .ok (nm, rev) =>
      match lookupMode d.o.lower nm with
      | none => .inl (errWord .unknown)
      | some m => .inr (m, rev)

def specLess (d : Data) (m : Mode) (rev : Bool) : NV → NV → Bool :=
  let l := modeSpecLess d.o sortSets d.items m
  if rev then revLess l else l

def uniform (d : Data) (m : Mode) : Bool := modeUniform d.o sortSets m d.keys

def names (l : List NV) : String := hexList (l.map (·.name))

def verdict (n : Nat) (m : Nat → Nat → Bool) : String :=
  let idx := List.range n
  let asym := idx.findSome? (fun i => idx.findSome? (fun j =>
    if i < j ∧ m i j = m j i then some s!"asym:{i},{j}" else none))
  match asym with
  | some w => w
  | none =>
    let tr := idx.findSome? (fun i => idx.findSome? (fun j => idx.findSome? (fun k =>
      if i ≠ j ∧ j ≠ k ∧ i ≠ k ∧ m i j ∧ m j k ∧ ¬ m i k then some s!"trans:{i},{j},{k}" else none)))
    tr.getD "total"

def pfWord : PF → String
  | .err => "e"
  | .nan => "n"
  | .val o => toString o

/-- `r:l,…` → `unicode.ToLower` on the listed runes, ASCII rule below 128, identity elsewhere -/
def parseRuneMap (s : String) : Option (Nat → Nat) := do
  let pairs ← (commaList s).mapM (fun w =>
    match w.splitOn ":" with
    | [a, b] => do let r ← a.toNat?; let l ← b.toNat?; pure (r, l)
    | _ => none)
  pure (fun r => if r < 128 then (if 65 ≤ r ∧ r ≤ 90 then r + 32 else r) else (pairs.lookup r).getD r)

def matrixAnswer (n : Nat) (m : Nat → Nat → Bool) : String :=
  let mat := (List.range n).flatMap (fun i => (List.range n).map (fun j => m i j))
  s!"ok m={if n = 0 then "-" else bits mat} v={verdict n m}"

def sortAnswer (op extra : String) (d : Data) : String :=
  let items := d.items
  match resolve d with
  | .inl ans => ans
  | .inr (m, rev) =>
    if op = "sort" ∨ op = "sortspec" ∨ op = "agg" then
      match parsePerm extra items.length with
      | none => "bad-args"
      | some p =>
        let arrival := p.filterMap (fun i => items[i]?)
        if op = "sortspec" ∨ op = "agg" then s!"ok {names (isort (specLess d m rev) arrival)}"
        else if arrival.length ≤ 12 then
          match buildSorter d.o sortSets d.name with
          | .error e => errWord e
          | .ok s => s!"ok {names (goInsertionSort s.cmp s.init arrival).1}"
        else if uniform d m then s!"ok {names (isort (specLess d m rev) arrival)}"
        else "unmodelled stateful-large"
    else if op = "cmpseq" then
      match parsePairs extra items.length, buildSorter d.o sortSets d.name with
      | some ps, .ok s =>
        let pairs := ps.filterMap (fun ij => do let a ← items[ij.1]?; let b ← items[ij.2]?; pure (a, b))
        s!"ok {bits (runSeq s.cmp s.init pairs)}"
      | _, _ => "bad-args"
    else "bad-op"

def axiomsAnswer (d : Data) : String :=
  match resolve d with
  | .inl ans => ans
  | .inr _ =>
    match buildSorter d.o sortSets d.name with
    | .error e => errWord e
    | .ok s =>
      let items := d.items
      let n := items.length
      let arr := items.toArray
      let m := fun (i j : Nat) => match arr[i]?, arr[j]? with
        | some a, some b => (s.cmp s.init a b).1
        | _, _ => false
      matrixAnswer n m

def parseIdx (s : String) (n : Nat) : Option (List Nat) := do
  let p ← (commaList s).mapM String.toNat?
  if p.all (· < n) ∧ p.Nodup then some p else none

def parseRenders (s : String) (nc nr : Nat) : Option (List (List Nat × List Nat)) :=
  if s = "." then some []
  else (s.splitOn "/").mapM (fun w =>
    match w.splitOn ":" with
    | [c, r] => do
      let ci ← parseIdx c nc
      let ri ← parseIdx r nr
      pure (ci, ri)
    | _ => none)

def rendersAnswer (out : List (List NV × List NV)) : String :=
  if out.isEmpty then "ok ." else s!"ok {"/".intercalate (out.map (fun p => s!"{names p.1}:{names p.2}"))}"

/-- cumulative renders of `axesagg`: keys seen so far on each axis with their totals (every render samples each
column × row pair of its index lists with increment 1) -/
def aggScreens (cols rows : List Key) (renders : List (List Nat × List Nat)) : List (List NV × List NV) :=
  (List.range renders.length).map (fun i =>
    let hist := renders.take (i + 1)
    let colIdx := (hist.flatMap (·.1)).eraseDups
    let rowIdx := (hist.flatMap (·.2)).eraseDups
    let colTotal := fun c => (hist.foldl (fun acc h => if h.1.contains c then acc + h.2.length else acc) 0 : Nat)
    let rowTotal := fun r => (hist.foldl (fun acc h => if h.2.contains r then acc + h.1.length else acc) 0 : Nat)
    (colIdx.filterMap (fun c => (cols[c]?).map (fun k => (⟨k, (colTotal c : Int)⟩ : NV))),
     rowIdx.filterMap (fun r => (rows[r]?).map (fun k => (⟨k, (rowTotal r : Int)⟩ : NV)))))

def axesAnswer (op : String) (dr dc : Data) (renders : List (List Nat × List Nat)) : String :=
  -- the commands build the row sorter first: its error is the one reported
  match resolve dr with
  | .inl ans => ans
  | .inr (mr, revr) =>
    match resolve dc with
    | .inl ans => ans
    | .inr (mc, revc) =>
      if op = "axes" then
        let rows := dr.items
        let cols := dc.items
        let rs := renders.map (fun p => (p.1.filterMap (fun i => cols[i]?), p.2.filterMap (fun i => rows[i]?)))
        if rs.any (fun r => decide (r.1.length > 12) || decide (r.2.length > 12)) then "unmodelled large"
        else
          match buildSorter dr.o sortSets dr.name, buildSorter dc.o sortSets dc.name with
          | .ok sr, .ok sc =>
            rendersAnswer (tableRenders (goInsertionSort sr.cmp) (goInsertionSort sc.cmp) sr.init sc.init rs)
          | _, _ => "bad-args"
      else if uniform dr mr && uniform dc mc then
        rendersAnswer ((aggScreens dc.keys dr.keys renders).map (fun p =>
          (isort (specLess dc mc revc) p.1, isort (specLess dr mr revr) p.2)))
      else "unmodelled stateful-nonuniform"

def zeros (keys : String) : String :=
  match decHexList keys with
  | some ks => if ks.isEmpty then "." else ",".intercalate (ks.map (fun _ => "0"))
  | none => "."

def handle : List String → String
  | [op, rname, cname, rowkeys, colkeys, renders, rdl, cdl] =>
    if op = "axes" ∨ op = "axesagg" then
      match parseDataL rname rowkeys (zeros rowkeys) rdl, parseDataL cname colkeys (zeros colkeys) cdl with
      | some (.inl w), _ => w
      | _, some (.inl w) => w
      | some (.inr dr), some (.inr dc) =>
        match parseRenders renders dc.keys.length dr.keys.length with
        | some rs => axesAnswer op dr dc rs
        | none => "bad-args"
      | _, _ => "bad-args"
    else "bad-op"
  | ["sbv", name] =>
    match Hex.dec name with
    | none => "bad-args"
    | some n => if sortsByValue lowerK n then "ok 1" else "ok 0"
  | ["pf", keys] =>
    match decHexList keys with
    | none => "bad-args"
    | some ks => s!"ok {if ks.isEmpty then "." else ",".intercalate (ks.map (fun k => pfWord (realNum k)))}"
  | ["smart", keys] =>
    match decHexList keys with
    | none => "bad-args"
    | some ks =>
      let arr := ks.toArray
      matrixAnswer ks.length (fun i j => match arr[i]?, arr[j]? with
        | some a, some b => byNameSmartF a b
        | _, _ => false)
  | ["lower", key, rm] =>
    match Hex.dec key, parseRuneMap rm with
    | some k, some tl => s!"ok {Hex.enc (goToLower tl k)}"
    | _, _ => "bad-args"
  | ["fold", key] =>
    match Hex.dec key with
    | none => "bad-args"
    | some k => match foldLower k with
      | some l => s!"ok {Hex.enc l}"
      | none => "ok none"
  | ["lowtab"] =>
    let rs := (List.range 0x110000).filter (fun r => 128 ≤ r ∧ tlMin r < 128)
    s!"ok {",".intercalate (rs.map (fun r => s!"{r}:{tlMin r}"))}"
  | ["groups", rev, groups, sortkeys, _perm] =>
    match decHexList groups, (if sortkeys = "." then some none else (decHexList sortkeys).map some) with
    | some gs, some ks =>
      if ¬ gs.Nodup then "bad-args"
      else if (match ks with | some l => l.length != gs.length | none => false) then "bad-args"
      else
        let seen := match ks with | some l => l | none => gs
        let o0 := realOracle noDates
        let o : Oracle := { o0 with num := memo realNum seen, lower := memo lowerK seen }
        if !ctxUniform o sortSets seen then "unmodelled stateful-nonuniform"
        else
          let base := contextualSpec o sortSets seen
          let less := if rev = "1" then revLess base else base
          match ks with
          | none => s!"ok {hexList (isort less gs)}"
          | some l =>
            let tab := gs.zip l
            let f : Key → Key := fun g => (tab.lookup g).getD []
            s!"ok {hexList (isort (groupsSpecLess less f) gs)}"
    | _, _ => "bad-args"
  | ["tparse", layout, keys] =>
    match Hex.dec layout, decHexList keys with
    | some l, some ks =>
      if !layoutModelled l then "unmodelled yearday-layout"
      else s!"ok {if ks.isEmpty then "." else ",".intercalate (ks.map (fun k => match timeParseNs l k with
        | some t => toString t
        | none => "x"))}"
    | _, _ => "bad-args"
  | ["daxioms", name, keys, values, dl] =>
    match parseDataL name keys values dl with
    | none => "bad-args"
    | some (.inl w) => w
    | some (.inr d) => axiomsAnswer d
  | ["axioms", name, keys, values, df, dp] =>
    match parseData name keys values df dp with
    | none => "bad-args"
    | some d => axiomsAnswer d
  | [op, name, keys, values, extra, dl] =>
    if op = "topn" then
      match parseDataL name keys values dl, extra.toInt? with
      | some (.inl w), _ => w
      | some (.inr d), some n =>
        match resolve d with
        | .inl ans => ans
        | .inr (m, rev) =>
          -- whether `items[:count]` panics depends on the number of rows only, not on their order
          match minSlice d.items n with
          | .error _ => "panic"
          | .ok _ =>
            if uniform d m then
              match minSlice (isort (specLess d m rev) d.items) n with
              | .ok l => s!"ok {names l}"
              | .error _ => "panic"
            else "unmodelled stateful-nonuniform"
      | _, _ => "bad-args"
    else if op = "dsort" ∨ op = "dsortspec" ∨ op = "dagg" ∨ op = "dcmpseq" then
      match parseDataL name keys values dl with
      | none => "bad-args"
      | some (.inl w) => w
      | some (.inr d) => sortAnswer (String.ofList (op.toList.drop 1)) extra d
    else "bad-op"
  | [op, name, keys, values, extra, df, dp] =>
    match parseData name keys values df dp with
    | none => "bad-args"
    | some d => sortAnswer op extra d
  | _ => "bad-op"

end Rare.Drv.C13
