import Rare.Base.Proto
import Rare.Model.C13
/-!
Line-protocol ops of C13.  Common trailing fields describe the data and the library oracles:

  <name>   hex of the `--sort` argument (e.g. `numeric:desc`)
  <keys>   hex list of distinct keys
  <values> `.` or comma separated integers (one per key)
  <pf>     per key `e` (ParseFloat error) | `n` (NaN) | integer (order image of the float64)
  <df>     per key `x` (ParseFormat error) | layout id
  <dp>     `.` or rows separated by `/` (row i = layout id i), per key `x` | instant in ns

  sort     <name> <keys> <values> <perm> <pf> <df> <dp>   the code as it is (closure state threaded
                                                           through Go's insertion sort, n ≤ 12)
  sortspec <name> <keys> <values> <perm> <pf> <df> <dp>   the specified order of the set
  agg      <name> <keys> <values> <perm> <pf> <df> <dp>   same answer; the harness goes through the real aggregators
  cmpseq   <name> <keys> <values> <pairs i-j,…> <pf> <df> <dp>   answers of ONE closure along a sequence
  axioms   <name> <keys> <values> <pf> <df> <dp>          full comparison matrix (fresh closure per pair) + verdict
-/
namespace Rare.Drv.C13
open Rare Rare.C13 Rare.Proto

def commaList (s : String) : List String := if s = "." then [] else s.splitOn ","

def isAscii (k : Key) : Bool := k.all (· < 128)

def parsePF (s : String) : Option PF :=
  if s = "e" then some .err else if s = "n" then some .nan else s.toInt?.map .val

def parseOptInt (s : String) : Option (Option Int) :=
  if s = "x" then some none else s.toInt?.map some

def parseOptNat (s : String) : Option (Option Nat) :=
  if s = "x" then some none else s.toNat?.map some

structure Data where
  name : Key
  keys : List Key
  values : List Int
  o : Oracle

def parseData (name keys values pf df dp : String) : Option Data := do
  let name ← Hex.dec name
  let keys ← decHexList keys
  let values ← (commaList values).mapM String.toInt?
  let pfs ← (commaList pf).mapM parsePF
  let dfs ← (commaList df).mapM parseOptNat
  let rows ← (if dp = "." then some [] else (dp.splitOn "/").mapM (fun r => (commaList r).mapM parseOptInt))
  if values.length ≠ keys.length ∨ pfs.length ≠ keys.length ∨ dfs.length ≠ keys.length then none
  else if rows.any (fun r => r.length ≠ keys.length) then none
  else if ¬ keys.Nodup then none
  else
    let numT := keys.zip pfs
    let fmtT := keys.zip dfs
    let rowsT := rows.map (fun r => keys.zip r)
    pure { name := name, keys := keys, values := values,
           o := { lower := asciiLower
                  num := fun k => (numT.lookup k).getD .err
                  dfmt := fun k => (fmtT.lookup k).getD none
                  dparse := fun f k => ((rowsT.getD f []).lookup k).getD none } }

def Data.items (d : Data) : List NV := (d.keys.zip d.values).map (fun p => ⟨p.1, p.2⟩)

def parsePerm (s : String) (n : Nat) : Option (List Nat) := do
  let p ← (commaList s).mapM String.toNat?
  if p.length = n ∧ p.all (· < n) ∧ p.Nodup then some p else none

def parsePairs (s : String) (n : Nat) : Option (List (Nat × Nat)) :=
  (commaList s).mapM (fun w =>
    match w.splitOn "-" with
    | [a, b] => do
      let i ← a.toNat?
      let j ← b.toNat?
      if i < n ∧ j < n then some (i, j) else none
    | _ => none)

def errWord : SortErr → String
  | .modifier => "err modifier"
  | .unknown => "err unknown"

/-- Does the mode look at key spellings through `strings.ToLower`? -/
def modeLowers : Mode → Bool
  | .contextual | .date => true
  | _ => false

def bits (l : List Bool) : String := String.ofList (l.map (fun b => if b then '1' else '0'))

/-- Resolve the sort name; `inl` is the final answer for errors / unmodelled inputs. -/
def resolve (d : Data) : Sum String (Mode × Bool) :=
  if ¬ isAscii d.name then .inl "unmodelled non-ascii-name"
  else match parseSort d.o.lower d.name with
    | .error e => .inl (errWord e)
    | .ok (nm, rev) =>
      match lookupMode d.o.lower nm with
      | none => .inl (errWord .unknown)
      | some m =>
        if modeLowers m ∧ ¬ d.keys.all isAscii then .inl "unmodelled non-ascii-key"
        else .inr (m, rev)

def specLess (d : Data) (m : Mode) (rev : Bool) : NV → NV → Bool :=
  let l := modeSpecLess d.o sortSets d.items m
  if rev then revLess l else l

def uniform (d : Data) (m : Mode) : Bool := modeUniform d.o sortSets m d.keys

def names (l : List NV) : String := hexList (l.map (·.name))

def verdict (n : Nat) (m : Nat → Nat → Bool) : String :=
  let idx := List.range n
  let asym := idx.findSome? (fun i => idx.findSome? (fun j =>
    if i < j ∧ m i j = m j i then some s!"asym:{i},{j}" else none))
  match asym with
  | some w => w
  | none =>
    let tr := idx.findSome? (fun i => idx.findSome? (fun j => idx.findSome? (fun k =>
      if i ≠ j ∧ j ≠ k ∧ i ≠ k ∧ m i j ∧ m j k ∧ ¬ m i k then some s!"trans:{i},{j},{k}" else none)))
    tr.getD "total"

def handle : List String → String
  | [op, name, keys, values, extra, pf, df, dp] =>
    match parseData name keys values pf df dp with
    | none => "bad-args"
    | some d =>
      let items := d.items
      match resolve d with
      | .inl ans => ans
      | .inr (m, rev) =>
        if op = "sort" ∨ op = "sortspec" ∨ op = "agg" then
          match parsePerm extra items.length with
          | none => "bad-args"
          | some p =>
            let arrival := p.filterMap (fun i => items[i]?)
            if op = "sortspec" ∨ op = "agg" then s!"ok {names (isort (specLess d m rev) arrival)}"
            else if arrival.length ≤ 12 then
              match buildSorter d.o sortSets d.name with
              | .error e => errWord e
              | .ok s => s!"ok {names (goInsertionSort s.cmp s.init arrival).1}"
            else if uniform d m then s!"ok {names (isort (specLess d m rev) arrival)}"
            else "unmodelled stateful-large"
        else if op = "cmpseq" then
          match parsePairs extra items.length, buildSorter d.o sortSets d.name with
          | some ps, .ok s =>
            let pairs := ps.filterMap (fun ij => do let a ← items[ij.1]?; let b ← items[ij.2]?; pure (a, b))
            s!"ok {bits (runSeq s.cmp s.init pairs)}"
          | _, _ => "bad-args"
        else "bad-op"
  | ["axioms", name, keys, values, pf, df, dp] =>
    match parseData name keys values pf df dp with
    | none => "bad-args"
    | some d =>
      match resolve d with
      | .inl ans => ans
      | .inr _ =>
        match buildSorter d.o sortSets d.name with
        | .error e => errWord e
        | .ok s =>
          let items := d.items
          let n := items.length
          let arr := items.toArray
          let m := fun (i j : Nat) => match arr[i]?, arr[j]? with
            | some a, some b => (s.cmp s.init a b).1
            | _, _ => false
          let mat := (List.range n).flatMap (fun i => (List.range n).map (fun j => m i j))
          s!"ok m={if n = 0 then "-" else bits mat} v={verdict n m}"
  | _ => "bad-op"

end Rare.Drv.C13
