import Rare.Base.Proto
import Rare.Model.C14Format
import Rare.Model.C14F64
import Rare.Model.C14Log
import Rare.Drv.Expr
/-!
Line protocol of property C14 (see `harness/corr/c14.go` for the Go side).

The model (`Rare/Model/C14.lean`) is polymorphic in the `float64` operations (`Arith α`).  The answers are
computed with the software binary64 instance `f64Arith` (`Rare/Model/C14F64.lean`, the one the `…_f64`
theorems are about).  Lean's native `Float` appears only in this file: Go's pure-Go
`math.Log`/`Log2`/`Log10` are ported operation by operation (amd64 has no assembly for them), so
that the palette indices of the log scalers can be compared exactly, and `scale` is cross-checked
against an all-native evaluation.  `math.Pow` (heatmap legend of a
log scale) is not ported: both sides replace that one line by `~`.

Ops: `scname`, `skeys`, `scale`, `scalego`, `log`, `barw`, `stack`, `cell`, `strlen`, `fmtseq`, `hdr`, `tablew`, `histow`, `render histo|histo2|bars|table|heat|spark|reduce`, `rcli`.
-/
namespace Rare.Drv.C14
open Rare Rare.C14 Rare.C20 Rare.Proto

/-! ### Go's math.Log / Log2 / Log10 on IEEE doubles -/

def fb (n : UInt64) : Float := Float.ofBits n

/-- `math.log` (FreeBSD e_log.c port), for finite `x > 0` -/
def goLog (x : Float) : Float :=
  let ln2Hi := fb 0x3fe62e42fee00000
  let ln2Lo := fb 0x3dea39ef35793c76
  let l1 := fb 0x3fe5555555555593
  let l2 := fb 0x3fd999999997fa04
  let l3 := fb 0x3fd2492494229359
  let l4 := fb 0x3fcc71c51d8e78af
  let l5 := fb 0x3fc7466496cb03de
  let l6 := fb 0x3fc39a09d078c69f
  let l7 := fb 0x3fc2f112df3e5244
  let (f1, ki) := x.frExp
  let (f1, ki) := if f1 < fb 0x3fe6a09e667f3bcd then (f1 * 2, ki - 1) else (f1, ki)
  let f := f1 - 1
  let k := Float.ofInt ki
  let s := f / (2 + f)
  let s2 := s * s
  let s4 := s2 * s2
  let t1 := s2 * (l1 + s4 * (l3 + s4 * (l5 + s4 * l7)))
  let t2 := s4 * (l2 + s4 * (l4 + s4 * l6))
  let r := t1 + t2
  let hfsq := 0.5 * f * f
  k * ln2Hi - ((hfsq - (s * (hfsq + r) + k * ln2Lo)) - f)

def goLog10 (x : Float) : Float := goLog x * fb 0x3fdbcb7b1526e50e

def goLog2 (x : Float) : Float :=
  let (frac, exp) := x.frExp
  if frac == 0.5 then Float.ofInt (exp - 1)
  else goLog frac * fb 0x3ff71547652b82fe + Float.ofInt exp

/-- Go `int64(f)` on amd64 (CVTTSD2SQ): truncation; NaN and out-of-range give MinInt64 -/
def goTrunc (f : Float) : Int :=
  if f.isNaN || f >= 9223372036854775808.0 || f < -9223372036854775808.0 then minInt64
  else f.toInt64.toInt

def floatArith : Arith Float :=
  { ofInt := Float.ofInt, add := (· + ·), sub := (· - ·), mul := (· * ·), div := (· / ·),
    floor := Float.floor, ceil := Float.ceil, le := fun a b => decide (a ≤ b), beq := fun a b => a == b,
    trunc := goTrunc, log2 := goLog2, log10 := goLog10,
    pow2 := fun f => Float.pow 2 f, pow10 := fun f => Float.pow 10 f }

/-! ### parsing -/

def bit (s : String) : Option Bool := if s = "1" then some true else if s = "0" then some false else none

def scaler? (s : String) : Option Scaler :=
  if s = "linear" then some .linear else if s = "log2" then some .log2 else if s = "log10" then some .log10 else none

/-- the formatter field: `raw`, `hi` or `x<hex of the --format expression>` -/
inductive FmtArg where
  | ok (f : Fmt)
  | unmodelled (name : String)
  | compileError
  | bad

def fmtArg (s : String) : FmtArg :=
  if s = "raw" then .ok .raw else if s = "hi" then .ok .hi
  else if s.startsWith "x" then
    match Hex.dec (s.drop 1).toString with
    | some b =>
      match Rare.Drv.Expr.decodeTemplate b with
      | some tc =>
        match Fmt.ofExpression Rare.Drv.Expr.registry tc with
        | .error m => if m.startsWith "unmodelled:" then .unmodelled (m.drop 11).toString else .compileError
        | .ok (f, errs) =>
          match Rare.Drv.Expr.unmodelledTag errs with
          | some n => .unmodelled n
          | none => if errs.isEmpty then .ok f else .compileError
      | none => .bad
    | none => .bad
  else .bad

/-- run `k` with the parsed formatter, or give the answer that stands for the whole case -/
def withFmt (s : String) (k : Fmt → String) : String :=
  match fmtArg s with
  | .ok f => k f
  | .unmodelled n => "unmodelled " ++ n
  | .compileError => "compile-error"
  | .bad => "bad-args"

def fmt? (s : String) : Option String := some s

def ints? (s : String) (sep : String) : Option (List Int) :=
  if s = "." then some [] else (s.splitOn sep).mapM String.toInt?

/-- phases: `|`-separated, each `.` or `,`-separated samples of `:`-separated integers -/
def phases? (s : String) : Option (List (List (List Int))) :=
  (s.splitOn "|").mapM fun ph => if ph = "." then some [] else (ph.splitOn ",").mapM fun sm => ints? sm ":"

def hasInfix (needle : Bytes) : Bytes → Bool
  | [] => needle.isEmpty
  | b :: rest => (needle.isPrefixOf (b :: rest)) || hasInfix needle rest

/-- the answer for a list of lines; a formatter whose model predicts a Go panic leaves its mark -/
def linesAnswer (lines : List Bytes) : String :=
  if lines.any (hasInfix fmtPanicMark) then "panic" else "ok " ++ hexList lines

def okLines (vt : VirtualTerm) : String := linesAnswer vt.lines

def answer (r : Res String) : String :=
  match r with
  | .ok s => s
  | .error _ => "panic"

/-! ### the instance the answers are computed with: the software binary64 model

Every `float64` operation of the scalers is the kernel-checkable `Rare.F64` one – the definitions the
theorems `…_f64` of `Props/C14.lean` are about.  Only `math.Log2/Log10/Pow` (parameters of those theorems)
are evaluated natively, on the bit pattern.  The op `scale` also evaluates the whole computation with
the native instance and answers `model-vs-native` when the two differ. -/

def toNative (x : F64) : Float := Float.ofBits x.toBits
def ofNative (f : Float) : F64 := if f.isNaN then F64.nan else F64.ofBits f.toBits

def f64A : Arith F64 :=
  f64Arith (fun x => ofNative (goLog2 (toNative x))) (fun x => ofNative (goLog10 (toNative x)))
    (fun x => ofNative (Float.pow 2 (toNative x))) (fun x => ofNative (Float.pow 10 (toNative x)))

def A := f64A

/-! ### render ops -/

def nat! (i : Int) : Nat := i.toNat

/-- `atLeast`: the `--atleast` flag; `all`: also the `--all` listing (a second writer with one line per
group into a fresh VirtualTerm), appended after a `~~` marker line -/
def renderHisto (env : Env) (sc : Scaler) (fm : Fmt) (bar pct : Bool) (maxLines : Int) (atLeast : Int) (all : Bool) (keys : List Bytes)
    (phases : List (List (List Int))) : Res String := do
  let h ← Histo.new maxLines bar pct sc fm
  let topItems (cells : Cells) (count : Int) : Res (List (Bytes × Int)) := do
    -- counter.ItemsSortedBy(count, sorter)
    let present := cells.rows
    let items ← if (present.length : Int) < count then pure present else sliceTo present count
    pure (items.map fun k => (keyAt keys k, cells.value k 0))
  let (cells, _, vt) ← phases.foldlM (fun (st : Cells × Histo × VirtualTerm) ph => do
    let cells := ph.foldl (fun (c : Cells) sm => match sm with
      | [k, inc] => c.sample (nat! k) 0 inc
      | _ => c) st.1
    let items ← topItems cells maxLines
    let (h, vt) ← st.2.1.writeOutput A env st.2.2 items cells.sum atLeast
    let vt ← h.writeFooter vt 0 (ascii "F")
    pure (cells, h, vt)) (([] : Cells), h, VirtualTerm.new)
  if all then
    -- cmd/histo.go `--all`: NewHistogram(vterm, counter.GroupCount()) with the default settings
    let n : Int := cells.rows.length
    let h2 ← Histo.new n true true .linear .hi
    let items ← topItems cells n
    let (_, vt2) ← h2.writeOutput A env VirtualTerm.new items cells.sum atLeast
    pure (linesAnswer (vt.lines ++ [ascii "~~"] ++ vt2.lines))
  else pure (okLines vt)

def renderBars (env : Env) (sc : Scaler) (fm : Fmt) (stacked : Bool) (barSize : Int) (keys subs : List Bytes)
    (phases : List (List (List Int))) : Res String := do
  let g : BarGraph := { stacked, barSize, scaler := sc, fmt := fm }
  let (_, _, vt) ← phases.foldlM (fun (st : Cells × BarGraph × VirtualTerm) ph => do
    let cells := ph.foldl (fun (c : Cells) sm => match sm with
      | [k, s, inc] => c.sample (nat! k) (nat! s) inc
      | _ => c) st.1
    let subIdx := cells.cols
    let (g, vt) ← st.2.1.writeOutput A env st.2.2 (subIdx.map (keyAt subs))
      (cells.rows.map fun k => (keyAt keys k, subIdx.map (cells.value k)))
    let vt ← g.writeFooter vt 0 (ascii "F")
    pure (cells, g, vt)) (([] : Cells), g, VirtualTerm.new)
  pure (okLines vt)

def sampleTable (c : Cells) (ph : List (List Int)) : Cells :=
  ph.foldl (fun (c : Cells) sm => match sm with
    | [r, k, inc] => c.sample (nat! r) (nat! k) inc
    | _ => c) c

def renderTable (env : Env) (fm : Fmt) (rowTot colTot : Bool) (nrows ncols : Int) (rkeys ckeys : List Bytes)
    (phases : List (List (List Int))) : Res String := do
  let d ← DataTable.new ncols nrows rowTot colTot
  let d := d.setFormatter fm
  let (_, _, vt) ← phases.foldlM (fun (st : Cells × DataTable × VirtualTerm) ph => do
    let cells := sampleTable st.1 ph
    let (d, vt) ← st.2.1.writeTable env st.2.2 rkeys ckeys cells
    let vt ← d.table.writeFooter vt 0 (ascii "F")
    pure (cells, d, vt)) (([] : Cells), d, VirtualTerm.new)
  pure (okLines vt)

def renderHeat (env : Env) (sc : Scaler) (fm : Fmt) (nrows ncols : Int) (fix fmin fmax : Int) (rkeys ckeys : List Bytes)
    (phases : List (List (List Int))) : Res String := do
  -- cmd/heatmap.go, in its order: the first legend is drawn with the default scaler and formatter
  let h : Heatmap := { rowCount := nrows, colCount := ncols, fixedMin := fix % 2 = 1, fixedMax := fix / 2 % 2 = 1 }
  let (h, vt) ← if h.fixedMin || h.fixedMax then h.updateMinMax A env VirtualTerm.new fmin fmax else pure (h, VirtualTerm.new)
  let h := { h with scaler := sc, fmt := fm }
  let (_, _, vt) ← phases.foldlM (fun (st : Cells × Heatmap × VirtualTerm) ph => do
    let cells := sampleTable st.1 ph
    let (h, vt) ← st.2.1.writeTable A env st.2.2 rkeys ckeys cells
    let vt ← h.writeFooter vt 0 (ascii "F")
    pure (cells, h, vt)) (([] : Cells), h, vt)
  -- the legend of a log scale goes through math.Pow: not compared
  let lines := if sc != .linear then (match vt.lines with | [] => [] | _ :: r => ascii "~" :: r) else vt.lines
  pure (linesAnswer lines)

def renderSpark (env : Env) (sc : Scaler) (fm : Fmt) (nrows ncols : Int) (trunc : Bool) (rkeys ckeys : List Bytes)
    (phases : List (List (List Int))) : Res String := do
  let s ← Spark.new nrows ncols sc fm
  let (_, _, vt) ← phases.foldlM (fun (st : Cells × Spark × VirtualTerm) ph => do
    let cells := sampleTable st.1 ph
    -- cmd/spark.go: trim the columns that are not displayed
    let cells ← if trunc then do
        let keep := cells.cols
        if (keep.length : Int) > ncols then
          let keep ← sliceFrom keep (keep.length - ncols)
          pure (cells.keepCols keep)
        else pure cells
      else pure cells
    let (s, vt) ← st.2.1.writeTable A env st.2.2 rkeys ckeys cells
    let vt ← s.writeFooter vt 0 (ascii "F")
    pure (cells, s, vt)) (([] : Cells), s, VirtualTerm.new)
  pure (okLines vt)

/-! ### `render reduce`: the real `AccumulatingGroup` is driven with expressions of a tiny template
language (literal bytes, `{N}`, `{.}`); this is its evaluation (scaffolding of the harness, not a model of
the expression engine – that is C08–C11). -/

/-- `{0}` = the whole element, `{N}` = its N-th NUL-separated part (empty beyond the end), `{.}` = the accumulator -/
def evalTpl (elem cur : Bytes) (parts : List Bytes) : Nat → Bytes → Bytes
  | 0, _ => []
  | _, [] => []
  | fuel + 1, b :: rest =>
    if b = 123 then
      let body := rest.takeWhile (· != 125)
      let after := (rest.dropWhile (· != 125)).drop 1
      let v := if body = [46] then cur
        else match atoi body with
          | some 0 => elem
          | some n => parts.getD (n.toNat - 1) []
          | none => []
      v ++ evalTpl elem cur parts fuel after
    else b :: evalTpl elem cur parts fuel rest

def bytesLt : Bytes → Bytes → Bool
  | [], [] => false
  | [], _ :: _ => true
  | _ :: _, [] => false
  | a :: as, b :: bs => if a < b then true else if b < a then false else bytesLt as bs

/-- `AccumulatingGroup.Sample(element)` for template expressions -/
def reduceSample (gexprs dexprs : List Bytes) (init : Bytes) (st : List (Bytes × List Bytes)) (elem : Bytes) : List (Bytes × List Bytes) :=
  let parts := splitByte 0 elem
  let ev (cur tpl : Bytes) := evalTpl elem cur parts (tpl.length + 1) tpl
  let key : Bytes := match gexprs with
    | [] => []
    | _ => (gexprs.map (ev [])).intersperse [0] |>.flatten
  let old := match st.find? (·.1 == key) with
    | some e => e.2
    | none => dexprs.map fun _ => init
  let data := (dexprs.zip old).map fun (tpl, cur) => ev cur tpl
  if st.any (·.1 == key) then st.map (fun e => if e.1 == key then (key, data) else e) else st ++ [(key, data)]

def renderReduce (env : Env) (nrows ncols : Int) (gnames gexprs dnames dexprs pool : List Bytes)
    (phases : List (List (List Int))) : Res String := do
  let r ← Reduce.new ncols nrows gnames dnames
  let (r, vt) ← r.start env VirtualTerm.new
  let (_, _, vt) ← phases.foldlM (fun (st : List (Bytes × List Bytes) × Reduce × VirtualTerm) ph => do
    let groups := ph.foldl (fun g sm =>
      reduceSample gexprs dexprs (ascii "i") g ((sm.map fun i => pool.getD (nat! i) []).intersperse [0]).flatten) st.1
    -- aggr.Groups(sorting.ByName)
    let sorted := groups.mergeSort (fun a b => !bytesLt b.1 a.1)
    let (r, vt) ← st.2.1.render env st.2.2 sorted (ascii "F0") (ascii "F1")
    pure (groups, r, vt)) (([] : List (Bytes × List Bytes)), r, vt)
  pure (okLines vt)

/-! ### `rcli`: the real `rare reduce` command in process (`harness/corr/c14cli.go`): `--sort-reverse`, `--sort <expr>`,
several frames.  Group values and sort keys of the generated cases are neither numbers nor weekday / month names, so
`sorting.ByContextual()` is the byte order (the sorters are C13's business). -/

/-- the sort key of a group under `--sort <tpl>` (`accumulatorGroupSortContext`): `{N}` = part N of the group key
(from 0), `{.}` = the whole key, `{name}` = the group's current value of that data column (unknown: empty) -/
def evalSortTpl (key : Bytes) (parts : List Bytes) (look : Bytes → Bytes) : Nat → Bytes → Bytes
  | 0, _ => []
  | _, [] => []
  | fuel + 1, b :: rest =>
    if b = 123 then
      let body := rest.takeWhile (· != 125)
      let after := (rest.dropWhile (· != 125)).drop 1
      let v := if body = [46] then key
        else match atoi body with
          | some n => if n < 0 then [] else parts.getD n.toNat []
          | none => look body
      v ++ evalSortTpl key parts look fuel after
    else b :: evalSortTpl key parts look fuel rest

/-- the `less` that `aggr.Groups(sorter)` sorts with: `sorter` = byte order or its `sorting.Reverse` (`!sorter(a, b)`);
with a sort expression the sort keys are compared, equal sort keys fall back to the group key (ascending) -/
def reduceLess (rev : Bool) (sort : Option Bytes) (dnames : List Bytes) (a b : Bytes × List Bytes) : Bool :=
  let s (x y : Bytes) : Bool := if rev then !bytesLt x y else bytesLt x y
  match sort with
  | none => s a.1 b.1
  | some tpl =>
    let k (g : Bytes × List Bytes) : Bytes :=
      evalSortTpl g.1 (splitByte 0 g.1) (fun nm => match (dnames.zip g.2).find? (·.1 == nm) with | some e => e.2 | none => [])
        (tpl.length + 1) tpl
    if k a == k b then bytesLt a.1 b.1 else s (k a) (k b)

def renderReduceCli (env : Env) (rev : Bool) (sort : Option Bytes) (nrows ncols : Int) (gnames gexprs dnames dexprs pool : List Bytes)
    (phases : List (List (List Int))) : Res String := do
  let r ← Reduce.new ncols nrows gnames dnames
  let (r, vt) ← r.start env VirtualTerm.new
  let (_, _, vt) ← phases.foldlM (fun (st : List (Bytes × List Bytes) × Reduce × VirtualTerm) ph => do
    let groups := ph.foldl (fun g sm =>
      reduceSample gexprs dexprs (ascii "i") g ((sm.map fun i => pool.getD (nat! i) []).intersperse [0]).flatten) st.1
    let sorted := groups.mergeSort (fun a b => !reduceLess rev sort dnames b a)
    let (r, vt) ← st.2.1.render env st.2.2 sorted (ascii "F0") (ascii "F1")
    pure (groups, r, vt)) (([] : List (Bytes × List Bytes)), r, vt)
  pure (okLines vt)

/-- a step of a `tablew` script: `<row>:<cells>` or `F<idx>:<hex line>` -/
def parseStep (s : String) : Option TableOp :=
  match s.splitOn ":" with
  | [n, cells] =>
    if n.startsWith "F" then do
      let idx ← (n.drop 1).toInt?
      let line ← Hex.dec cells
      pure (TableOp.footer idx line)
    else do
      let rn ← n.toInt?
      let cs ← decHexList cells
      pure (TableOp.row rn cs)
  | _ => none

/-- a step of a `histow` script: `<line>:<hex key>:<val>` or `T:<total>` -/
def parseHistoStep (s : String) : Option HistoOp :=
  match s.splitOn ":" with
  | ["T", t] => (t.toInt?).map HistoOp.total
  | [n, key, v] => do
    let n ← n.toNat?
    let k ← Hex.dec key
    let v ← v.toInt?
    pure (HistoOp.line n k v)
  | _ => none

def handle : List String → String
  | ["histow", col, uni, sc, fm, bar, pct, maxLines, script] =>
    match bit col, bit uni, scaler? sc, bit bar, bit pct, maxLines.toInt?, (if script = "." then some [] else (script.splitOn "/").mapM parseHistoStep) with
    | some c, some u, some k, some b, some p, some ml, some steps =>
      withFmt fm fun f => answer (do
        let h ← Histo.new ml b p k f
        let (h, vt) ← Histo.runOps A { color := c, unicode := u } (h, VirtualTerm.new) steps
        let vt ← h.writeFooter vt 0 (ascii "F")
        pure (okLines vt))
    | _, _, _, _, _, _, _ => "bad-args"
  | ["scname", name] =>
    match Hex.dec name with
    | some b =>
      match scalerByName b with
      | some .linear => "ok linear"
      | some .log2 => "ok log2"
      | some .log10 => "ok log10"
      | none => "ok none"
    | none => "bad-args"
  | ["skeys", sc, nb, mn, mx] =>
    -- `Scaler.ScaleKeys` directly: on the linear scale the key list of `scaleKeys` with the software binary64 (the definition
    -- of legend_linear_f64 …), cross-checked against the native instance; on the log scales (`math.Pow` not ported) the
    -- harness checks the shape of legend_keys_shape
    match scaler? sc, nb.toInt?, mn.toInt?, mx.toInt? with
    | some k, some nb, some mn, some mx =>
      if nb < 1 ∨ 64 < nb then "bad-case buckets"
      else match k with
        | .linear =>
          let m := ",".intercalate ((scaleKeys A k nb mn mx).map toString)
          let n := ",".intercalate ((scaleKeys floatArith k nb mn mx).map toString)
          if m = n then "ok " ++ m else s!"model-vs-native f64={m} native={n}"
        | _ => "ok shape"
    | _, _, _, _ => "bad-args"
  | ["scale", sc, v, mn, mx] =>
    match scaler? sc, v.toInt?, mn.toInt?, mx.toInt? with
    | some k, some v, some mn, some mx =>
      let u := scale A k v mn mx
      let ans (bits : Nat) (b16 b10 b9 b4 l50 l450 : Int) : String :=
        s!"ok {bits} b16={b16} b10={b10} b9={b9} b4={b4} l50={l50} l450={l450}"
      let m := ans u.bits (bucket A 16 u) (bucket A 10 u) (bucket A 9 u) (bucket A 4 u) (lengthVal A 50 u) (lengthVal A 450 u)
      let N := floatArith
      let w := scale N k v mn mx
      let n := ans w.toBits.toNat (bucket N 16 w) (bucket N 10 w) (bucket N 9 w) (bucket N 4 w) (lengthVal N 50 w) (lengthVal N 450 w)
      if m = n then m else s!"model-vs-native f64={m} native={n}"
    | _, _, _, _ => "bad-args"
  | ["scalego", sc, v, mn, mx] =>
    -- the all-kernel arithmetic: Go's logarithms ported to the software binary64 (`goArith`, Model/C14Log.lean)
    match scaler? sc, v.toInt?, mn.toInt?, mx.toInt? with
    | some k, some v, some mn, some mx =>
      let u := scale goArith k v mn mx
      s!"ok {u.bits} b16={bucket goArith 16 u}"
    | _, _, _, _ => "bad-args"
  | ["log", fn, bits] =>
    match bits.toNat? with
    | some b =>
      let x := fb64 b
      let y := if fn = "ln" then goLogF x else if fn = "log2" then goLog2F x else goLog10F x
      -- the native port the renderer ops use must agree with the kernel one on x > 0 finite
      let nx := toNative x
      let ny := if fn = "ln" then goLog nx else if fn = "log2" then goLog2 nx else goLog10 nx
      let shown (z : F64) : String := if z.isNaN then "nan" else toString z.bits
      if x.isFinite && !x.sign && !x.isZero && shown y != shown (ofNative ny) then s!"model-vs-native f64={shown y} native={shown (ofNative ny)}"
      else "ok " ++ shown y
    | none => "bad-args"
  | ["barw", uni, maxLen, sc, v, mn, mx] =>
    match bit uni, maxLen.toInt?, scaler? sc, v.toInt?, mn.toInt?, mx.toInt? with
    | some u, some ml, some k, some v, some mn, some mx =>
      answer (do let b ← barWrite A { color := false, unicode := u } (scale A k v mn mx) ml; pure ("ok " ++ Hex.enc b))
    | _, _, _, _, _, _ => "bad-args"
  | ["stack", col, uni, maxVal, maxLen, vals] =>
    match bit col, bit uni, maxVal.toInt?, maxLen.toInt?, ints? vals "," with
    | some c, some u, some mv, some ml, some vs =>
      answer (do let b ← barWriteStacked { color := c, unicode := u } mv ml vs; pure ("ok " ++ Hex.enc b))
    | _, _, _, _, _ => "bad-args"
  | ["cell", col, uni, sc, v, mn, mx] =>
    match bit col, bit uni, scaler? sc, v.toInt?, mn.toInt?, mx.toInt? with
    | some c, some u, some k, some v, some mn, some mx =>
      let env : Env := { color := c, unicode := u }
      let x := scale A k v mn mx
      answer (do
        let h ← heatWrite A env x
        let s ← sparkWrite A env x
        pure ("ok " ++ Hex.enc h ++ " " ++ Hex.enc s))
    | _, _, _, _, _, _ => "bad-args"
  | ["fmtseq", fm, triples] =>
    withFmt fm fun f =>
      match (triples.splitOn ",").mapM (fun t => ints? t ":") with
      | some ts => linesAnswer (ts.map fun t => match t with
          | [v, mn, mx] => f.apply v mn mx
          | _ => [])
      | none => "bad-args"
  | ["strlen", col, s] =>
    match bit col, Hex.dec s with
    | some c, some b => s!"ok {strLen { color := c, unicode := true } b}"
    | _, _ => "bad-args"
  | ["hdr", col, n, names] =>
    match bit col, n.toInt?, decHexList names with
    | some c, some n, some ns =>
      let h : Heatmap := { rowCount := 1, colCount := n }
      answer (do
        let (t, cc) ← h.headerText { color := c, unicode := true } ns
        pure s!"ok {cc} {Hex.enc t}")
    | _, _, _ => "bad-args"
  | ["tablew", col, maxCols, maxRows, script] =>
    match bit col, maxCols.toInt?, maxRows.toInt?, (if script = "." then some [] else (script.splitOn "/").mapM parseStep) with
    | some c, some mc, some mr, some steps =>
      let env : Env := { color := c, unicode := true }
      answer (do
        let t ← TableWriter.new mc mr
        let (t, vt) ← TableWriter.runOps env (t, VirtualTerm.new) steps
        let vt ← t.writeFooter vt 0 (ascii "F")
        pure (okLines vt))
    | _, _, _, _ => "bad-args"
  | ["render", "histo", col, uni, sc, fm, bar, pct, maxLines, keys, ph] =>
    match bit col, bit uni, scaler? sc, fmt? fm, bit bar, bit pct, maxLines.toInt?, decHexList keys, phases? ph with
    | some c, some u, some k, some f, some b, some p, some ml, some ks, some phs =>
      withFmt f fun f => answer (renderHisto { color := c, unicode := u } k f b p ml 0 false ks phs)
    | _, _, _, _, _, _, _, _, _ => "bad-args"
  | ["render", "histo2", col, uni, sc, fm, bar, pct, maxLines, atLeast, all, keys, ph] =>
    match bit col, bit uni, scaler? sc, fmt? fm, bit bar, bit pct, maxLines.toInt?, atLeast.toInt?, bit all, decHexList keys, phases? ph with
    | some c, some u, some k, some f, some b, some p, some ml, some al, some all, some ks, some phs =>
      withFmt f fun f => answer (renderHisto { color := c, unicode := u } k f b p ml al all ks phs)
    | _, _, _, _, _, _, _, _, _, _, _ => "bad-args"
  | ["render", "reduce", col, nrows, ncols, gnames, gexprs, dnames, dexprs, pool, ph] =>
    match bit col, nrows.toInt?, ncols.toInt?, decHexList gnames, decHexList gexprs, decHexList dnames, decHexList dexprs,
        decHexList pool, phases? ph with
    | some c, some nr, some nc, some gn, some ge, some dn, some de, some pl, some phs =>
      answer (renderReduce { color := c, unicode := true } nr nc gn ge dn de pl phs)
    | _, _, _, _, _, _, _, _, _ => "bad-args"
  | ["rcli", flags, nrows, ncols, gnames, gexprs, dnames, dexprs, sort, pool, ph] =>
    match flags.toNat?, nrows.toInt?, ncols.toInt?, decHexList gnames, decHexList gexprs, decHexList dnames, decHexList dexprs,
        (if sort = "-" then some none else (Hex.dec sort).map some), decHexList pool, phases? ph with
    | some fl, some nr, some nc, some gn, some ge, some dn, some de, some so, some pl, some phs =>
      answer (renderReduceCli { color := fl / 2 % 2 == 1, unicode := true } (fl % 2 == 1) so nr nc gn ge dn de pl phs)
    | _, _, _, _, _, _, _, _, _, _ => "bad-args"
  | ["render", "bars", col, uni, sc, fm, stacked, barSize, keys, subs, ph] =>
    match bit col, bit uni, scaler? sc, fmt? fm, bit stacked, barSize.toInt?, decHexList keys, decHexList subs, phases? ph with
    | some c, some u, some k, some f, some st, some bs, some ks, some ss, some phs =>
      withFmt f fun f => answer (renderBars { color := c, unicode := u } k f st bs ks ss phs)
    | _, _, _, _, _, _, _, _, _ => "bad-args"
  | ["render", "table", col, fm, rt, ct, nrows, ncols, rkeys, ckeys, ph] =>
    match bit col, fmt? fm, bit rt, bit ct, nrows.toInt?, ncols.toInt?, decHexList rkeys, decHexList ckeys, phases? ph with
    | some c, some f, some rt, some ct, some nr, some nc, some rk, some ck, some phs =>
      withFmt f fun f => answer (renderTable { color := c, unicode := true } f rt ct nr nc rk ck phs)
    | _, _, _, _, _, _, _, _, _ => "bad-args"
  | ["render", "heat", col, uni, sc, fm, nrows, ncols, fix, fmin, fmax, rkeys, ckeys, ph] =>
    match bit col, bit uni, scaler? sc, fmt? fm, nrows.toInt?, ncols.toInt?, fix.toInt?, fmin.toInt?, fmax.toInt?,
        decHexList rkeys, decHexList ckeys, phases? ph with
    | some c, some u, some k, some f, some nr, some nc, some fx, some mn, some mx, some rk, some ck, some phs =>
      withFmt f fun f => answer (renderHeat { color := c, unicode := u } k f nr nc fx mn mx rk ck phs)
    | _, _, _, _, _, _, _, _, _, _, _, _ => "bad-args"
  | ["render", "spark", col, uni, sc, fm, nrows, ncols, trunc, rkeys, ckeys, ph] =>
    match bit col, bit uni, scaler? sc, fmt? fm, nrows.toInt?, ncols.toInt?, bit trunc, decHexList rkeys, decHexList ckeys, phases? ph with
    | some c, some u, some k, some f, some nr, some nc, some tr, some rk, some ck, some phs =>
      withFmt f fun f => answer (renderSpark { color := c, unicode := u } k f nr nc tr rk ck phs)
    | _, _, _, _, _, _, _, _, _, _ => "bad-args"
  | _ => "bad-op"

end Rare.Drv.C14
