import Rare.Base.Proto
import Rare.Model.Expr.Funcs.TimeW
/-!
The time world of the `exprt` op of C08, decoded from one blob field (no spaces):

    records joined by `/`, fields by `,`; `-` = the empty world
    Z,<name hex>,<ok 0|1>,<zones>,<periods>   a zone name as written in the template: does time.LoadLocation accept it,
                                              its zone list `name:off|…` (`.` = none) and the periods of `Location.lookup`
                                              `start:end:abbr:off|…` (`a` = alpha, `o` = omega) the harness chose to supply
    L,<zones>,<periods>                       the same for time.Local
    D,<str hex>,<layout hex | !>              dateparse.ParseFormat(str)   (`!` = error)
    A,<zone key hex>,<str hex>,<unix>:<nsec>:<off> | !     dateparse.ParseIn(str, loc)  (key: `-` UTC, `Local`, or the name)
    R,<0|1>                                   1 = every `cache` stage of the template meets at most one layout, so
                                              "detect on every evaluation" is what the stage's cell does

Everything beside the tables answers `unmodelled …`: an instant outside the supplied periods (`zone-horizon`), a
string dateparse was not asked about (`dateparse-oracle`), a zone name without record (`tz-oracle`), the wall clock.
-/
namespace Rare.Drv.C08Time
open Rare Rare.Expr Rare.Proto Rare.Expr.Funcs.TimeW

structure ZoneTab where
  ok : Bool
  zones : List (Bytes × Int)
  periods : List (Int × Int × Bytes × Int)

structure Tables where
  named : List (Bytes × ZoneTab) := []
  loc : Option ZoneTab := none
  detect : List (Bytes × Option Bytes) := []
  any : List (Bytes × Bytes × Option AnyTime) := []
  reliable : Bool := true

def splitOnC (c : Char) (s : String) : List String := s.splitOn (String.singleton c)

def decBound (s : String) : Option Int :=
  if s = "a" then some alpha else if s = "o" then some omega else s.toInt?

def decZones (s : String) : Option (List (Bytes × Int)) :=
  if s = "." then some [] else
  (splitOnC '|' s).mapM fun e =>
    match splitOnC ':' e with
    | [n, o] => do let nb ← Hex.dec n; let ov ← o.toInt?; pure (nb, ov)
    | _ => none

def decPeriods (s : String) : Option (List (Int × Int × Bytes × Int)) :=
  if s = "." then some [] else
  (splitOnC '|' s).mapM fun e =>
    match splitOnC ':' e with
    | [a, b, n, o] => do
      let av ← decBound a; let bv ← decBound b; let nb ← Hex.dec n; let ov ← o.toInt?
      pure (av, bv, nb, ov)
    | _ => none

def decRecord (t : Tables) (r : String) : Option Tables :=
  match splitOnC ',' r with
  | ["Z", n, ok, zs, ps] => do
    let nb ← Hex.dec n; let z ← decZones zs; let p ← decPeriods ps
    pure { t with named := t.named ++ [(nb, ⟨ok == "1", z, p⟩)] }
  | ["L", zs, ps] => do
    let z ← decZones zs; let p ← decPeriods ps
    pure { t with loc := some ⟨true, z, p⟩ }
  | ["D", s, l] => do
    let sb ← Hex.dec s
    let lv ← (if l = "!" then some none else (Hex.dec l).map some)
    pure { t with detect := t.detect ++ [(sb, lv)] }
  | ["A", k, s, v] => do
    let kb ← Hex.dec k; let sb ← Hex.dec s
    let av ← (if v = "!" then some none else
      match splitOnC ':' v with
      | [u, n, o] => do let uv ← u.toInt?; let nv ← n.toInt?; let ov ← o.toInt?; pure (some ⟨uv, nv, ov⟩)
      | _ => none)
    pure { t with any := t.any ++ [(kb, sb, av)] }
  | ["R", b] => some { t with reliable := b == "1" }
  | _ => none

def decTables (s : String) : Option Tables :=
  if s = "-" then some {} else (splitOnC '/' s).foldlM decRecord {}

def tabOf (t : Tables) : C18.Loc → Option ZoneTab
  | .utc => none
  | .local => t.loc
  | .named n => (t.named.find? (·.1 == n)).map (·.2)

def locKey : C18.Loc → Bytes
  | .utc => []
  | .local => C18.asc "Local"
  | .named n => n

def world (t : Tables) : TimeWorld :=
  { loadOk := fun tzf => (t.named.find? (·.1 == tzf)).map (·.2.ok),
    zones := fun loc => match tabOf t loc with
      | some tab => tab.zones
      | none => [],
    lookup := fun loc u => match tabOf t loc with
      | none => .panic "unmodelled:tz-oracle"
      | some tab =>
        match tab.periods.find? (fun p => decide (p.1 ≤ u) && (decide (u < p.2.1) || decide (p.2.1 = omega))) with
        | some p => .ret ⟨p.2.2.1, p.2.2.2, p.1, p.2.1⟩
        | none => .panic "unmodelled:zone-horizon",
    detect := fun s =>
      if !t.reliable then .panic "unmodelled:cache-state"
      else match t.detect.find? (·.1 == s) with
        | some e => .ret e.2
        | none => .panic "unmodelled:dateparse-oracle",
    parseAny := fun loc s => match t.any.find? (fun e => e.1 == locKey loc && e.2.1 == s) with
      | some e => .ret e.2.2
      | none => .panic "unmodelled:dateparse-oracle",
    nowBuild := .panic "unmodelled:wall-clock",
    nowLive := .panic "unmodelled:wall-clock",
    nowDelta := .panic "unmodelled:wall-clock",
    lib := fun r => .panic ("unmodelled:" ++ r) }

end Rare.Drv.C08Time
