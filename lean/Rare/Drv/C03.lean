import Rare.Base.Proto
import Rare.Model.C03
/-!
Line-protocol driver for C03 (see `harness/corr/c03.go` and `extra/C03.py`).

  csv <rows>                          the encoding/csv writer model on arbitrary rows, re-read by `parseCsv`
  agg counter <hist>                  sequential reference CSV of histo
  agg table <delim> <hist>            … of table / heatmap
  agg spark <delim> <ncols> <hist>    … of spark with a name-ordered column sort (truncation to ncols)
  agg subkey <hist>                   … of bars
  parse <text>                        `parseCsv`
  exit <readErrors> <aggNil> <parseErrors> <matched>

rows: records joined by `|`, a record = hex fields joined by `;` (`.` = no field), `_` = no record.
-/
namespace Rare.Drv.C03
open Rare Rare.C03 Rare.C07 Rare.Proto

def encRows (rows : List (List Bytes)) : String :=
  if rows.isEmpty then "_" else "|".intercalate (rows.map hexList)

def decRows (s : String) : Option (List (List Bytes)) :=
  if s = "_" then some [] else (s.splitOn "|").mapM decHexList

/-- replace CR LF by LF (what Go's `encoding/csv` Reader does to every input line, also inside quotes) -/
def dropCrLf : Bytes → Bytes
  | 13 :: 10 :: r => 10 :: dropCrLf r
  | b :: r => b :: dropCrLf r
  | [] => []

/-- How Go's `encoding/csv` Reader (FieldsPerRecord = -1) sees a text that `parseCsv` reads as `rows`:
empty lines are skipped and CR LF inside a quoted field arrives as LF. -/
def goReaderView (rows : List (List Bytes)) : List (List Bytes) :=
  (rows.filter fun r => r ≠ [[]]).map fun r => r.map dropCrLf

def handle : List String → String
  | ["csv", rows] =>
    match decRows rows with
    | some rs =>
      let text := writeCsv rs
      let back := parseCsv text
      s!"ok {Hex.enc text} {encRows (goReaderView back)} {if back = rs then 1 else 0}"
    | none => "bad-args"
  | ["agg", "counter", h] =>
    match decHexList h with
    | some hs => s!"ok {Hex.enc (refCounterCsv hs)}"
    | none => "bad-args"
  | ["agg", "table", d, h] =>
    match Hex.dec d, decHexList h with
    | some d, some hs => if d.isEmpty then "unmodelled empty-delimiter" else s!"ok {Hex.enc (refTableCsv d hs)}"
    | _, _ => "bad-args"
  | ["agg", "spark", d, n, h] =>
    match Hex.dec d, nat? n, decHexList h with
    | some d, some n, some hs => if d.isEmpty then "unmodelled empty-delimiter" else s!"ok {Hex.enc (refSparkCsv d n hs)}"
    | _, _, _ => "bad-args"
  | ["agg", "subkey", h] =>
    match decHexList h with
    | some hs =>
      match refSubKeyCsv hs with
      | .ok t => s!"ok {Hex.enc t}"
      | .error _ => "panic"
    | none => "bad-args"
  | ["parse", t] =>
    match Hex.dec t with
    | some t => s!"ok {encRows (parseCsv t)}"
    | none => "bad-args"
  | ["exit", re, an, pe, m] =>
    match int? re, nat? an, nat? pe, nat? m with
    | some re, some an, some pe, some m => s!"ok {determineErrorState re (an != 0) pe m}"
    | _, _, _, _ => "bad-args"
  | _ => "bad-op"

end Rare.Drv.C03
