import Rare.Base.Proto
namespace Rare.Drv.C03

def handle : List String → String
  | _ => "bad-op"

end Rare.Drv.C03
