import Rare.Base.Proto
import Rare.Base.F64Str
import Rare.Model.C03
import Rare.Model.C03Reduce
import Rare.Model.C03Analyze
import Rare.Model.C03Cmd
import Rare.Drv.Expr
/-!
Line-protocol driver for C03 (see `harness/corr/c03.go` and `extra/C03.py`).

  csv <rows>                          the encoding/csv writer model on arbitrary rows, re-read by `parseCsv`
  agg counter <hist>                  sequential reference CSV of histo
  agg table <delim> <hist>            … of table / heatmap
  agg spark <delim> <ncols> <hist>    … of spark with a name-ordered column sort (truncation to ncols)
  agg subkey <hist>                   … of bars
  parse <text>                        `parseCsv`
  exit <readErrors> <aggNil> <parseErrors> <matched>
  tbl <delim> <ncols> <samples> <renders> [<sort-cols>]
                                      the table aggregator driven through samples and the trim step of spark's render
                                      callback (a render after every sample count in <renders>), final render, CSV
  sbv <name>                          `helpers.SortsByValue(name)` and what `helpers.BuildSorter(name)` builds (signature of the
                                      comparator on four row pairs, `err` for a rejected name)
  cmd <name> <W,R,B,K> <flags> <n> <atleast> <ncols> <sort> <delim> <nomatch> <files>
                                      histo / table / heatmap / spark / bars end to end (`Model/C03Cmd.lean`): the tuning is
                                      ignored – the answer is the sequential reference of the concatenated files
  reducec <W,R,B,K> <flags> <initial> <sort> <groups> <accums> <nomatch> <files>
                                      `rare reduce` with order-insensitive accumulators on several files under free tuning:
                                      the answer is `reduce` on the concatenated elements
  reduce <flags> <initial> <sort> <groups> <accums> <nomatch> <elements>
                                      `rare reduce` end to end (`Rare.C03.reduceRun`): set-up, sampling, final render
                                      (as text with runs of spaces squashed), `--csv` text, exit status

rows: records joined by `|`, a record = hex fields joined by `;` (`.` = no field), `_` = no record.
-/
namespace Rare.Drv.C03
open Rare Rare.C03 Rare.C07 Rare.Proto

def encRows (rows : List (List Bytes)) : String :=
  if rows.isEmpty then "_" else "|".intercalate (rows.map hexList)

def decRows (s : String) : Option (List (List Bytes)) :=
  if s = "_" then some [] else (s.splitOn "|").mapM decHexList

/-- replace CR LF by LF (what Go's `encoding/csv` Reader does to every input line, also inside quotes) -/
def dropCrLf : Bytes → Bytes
  | 13 :: 10 :: r => 10 :: dropCrLf r
  | b :: r => b :: dropCrLf r
  | [] => []

/-- How Go's `encoding/csv` Reader (FieldsPerRecord = -1) sees a text that `parseCsv` reads as `rows`:
empty lines are skipped and CR LF inside a quoted field arrives as LF. -/
def goReaderView (rows : List (List Bytes)) : List (List Bytes) :=
  (rows.filter fun r => r ≠ [[]]).map fun r => r.map dropCrLf

/-! ### `reduce` -/

/-- `sorting.ByContextual()` on keys none of which is a weekday or month name: the closure falls back to
`ByNameSmart` at its first comparison (`strconv.ParseFloat` = `F64.parseFloat`, values compared through `F64.key`). -/
def parseOrd (k : Bytes) : C13.PF :=
  match F64.parseFloat k with
  | none => .err
  | some x => if x.isNaN then .nan else .val x.key

def smartLess : Bytes → Bytes → Bool := C13.byNameSmart parseOrd

/-- every run of spaces becomes one space, leading and trailing spaces go -/
def spaceWords : Bytes → Bytes → List Bytes
  | [], cur => if cur = [] then [] else [cur]
  | b :: r, cur => if b = 32 then (if cur = [] then spaceWords r [] else cur :: spaceWords r []) else spaceWords r (cur ++ [b])

def squash (line : Bytes) : Bytes :=
  match spaceWords line [] with
  | [] => []
  | w :: r => r.foldl (fun acc x => acc ++ 32 :: x) w

/-- `TableWriter` with `--rows 20 --cols 10`: rows beyond the 20th are dropped, cells beyond the 10th; every cell
is followed by padding and one space. -/
def tableText (t : ReduceTable) : List Bytes :=
  let line (cells : List Bytes) : Bytes := (cells.take 10).flatMap fun c => c ++ [32]
  ((t.header :: t.rows).take 20).map line ++ [t.footer]

def outText : ReduceOut → List Bytes
  | .table t => tableText t
  | .simple lines => lines

def joinLines : List Bytes → Bytes
  | [] => []
  | [l] => l
  | l :: r => l ++ 10 :: joinLines r

inductive TplRes
  | ok
  | panic
  | unmodelled (n : String)

inductive CompileRes
  | stage (s : Rare.Expr.Stage)
  | errors
  | panic
  | unmodelled (n : String)

/-- `funclib.NewKeyBuilder().Compile(template)` as far as `AccumulatingGroup` looks at it (shared expression
model, standard registry, optimiser on). -/
def compileT (t : Bytes) : CompileRes :=
  match Rare.Drv.Expr.decodeTemplate t with
  | none => .panic
  | some tc =>
    match Rare.Expr.compile Rare.Drv.Expr.registry true tc with
    | .error m => if m.startsWith "unmodelled:" then .unmodelled (m.drop 11).toString else .panic
    | .ok (stages, errs) =>
      match Rare.Drv.Expr.unmodelledTag errs with
      | some n => .unmodelled n
      | none => if errs.isEmpty then .stage (Rare.Expr.buildKey stages) else .errors

def checkTemplates (ts : List Bytes) : TplRes :=
  ts.foldl (fun acc t =>
    match acc with
    | .ok =>
      match compileT t with
      | .panic => .panic
      | .unmodelled n => .unmodelled n
      | _ => .ok
    | r => r) .ok

def compileOpt (t : Bytes) : Option Rare.Expr.Stage :=
  match compileT t with
  | .stage st => some st
  | _ => none

def runErr (m : String) : String :=
  if m.startsWith "unmodelled:" then "unmodelled " ++ (m.drop 11).toString else "panic"

def reduceOp (flags : Nat) (initial : Bytes) (sort : Option Bytes) (groups accums : List Bytes) (nMiss : Nat)
    (elements : List Bytes) : String :=
  let a : ReduceArgs :=
    { accum := accums, group := groups, initial := if flags / 4 % 2 = 1 then initial else [48],
      table := flags % 2 = 1, sort := sort.getD [], sortReverse := flags / 2 % 2 = 1 }
  let templates := groups.map (fun g => (parseKeyValue g).2) ++ accums.map (fun e => (parseKeyValInitial e a.initial).2.2) ++
    (if a.sort ≠ [] then [a.sort] else [])
  match checkTemplates templates with
  | .panic => "panic"
  | .unmodelled n => "unmodelled " ++ n
  | .ok =>
    match reduceSetup compileOpt a with
    | .error c => s!"fatal {c}"
    | .ok (s0, maxKeylen) =>
      let cnt : Counters := ⟨elements.length, elements.length + nMiss, 0⟩
      match reduceRun a maxKeylen s0 smartLess elements (fun s => akeys s.data) cnt 0 with
      | .error m => runErr m
      | .ok r => s!"ok {r.exit} {Hex.enc r.csv} {Hex.enc (joinLines ((outText r.out).map squash))}"

/-! ### `analyze` -/

def analyzeOp (flags : Nat) (qs : List Bytes) (nMiss : Nat) (samples : List Bytes) : String :=
  let a : AnalyzeArgs := { extra := flags % 2 = 1, reverse := flags / 2 % 2 = 1,
                           quantiles := if flags / 4 % 2 = 1 && !qs.isEmpty then qs else ({} : AnalyzeArgs).quantiles }
  match parseQuantiles a.quantiles with
  | .error c => s!"fatal {c}"
  | .ok quantiles =>
    let cnt : Counters := ⟨samples.length, samples.length + nMiss, 0⟩
    match analyzeRun a quantiles samples (C07.analyzeF a.reverse) cnt 0 with
    | .error _ => "panic"
    | .ok r => s!"ok {r.exit} {Hex.enc (joinLines r.lines)}"

/-! ### `cmd`: the five counting commands -/

def cmdAnswer (csvStdout : Bool) (o : CmdOut) : String :=
  if csvStdout then s!"ok {o.exit} {Hex.enc o.csv} -"
  else s!"ok {o.exit} {Hex.enc o.csv} {Hex.enc (joinLines (o.lines.map squash))}"

def cmdOp (name : String) (flags n : Nat) (atLeast : Int) (ncols : Nat) (sort delim : Bytes) (nMiss : Nat)
    (files : List (List Bytes)) : String :=
  -- a line whose extracted key is empty counts as ignored (extractor.go: `len(extractedKey) > 0`)
  let samples := files.flatten.filter (· ≠ [])
  let k : Counters := ⟨samples.length, files.flatten.length + nMiss, files.flatten.length - samples.length⟩
  let csvStdout := flags / 4 % 2 = 1
  match name with
  | "histo" =>
    let c := Counter.run samples
    match pureSortLess sort with
    | none => "unmodelled sorter"
    | some less => cmdAnswer csvStdout (histoCmd isortFn less (akeys c.items) n atLeast (flags % 2 = 1) c k 0)
  | "bars" =>
    match SubKeyCounter.run samples with
    | .error _ => "panic"
    | .ok s => cmdAnswer csvStdout (barsCmd isortFn (akeys s.items) s k 0)
  | "spark" =>
    if delim.isEmpty then "unmodelled empty-delimiter"
    else
      -- `--sort-cols text|numeric|value`, any spelling and modifier: the trim keeps the last `--cols` columns of THAT order
      match sparkCmdBy ncols (flags / 2 % 2 = 1) sort (Table.run delim samples) k 0 with
      | none => "unmodelled sorter"
      | some o => cmdAnswer csvStdout o
  | _ =>
    if delim.isEmpty then "unmodelled empty-delimiter"
    else
      let t := Table.run delim samples
      cmdAnswer csvStdout (tableCmd isortFn (akeys t.cols) (akeys t.rows) t k 0)

/-! ### `tbl`: the table aggregator under the render callback of `spark` -/

def natList? (s : String) : Option (List Nat) :=
  if s = "." then some [] else (s.splitOn ",").mapM nat?

def tblOp (d : Bytes) (ncols : Nat) (samples : List Bytes) (renders : List Nat) (sortCols : Bytes := [116, 101, 120, 116]) : String :=
  match builtSorter C13.lowerK sortCols with
  | none => "fatal 2"
  | some _ =>
    match pureSortLess sortCols with
    | none => "unmodelled sorter"
    | some less =>
      -- the render callback's `if !noTruncate && !helpers.SortsByValue(sortCols)`: a value-ordered sort never trims;
      -- otherwise every render keeps the last `--cols` columns of `colSorter = BuildSorter(sortCols)` (`text`, `numeric`, reversed …)
      let t := if sortsByValue sortCols then Table.run d samples
               else sparkTrimBy less ncols (sparkRunBy less ncols d (sparkScript 0 samples renders))
      let csv := writeCsv (tableCsvRows isortFn (akeys t.cols) (akeys t.rows) t)
      let mm := t.computeMinMax
      s!"ok {Hex.enc csv} {t.rows.length} {t.cols.length} {t.sum} {mm.1} {mm.2} {t.errors}"

def sbvOp (name : Bytes) : String :=
  let v := if sortsByValue name then 1 else 0
  match builtSorter C13.lowerK name with
  | none => s!"ok {v} err"
  | some (byValue, rev) => s!"ok {v} {String.join ((sorterSignature byValue rev).map fun b => if b then "1" else "0")}"

def handle : List String → String
  | ["cmd", name, _tune, fl, n, al, nc, srt, d, nm, files] =>
    match nat? fl, nat? n, int? al, nat? nc, Hex.dec srt, Hex.dec d, nat? nm, (files.splitOn "|").mapM decHexList with
    | some fl, some n, some al, some nc, some srt, some d, some nm, some files => cmdOp name fl n al nc srt d nm files
    | _, _, _, _, _, _, _, _ => "bad-args"
  | ["sbv", name] =>
    match Hex.dec name with
    | some n => sbvOp n
    | none => "bad-args"
  | ["tbl", d, n, ss, rs, sc] =>
    match Hex.dec d, nat? n, decHexList ss, natList? rs, Hex.dec sc with
    | some d, some n, some ss, some rs, some sc => if d.isEmpty then "unmodelled empty-delimiter" else tblOp d n ss rs sc
    | _, _, _, _, _ => "bad-args"
  | ["tbl", d, n, ss, rs] =>
    match Hex.dec d, nat? n, decHexList ss, natList? rs with
    | some d, some n, some ss, some rs => if d.isEmpty then "unmodelled empty-delimiter" else tblOp d n ss rs
    | _, _, _, _ => "bad-args"
  | ["analyze", fl, qs, nm, els] =>
    match nat? fl, decHexList qs, nat? nm, decHexList els with
    | some fl, some qs, some nm, some els => analyzeOp fl qs nm els
    | _, _, _, _ => "bad-args"
  | ["analyze-spec", els] =>
    match decHexList els with
    | some els =>
      match specMeanText (C03.parsedValues' els) with
      | some t => s!"ok {Hex.enc t}"
      | none => "unmodelled no-finite-mean"
    | none => "bad-args"
  | ["reducec", _tune, fl, ini, srt, gs, acs, nm, files] =>
    -- free tuning, several files, order-insensitive accumulators: the sequential reference of the concatenated elements
    match nat? fl, Hex.dec ini, (if srt = "-" then some none else (Hex.dec srt).map some), decHexList gs, decHexList acs,
        nat? nm, (files.splitOn "|").mapM decHexList with
    | some fl, some ini, some srt, some gs, some acs, some nm, some files => reduceOp fl ini srt gs acs nm files.flatten
    | _, _, _, _, _, _, _ => "bad-args"
  | ["reduce", fl, ini, srt, gs, acs, nm, els] =>
    match nat? fl, Hex.dec ini, (if srt = "-" then some none else (Hex.dec srt).map some), decHexList gs, decHexList acs,
        nat? nm, decHexList els with
    | some fl, some ini, some srt, some gs, some acs, some nm, some els => reduceOp fl ini srt gs acs nm els
    | _, _, _, _, _, _, _ => "bad-args"
  | ["csv", rows] =>
    match decRows rows with
    | some rs =>
      let text := writeCsv rs
      let back := parseCsv text
      s!"ok {Hex.enc text} {encRows (goReaderView back)} {if back = rs then 1 else 0}"
    | none => "bad-args"
  | ["agg", "counter", h] =>
    match decHexList h with
    | some hs => s!"ok {Hex.enc (refCounterCsv hs)}"
    | none => "bad-args"
  | ["agg", "table", d, h] =>
    match Hex.dec d, decHexList h with
    | some d, some hs => if d.isEmpty then "unmodelled empty-delimiter" else s!"ok {Hex.enc (refTableCsv d hs)}"
    | _, _ => "bad-args"
  | ["agg", "spark", d, n, h] =>
    match Hex.dec d, nat? n, decHexList h with
    | some d, some n, some hs => if d.isEmpty then "unmodelled empty-delimiter" else s!"ok {Hex.enc (refSparkCsv d n hs)}"
    | _, _, _ => "bad-args"
  | ["agg", "subkey", h] =>
    match decHexList h with
    | some hs =>
      match refSubKeyCsv hs with
      | .ok t => s!"ok {Hex.enc t}"
      | .error _ => "panic"
    | none => "bad-args"
  | ["parse", t] =>
    match Hex.dec t with
    | some t => s!"ok {encRows (parseCsv t)}"
    | none => "bad-args"
  | ["exit", re, an, pe, m] =>
    match int? re, nat? an, nat? pe, nat? m with
    | some re, some an, some pe, some m => s!"ok {determineErrorState re (an != 0) pe m}"
    | _, _, _, _ => "bad-args"
  | _ => "bad-op"

end Rare.Drv.C03
