import Rare.Base.Proto
import Rare.Model.Expr.Std
import Rare.Gen.Tables
import Rare.Model.C09Utf8
/-!
Shared `expr` op of the expression-language properties (C08–C11, C17, C19):

  expr <opt 0|1> <template: hex of the RAW bytes of the Go string> <elements: hex list> <keys: hex list k;v;k;v…>

answers `ok errs=<kind@index:ctx,…> val=<hex>`, `panic` (the model predicts a Go panic at
compile or evaluation time) or `unmodelled <function>`.
-/
namespace Rare.Drv.Expr
open Rare Rare.Expr Rare.Proto

/-- `[]rune(template)`: the template field carries the raw bytes handed to the real `Compile`; the model's
    own UTF-8 decoder (`Rare.C09.decodeRunes`: one U+FFFD per invalid byte, `Rare/Model/C09Utf8.lean`) turns
    them into runes.  Total – the `Option` is kept for the callers' sake. -/
def decodeTemplate (b : Bytes) : Option (List Char) :=
  some (Rare.C09.decodeRunes b)

def mkCtx (elems : List Bytes) (keys : List Bytes) : Ctx :=
  let rec pairs : List Bytes → List (Bytes × Bytes)
    | k :: v :: r => (k, v) :: pairs r
    | _ => []
  let kv := pairs keys
  { getMatch := fun i => if i < 0 then [] else elems.getD i.toNat [],
    getKey := fun k => match kv.find? (·.1 == k) with
      | some p => p.2
      | none => [] }

def kindStr : ErrKind → String
  | .unterminated => "unterminated"
  | .emptyStatement => "empty"
  | .missingFunction => "missing"
  | .func t => "func." ++ t

def errsStr (es : List CErr) : String :=
  if es.isEmpty then "." else
  ",".intercalate (es.map fun e => s!"{kindStr e.kind}@{e.index}:{Hex.enc (encodeRunes e.context)}")

def registry : Registry := mkRegistry stdTable Gen.stdFunctionNames

def panicAns (m : String) : String :=
  if m.startsWith "unmodelled:" then "unmodelled " ++ (m.drop 11).toString else "panic"

def unmodelledTag (es : List CErr) : Option String :=
  es.findSome? fun e => match e.kind with
    | .func t => if t.startsWith "unmodelled:" then some (t.drop 11).toString else none
    | _ => none

def evalWith (reg : Registry) (opt : Bool) (t : List Char) (ctx : Ctx) : String :=
  match compile reg opt t with
  | .error m => panicAns m
  | .ok (stages, errs) =>
    match unmodelledTag errs with
    | some n => "unmodelled " ++ n
    | none =>
      match (buildKey stages).run ctx with
      | .error m => panicAns m
      | .ok v => s!"ok errs={errsStr errs} val={Hex.enc v}"

def handle : List String → Option String
  | ["expr", o, t, el, ks] =>
    some <| match Hex.dec t, decHexList el, decHexList ks with
    | some tb, some elems, some keys =>
      match decodeTemplate tb with
      | some tc => evalWith registry (o == "1") tc (mkCtx elems keys)
      | none => "bad-args"
    | _, _, _ => "bad-args"
  | _ => none

end Rare.Drv.Expr
