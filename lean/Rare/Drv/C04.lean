import Rare.Base.Proto
import Rare.Model.C04
import Rare.Model.C04Sync
import Rare.Model.C06Inflate
import Rare.Model.C04Rooms
namespace Rare.Drv.C04
open Rare Rare.C04 Rare.Proto

def parseStep (s : String) : Option Step :=
  match s.splitOn ":" with
  | [w, e] => do
    let n ← w.toNat?
    let err ← (match e with
      | "n" => some none
      | "e" => some (some RErr.eof)
      | "f" => some (some RErr.fail)
      | _ => none)
    pure ⟨n, err⟩
  | _ => none

def parseScript (s : String) : Option (List Step) :=
  if s = "." then some [] else (s.splitOn ",").mapM parseStep

def render (toks : List (View × Bytes)) (done : Bool) (errs : Nat) (arrays : List Bytes) : String :=
  s!"ok errs={errs} done={if done then 1 else 0} t={hexList (toks.map (·.2))} r={hexList (toks.map fun t => readView arrays t.1)}"

/-! run-length coded byte strings (`big` op): `n*hh` items joined by `,`, `-` = empty; lists joined by `;`, `.` = empty list.
    Both sides print maximal runs, so the text is canonical. -/

def parseRleItem (s : String) : Option Bytes :=
  match s.splitOn "*" with
  | [n, h] => do
    let k ← n.toNat?
    match Hex.dec h with
    | some [b] => some (List.replicate k b)
    | _ => none
  | _ => none

def parseRle (s : String) : Option Bytes :=
  if s = "-" then some [] else ((s.splitOn ",").mapM parseRleItem).map List.flatten

def rleItem (b : UInt8) (n : Nat) : String := s!"{n}*{Hex.enc [b]}"

/-- tail recursive: `acc` holds the finished runs (reversed), `cur` the open run -/
def rleGo : Bytes → UInt8 → Nat → List String → List String
  | [], b, n, acc => (rleItem b n :: acc).reverse
  | x :: r, b, n, acc => if x = b then rleGo r b (n + 1) acc else rleGo r x 1 (rleItem b n :: acc)

def rle : Bytes → String
  | [] => "-"
  | b :: r => ",".intercalate (rleGo r b 1 [])

def rleList (l : List Bytes) : String := if l.isEmpty then "." else ";".intercalate (l.map rle)

def renderBig (toks : List (View × Bytes)) (done : Bool) (errs : Nat) (arrays : List Bytes) : String :=
  s!"ok errs={errs} done={if done then 1 else 0} t={rleList (toks.map (·.2))} r={rleList (toks.map fun t => readView arrays t.1)}"

def renderNoCb (toks : List (View × Bytes)) (done : Bool) (arrays : List Bytes) : String :=
  s!"ok done={if done then 1 else 0} t={hexList (toks.map (·.2))} r={hexList (toks.map fun t => readView arrays t.1)}"

/-- `imm <bufSize> <hex data> <script>` / `buf <maxBufLen> <hex data> <script>` -/
def handle : List String → String
  | ["imm", bs, d, sc] =>
    match bs.toNat?, Hex.dec d, parseScript sc with
    | some bufSize, some data, some script =>
      let fuel := data.length + script.length + 3
      let r := Imm.scanAll fuel fuel (Imm.init bufSize ⟨data, script⟩)
      render r.1 r.2.1 r.2.2.errs r.2.2.arrays
    | _, _, _ => "bad-args"
  | ["buf", bs, d, sc] =>
    match bs.toNat?, Hex.dec d, parseScript sc with
    | some m, some data, some script =>
      if m ≤ 1 then "panic" else   -- NewBuffered: panic("Buf length must be > 1")
      let fuel := data.length + script.length + 3
      let r := Buf.scanAll fuel fuel (Buf.init m ⟨data, script⟩)
      render r.1 r.2.1 r.2.2.errs r.2.2.arrays
    | _, _, _ => "bad-args"
  | ["dropcr", d] =>
    match Hex.dec d with
    | some data => s!"ok {Hex.enc (dropCR data)} unchanged=1"
    | none => "bad-args"
  | ["maxi", a, b] =>
    match a.toNat?, b.toNat? with
    | some x, some y => s!"ok {max x y}"
    | _, _ => "bad-args"
  | ["rl", kind, bs, d, sc] =>
    -- the ReadLine() API: same lines; `z` = Reads issued with an empty destination (never: `grown_spec` /
    -- the fill-loop guard), `again` = a finished scanner keeps answering nil (`scan_final`, `bscan_final`)
    match bs.toNat?, Hex.dec d, parseScript sc with
    | some n, some data, some script =>
      let fuel := data.length + script.length + 3
      if kind ≠ "imm" && n ≤ 1 then "panic" else
      if kind = "imm" then
        let r := Imm.scanAll fuel fuel (Imm.init n ⟨data, script⟩)
        render r.1 r.2.1 r.2.2.errs r.2.2.arrays ++ s!" z=0 again={if r.2.1 then 1 else 0}"
      else
        let r := Buf.scanAll fuel fuel (Buf.init n ⟨data, script⟩)
        render r.1 r.2.1 r.2.2.errs r.2.2.arrays ++ s!" z=0 again={if r.2.1 then 1 else 0}"
    | _, _, _ => "bad-args"
  | ["sync", bsz, d, sc] =>
    match bsz.toNat?, Hex.dec d, parseScript sc with
    | some batchSize, some data, some script =>
      let o := syncRun batchSize data script
      let arrays := o.final.arrays
      -- each batch rendered from what its line views read back at the END of the scan (late reading)
      let bs := o.batches.map fun b => s!"{b.start}:src:{hexList (b.lines.map fun l => readView arrays l.1)}"
      let atSend := o.batches.map fun b => s!"{b.start}:src:{hexList (b.lines.map (·.2))}"
      s!"ok errs={o.final.errs} stable={if bs = atSend then 1 else 0} b={if bs.isEmpty then "." else "|".intercalate bs}"
    | _, _, _ => "bad-args"
  | ["big", kind, bs, d, sc] =>
    -- the same scanners over run-length coded data: real sizes (the batcher's 128 KiB buffer, lines longer than it)
    match bs.toNat?, parseRle d, parseScript sc with
    | some n, some data, some script =>
      let fuel := data.length + script.length + 3
      if kind = "imm" then
        let r := Imm.scanAll fuel fuel (Imm.init n ⟨data, script⟩)
        renderBig r.1 r.2.1 r.2.2.errs r.2.2.arrays
      else if kind = "buf" then
        if n ≤ 1 then "panic" else
        let r := Buf.scanAll fuel fuel (Buf.init n ⟨data, script⟩)
        renderBig r.1 r.2.1 r.2.2.errs r.2.2.arrays
      else if kind = "sync" then
        let o := syncRun n data script
        let arrays := o.final.arrays
        let bs := o.batches.map fun b => s!"{b.start}:{rleList (b.lines.map fun l => readView arrays l.1)}"
        let atSend := o.batches.map fun b => s!"{b.start}:{rleList (b.lines.map (·.2))}"
        s!"ok errs={o.final.errs} stable={if bs = atSend then 1 else 0} b={if bs.isEmpty then "." else "|".intercalate bs}"
      else "bad-args"
    | _, _, _ => "bad-args"
  | ["nocb", kind, bs, d, sc] =>
    -- no OnError callback installed (`s.onError != nil` guards the call): same lines, nothing to count
    match bs.toNat?, Hex.dec d, parseScript sc with
    | some n, some data, some script =>
      let fuel := data.length + script.length + 3
      if kind = "imm" then
        let r := Imm.scanAll fuel fuel (Imm.init n ⟨data, script⟩)
        renderNoCb r.1 r.2.1 r.2.2.arrays
      else if n ≤ 1 then "panic" else
        let r := Buf.scanAll fuel fuel (Buf.init n ⟨data, script⟩)
        renderNoCb r.1 r.2.1 r.2.2.arrays
    | _, _, _ => "bad-args"
  | ["conc", kind, bs, _workers, d, sc] =>
    -- held slices under concurrent consumers: nothing a consumer reads ever differs from the line it was given
    -- (`held_slices_intact_at_every_call`, `held_slice_survives_every_step`); the line count is the model's
    match bs.toNat?, parseRle d, parseScript sc with
    | some n, some data, some script =>
      let fuel := data.length + script.length + 3
      if kind = "imm" then
        s!"ok bad=0 lines={(Imm.scanAll fuel fuel (Imm.init n ⟨data, script⟩)).1.length}"
      else if kind = "bat" then
        s!"ok bad=0 lines={(Imm.scanAll fuel fuel (Imm.init Rare.Gen.readAheadBufferSize ⟨data, script⟩)).1.length}"
      else if kind = "buf" then
        if n ≤ 1 then "panic" else
        s!"ok bad=0 lines={(Buf.scanAll fuel fuel (Buf.init n ⟨data, script⟩)).1.length}"
      else "bad-args"
    | _, _, _ => "bad-args"
  | ["scr", kind, bs, d, sc] =>
    -- a reader that scribbles over the unused part of its destination (allowed by io.Reader): the model's `Read`
    -- appends the reported bytes only, so the answer is the one of `imm` / `buf`
    match bs.toNat?, Hex.dec d, parseScript sc with
    | some n, some data, some script =>
      let fuel := data.length + script.length + 3
      if kind = "imm" then
        let r := Imm.scanAll fuel fuel (Imm.init n ⟨data, script⟩)
        render r.1 r.2.1 r.2.2.errs r.2.2.arrays
      else if n ≤ 1 then "panic" else
        let r := Buf.scanAll fuel fuel (Buf.init n ⟨data, script⟩)
        render r.1 r.2.1 r.2.2.errs r.2.2.arrays
    | _, _, _ => "bad-args"
  | ["rooms", kind, bs, d, sc] =>
    -- `len(p)` of every `Read(p)` the scanner issues, in order (`read_destinations_logged`: the logging twin is the
    -- scanner); makes the allocation sizes observable: initial size, regrow size, refill size
    match bs.toNat?, Hex.dec d, parseScript sc with
    | some n, some data, some script =>
      let fuel := data.length + script.length + 3
      let fmt := fun (l : List Nat) => if l.isEmpty then "." else ",".intercalate (l.reverse.map toString)
      if kind = "imm" then
        let r := (Imm.init n ⟨data, script⟩).scanAllL fuel fuel []
        s!"ok rooms={fmt r.1} lines={r.2.1.length}"
      else if n ≤ 1 then "panic" else
        let r := (Buf.init n ⟨data, script⟩).scanAllL fuel fuel []
        s!"ok rooms={fmt r.1} lines={r.2.1.length}"
    | _, _, _ => "bad-args"
  | ["gz", _kind, _sz, file, _caps] =>
    -- the scanner over the reader `openFileToReader` returns for this file content with `-z`: the answer is computed
    -- from C06's decoder model (`scanner_over_opened_file`: the lines of what the gzip reader delivers, whatever the
    -- chunking; one OnError call iff the stream ends with a failure; `gunzip = none`: read as a plain file)
    match Hex.dec file with
    | some content =>
      let (mode, d, fails) := match Rare.C06.Gz.gunzip content with
        | some (d, fails) => ("gz", d, fails)
        | none => ("plain", content, false)
      let lines := hexList (splitLines d)
      s!"ok mode={mode} errs={if fails then 1 else 0} t={lines} r={lines}"
    | none => "bad-args"
  | ["split", d] =>
    match Hex.dec d with
    | some data => s!"ok {hexList (splitLines data)}"
    | none => "bad-args"
  | _ => "bad-op"

end Rare.Drv.C04
