import Rare.Base.Proto
import Rare.Model.C07NumF64
import Rare.Model.C07NumErr
import Rare.Model.C07NumHist
/-!
Driver ops of C07 for the numerical aggregator over the software binary64 model
(`Rare/Model/C07NumF64.lean`), see `harness/corr/c07numf64.go`:

  agg numf  <keep> <rev> <hist>  <qs>    Sample(string) per element: ParseFloat by `F64.parseFloat`
  agg numfv <keep> <rev> <bits>  <ps>    Samplef(float64) per element: bit patterns (16 hex digits, `;`-joined),
                                         quantile arguments as bit patterns (`,`-joined)
  agg numerr <e> <bits>                  the PROVED tolerances checked on concrete data: samples of magnitude ≤ 2^e
                                         (e < 0: the scaled class, `numErrCheckJ` / `num_f64_error_check_scaled_true`);
                                         answer `ok n=<count> mean=<0|1> var=<0|1>`: is Mean() / Variance() within
                                         `meanErrBound` / `varianceErrBound` of the exact rational statistics
                                         (`num_f64_error_check_true`: always 1 1 inside the class; the Go side
                                         checks the REAL aggregator with math/big)

  agg numh <keep> <rev> <ops> <ps>       ONE aggregator, calls in order (`;`-joined): 16 hex digits = Samplef(bits),
                                         `s<hex>` = Sample(string), `a` = Analyze() (sorts the stored values IN PLACE,
                                         `Model/C07NumHist.lean`); after every Analyze() `A median=… mode=… q[…] ranks[…]`
                                         (ranks = the whole view through Quantile((i+0.5)/n), at most 64).  The driver
                                         also checks every view against a fresh sort of ALL samples kept so far
                                         (`num_f64_analyze_any_schedule`) and answers `model-vs-spec …` if they differ.

After every sample: count, parse errors, and the exact bit patterns of Mean, Variance, StdDev, Min, Max
(`nan` for any NaN; the sign of a zero IS compared).  At the end Median, Mode and the quantiles – here both
zeros print as `0000000000000000`, because Go's sort leaves the order of `-0`/`+0` unspecified.

Every answer is computed by the software model.  The driver ALSO runs the same polymorphic definitions on
Lean's native `Float` and answers `model-vs-native …` when a moment differs, so a bug in the software
float shows up even if Go happened to agree with it (`Float` occurs only in drivers).
-/
namespace Rare.Drv.C07NumF64
open Rare Rare.C07 Rare.Proto

def hex16 (n : Nat) : String :=
  String.ofList ((List.range 16).map fun i => Hex.digit (n / 16 ^ (15 - i) % 16))

def showF (x : F64) : String := if x.isNaN then "nan" else hex16 x.bits
/-- both zeros alike -/
def showZ (x : F64) : String := if x.isZero then hex16 0 else showF x

def parseHex64 (s : String) : Option F64 :=
  if s.length != 16 then none
  else
    let r := s.toList.foldl (fun acc c => match acc, Hex.val c with
      | some a, some d => some (a * 16 + d)
      | _, _ => none) (some 0)
    r.map fun n => F64.ofBits (UInt64.ofNat n)

def native (x : F64) : Float := Float.ofBits x.toBits

def agree (m : F64) (n : Float) : Bool := if n.isNaN then m.isNaN else !m.isNaN && m.toBits == n.toBits

def floatOps : NumOps Float :=
  { add := (· + ·), sub := (· - ·), mul := (· * ·), div := (· / ·), ofNat := Float.ofNat,
    lt := fun a b => decide (a < b), zero := 0.0,
    maxVal := Float.ofBits 0x7FF0000000000000, negMaxVal := Float.ofBits 0xFFF0000000000000 }

def commaJoin (l : List String) : String := ",".intercalate l
def bar (l : List String) : String := " | ".intercalate l

def dumpState (s : NumF) : String :=
  s!"n={s.samples} e={s.parseErrors} mean={showF s.mean} var={showF s.varianceF} sd={showF s.stdDev} min={showF s.min} max={showF s.max}"

def nativeOK (s : NumF) (t : Numerical Float) : Bool :=
  agree s.mean t.mean && agree s.varianceF (t.varianceOf floatOps) && agree s.stdDev (t.varianceOf floatOps).sqrt &&
  agree s.min t.min && agree s.max t.max && agree s.variance t.variance

/-- `items`: per element either a parsed float or a parse error. -/
def run (keep rev : Bool) (items : List (Option F64)) (ps : List F64) : String :=
  let (final, _, outs, bad) := items.foldl (fun (acc : NumF × Numerical Float × List String × Bool) it =>
    let (s, t, outs, bad) := acc
    match it with
    | none =>
      let s := { s with parseErrors := s.parseErrors + 1 }
      (s, t, dumpState s :: outs, bad)
    | some v =>
      let s := NumF.samplef keep s v
      let t := Numerical.samplef floatOps false t (native v)
      (s, t, dumpState s :: outs, bad || !nativeOK s t)) (NumF.new, Numerical.new floatOps, [], false)
  if bad then "model-vs-native " ++ bar outs.reverse
  else
    let ordered := analyzeF rev final.values
    let qouts := ps.map fun p =>
      match quantileF ordered p with
      | .ok v => showZ v
      | .error _ => "panic"
    if qouts.contains "panic" then "panic"
    else
      let last := s!"median={showZ (medianF ordered)} mode={showZ (modeF ordered)} q[{commaJoin qouts}]"
      "ok " ++ bar (outs.reverse ++ [last])

/-- `a`, `s<hex>` or 16 hex digits. -/
def parseOp (w : String) : Option NumOp :=
  if w = "a" then some .analyze
  else if w.startsWith "s" then (Hex.dec (w.drop 1).toString).map NumOp.sample
  else (parseHex64 w).map NumOp.samplef

def maxRanks : Nat := 64

/-- The accessors of one `Analyze()` result. -/
def dumpView (view : List F64) (ps : List F64) : Option String :=
  let n := view.length
  let q := fun p => match quantileF view p with
    | .ok v => some (showZ v)
    | .error _ => none
  match ps.mapM q, ((List.range (min n maxRanks)).map (rankProb n)).mapM q with
  | some qouts, some ranks =>
    some s!"A median={showZ (medianF view)} mode={showZ (modeF view)} q[{commaJoin qouts}] ranks[{commaJoin ranks}]"
  | _, _ => none

def sameView (a b : List F64) : Bool := a.length == b.length && (a.zip b).all fun (x, y) => sameF x y

def runHist (keep rev : Bool) (ops : List NumOp) (ps : List F64) : String :=
  let (_, _, outs, bad, pan) := ops.foldl (fun (acc : NumF × List F64 × List String × Bool × Bool) op =>
    let (s, seen, outs, bad, pan) := acc
    let (s', view) := NumF.stepOp keep rev s op
    let seen := match op.value? with
      | some v => seen ++ [v]
      | none => seen
    match view with
    | none => (s', seen, dumpState s' :: outs, bad, pan)
    | some o =>
      let spec := analyzeF rev (keptOf keep seen)
      match dumpView o ps with
      | some d => (s', seen, d :: outs, bad || !sameView o spec, pan)
      | none => (s', seen, outs, bad, true)) (NumF.new, [], [], false, false)
  if pan then "panic"
  else if bad then "model-vs-spec " ++ bar outs.reverse
  else "ok " ++ bar outs.reverse

def handle : List String → Option String
  | ["agg", "numh", keep, rev, os, ps] => some <|
    match (if os = "." then some [] else (os.splitOn ";").mapM parseOp),
          (if ps = "." then some [] else (ps.splitOn ",").mapM parseHex64) with
    | some ops, some ps => runHist (keep == "1") (rev == "1") ops ps
    | _, _ => "bad-args"
  | ["agg", "numf", keep, rev, h, qs] => some <|
    match decHexList h with
    | some hist =>
      match (if qs = "." then some [] else (qs.splitOn ",").mapM fun q => F64.parseFloat (ascii q)) with
      | some ps => run (keep == "1") (rev == "1") (hist.map F64.parseFloat) ps
      | none => "bad-args"
    | none => "bad-args"
  | ["agg", "numfv", keep, rev, bs, ps] => some <|
    match (if bs = "." then some [] else (bs.splitOn ";").mapM parseHex64),
          (if ps = "." then some [] else (ps.splitOn ",").mapM parseHex64) with
    | some vals, some ps => run (keep == "1") (rev == "1") (vals.map some) ps
    | _, _ => "bad-args"
  | ["agg", "numerr", e, bs] => some <|
    match e.toInt?, (if bs = "." then some [] else (bs.splitOn ";").mapM parseHex64) with
    | some e, some vals =>
      if e < 0 then
        -- scaled class: M = 2^e = 2^(j − 1074)
        let j := (e + 1074).toNat
        if e < -1074 || !inErrClassJ j vals then "unmodelled outside-the-class"
        else
          let (a, b, c) := numErrCheckJ j vals
          if !b then "model-m2-bound-violated"
          else s!"ok n={vals.length} mean={if a then 1 else 0} var={if c then 1 else 0}"
      else
      let e := e.toNat
      if !inErrClass e vals then "unmodelled outside-the-class"
      else
        let (a, b, c) := numErrCheck e vals
        if !b then "model-m2-bound-violated"
        else s!"ok n={vals.length} mean={if a then 1 else 0} var={if c then 1 else 0}"
    | _, _ => "bad-args"
  | _ => none

end Rare.Drv.C07NumF64
